// Space named-variants-in-any: values whose dynamic type is a defined (named)
// variant of a type the renderer has a fast path for, held in an `any` so that
// the type checker cannot reject the show, shown in every template context.
//
// The renderer's per-context switches are keyed on exact types ([]byte,
// string, error, time.Time, native.HTML/CSS/JS/JSON/Markdown, fmt.Stringer …)
// and fall back on the reflect kind: a defined type with the same kind is the
// value that takes the kind path while looking like the fast-path type.
package main

import (
	"errors"
	"fmt"
	"reflect"
	"regexp"
	"strings"
	"time"

	"verif/kit"

	"github.com/open2b/scriggo"
	"github.com/open2b/scriggo/native"
)

// ---- defined variants, without methods ----

type (
	NBlob   []byte
	NStr    string
	NStr2   NStr
	NInts   []int
	NAnys   []any
	NMap    map[string]int
	NMapK   map[NStr]NBlob
	NBool   bool
	NInt    int
	NInt8   int8
	NByte   uint8
	NUint   uint64
	NUptr   uintptr
	NFloat  float64
	NFlt32  float32
	NCplx   complex128
	NCplx64 complex64
	NStruct struct {
		A int
		B NStr
		C NBlob `json:"c,omitempty"`
		d int
		E *NStruct
	}
	NEmpty    struct{}
	NPtr      *int
	NPtrS     *NStruct
	NFunc     func()
	NChan     chan int
	NArr      [2]byte
	NArrS     [2]NStr
	NBytes    []NByte // slice of a defined byte type
	NBlobs    []NBlob
	NHTML     native.HTML
	NCSS      native.CSS
	NJS       native.JS
	NJSON     native.JSON
	NMarkdown native.Markdown
	NTime     time.Time
	NDur      time.Duration // loses the String method
	NErrStr   struct{ s string }
	NAnyBox   struct{ V any }
)

// ---- defined variants with one of the renderer's methods ----

type BlobStringer []byte

func (b BlobStringer) String() string { return "bs<" + string(b) + ">" }

type StrErr string

func (s StrErr) Error() string { return "err<" + string(s) + ">" }

type StrHTML string

func (s StrHTML) HTML() native.HTML { return native.HTML("<i>" + string(s) + "</i>") }

type BlobJS []byte

func (b BlobJS) JS() native.JS { return native.JS("[" + fmt.Sprint(len(b)) + "]") }

type MapJSON map[string]int

func (m MapJSON) JSON() native.JSON { return native.JSON(fmt.Sprintf("{\"n\":%d}", len(m))) }

type StrCSS string

func (s StrCSS) CSS() native.CSS { return native.CSS(string(s)) }

type StrMD string

func (s StrMD) Markdown() native.Markdown { return native.Markdown("*" + string(s) + "*") }

type FuncStringer func()

func (f FuncStringer) String() string { return "func<&>" }

type TimeStringer time.Time

func (t TimeStringer) String() string { return "time<&>" }

type ETime struct{ time.Time } // embeds: every method of time.Time is promoted

type IntEnvStr int

func (i IntEnvStr) String(env native.Env) string { return fmt.Sprintf("env<%d>", int(i)) }

type PtrRecvBlob []byte // the method is on the pointer only

func (p *PtrRecvBlob) String() string { return "ptr-recv" }

func namedValues() []val {
	seven := 7
	ns := NStruct{A: 1, B: "b<", C: NBlob("c&"), d: 2, E: &NStruct{B: "\xff"}}
	blob := NBlob("a<b>\"'&\x00\xff")
	str := NStr("s<b>\"'&?=#\xff")
	prb := PtrRecvBlob("x")
	tm := time.Date(2020, 2, 3, 4, 5, 6, 7000000, time.UTC)
	return []val{
		mk("NBlob", blob), mk("NBlob-nil", NBlob(nil)), mk("NBlob-empty", NBlob{}), mk("ptr-NBlob", &blob), mk("ptr-NBlob-nil", (*NBlob)(nil)),
		mk("NStr", str), mk("NStr-empty", NStr("")), mk("NStr2", NStr2("x?y&")), mk("ptr-NStr", &str),
		mk("NInts", NInts{1, -2}), mk("NInts-nil", NInts(nil)), mk("NInts-empty", NInts{}),
		mk("NAnys", NAnys{blob, str, nil, NInt(1), NInts(nil)}),
		mk("NMap", NMap{"b": 1, "<a": 2}), mk("NMap-nil", NMap(nil)), mk("NMapK", NMapK{"k<": blob, "a": nil}),
		mk("NBool", NBool(true)), mk("NInt", NInt(-5)), mk("NInt8", NInt8(-128)), mk("NByte", NByte(200)), mk("NUint", NUint(1<<63)), mk("NUptr", NUptr(9)),
		mk("NFloat", NFloat(1.5)), mk("NFloat-nan", NFloat(nan())), mk("NFlt32", NFlt32(0.1)), mk("NCplx", NCplx(complex(1, -2))), mk("NCplx64", NCplx64(complex(0, 3))),
		mk("NStruct", ns), mk("ptr-NStruct", &ns), mk("NEmpty", NEmpty{}), mk("NAnyBox", NAnyBox{V: blob}), mk("NAnyBox-nil", NAnyBox{}), mk("NErrStr", NErrStr{"e"}),
		mk("NPtr", NPtr(&seven)), mk("NPtr-nil", NPtr(nil)), mk("NPtrS", NPtrS(&ns)), mk("NPtrS-nil", NPtrS(nil)),
		mk("NFunc", NFunc(func() {})), mk("NFunc-nil", NFunc(nil)), mk("NChan", make(NChan)), mk("NChan-nil", NChan(nil)),
		mk("NArr", NArr{'<', 0xff}), mk("NArrS", NArrS{"a", "<"}), mk("NBytes", NBytes{'<', 0xff, 0}), mk("NBytes-nil", NBytes(nil)), mk("NBlobs", NBlobs{blob, nil}),
		mk("NHTML", NHTML("<b>&amp;</b>")), mk("NHTML-empty", NHTML("")), mk("NCSS", NCSS("red;}")), mk("NJS", NJS("alert(1)")), mk("NJSON", NJSON("{")), mk("NMarkdown", NMarkdown("# t")),
		mk("NTime", NTime(tm)), mk("NTime-zero", NTime{}), mk("ptr-NTime-nil", (*NTime)(nil)), mk("NDur", NDur(time.Second)),
		mk("BlobStringer", BlobStringer("q?")), mk("BlobStringer-nil", BlobStringer(nil)), mk("StrErr", StrErr("e&")), mk("StrHTML", StrHTML("h")),
		mk("BlobJS", BlobJS("j")), mk("MapJSON", MapJSON{"a": 1}), mk("MapJSON-nil", MapJSON(nil)), mk("StrCSS", StrCSS("blue")), mk("StrMD", StrMD("m")),
		mk("FuncStringer", FuncStringer(func() {})), mk("FuncStringer-nil", FuncStringer(nil)), mk("TimeStringer", TimeStringer(tm)), mk("ETime", ETime{tm}), mk("ETime-zero", ETime{}),
		mk("IntEnvStr", IntEnvStr(3)), mk("PtrRecvBlob", prb), mk("ptr-PtrRecvBlob", &prb),
		mk("native-HTML", native.HTML("<b>")), mk("native-CSS", native.CSS("red")), mk("native-JS", native.JS("1")), mk("native-JSON", native.JSON("[]")), mk("native-Markdown", native.Markdown("# m")),
		mk("error-in-any", errors.New("e<")), mk("time-in-any", tm), mk("bytes-in-any", []byte("b<")),
	}
}

var definedTypeRe = regexp.MustCompile(`\bmain\.[A-Za-z_][A-Za-z_0-9]*`)

func nan() float64 { z := 0.0; return z / z }

// scriggoNamed are the variants declared by the template itself: declaration
// statements and the expression of the value.
type scriggoNamedVal struct{ name, decl, expr string }

var scriggoNamed = []scriggoNamedVal{
	{"Blob", "type X []byte", `X("a<\xff")`},
	{"Blob-nil", "type X []byte", `X(nil)`},
	{"Str", "type X string", `X("s<&?")`},
	{"Str-empty", "type X string", `X("")`},
	{"Ints", "type X []int", `X{1, 2}`},
	{"Ints-nil", "type X []int", `X(nil)`},
	{"Anys", "type X []any; type Y []byte", `X{Y("y"), nil, X(nil)}`},
	{"Map", "type X map[string]int", `X{"a<": 1}`},
	{"Map-nil", "type X map[string]int", `X(nil)`},
	{"Map-named-key", "type K string; type X map[K][]byte", `X{"k": []byte("v")}`},
	{"Bool", "type X bool", `X(true)`},
	{"Int", "type X int", `X(-5)`},
	{"Uint8", "type X uint8", `X(200)`},
	{"Float", "type X float64", `X(1.5)`},
	{"Complex", "type X complex128", `X(2i)`},
	{"Struct", "type X struct { A int; B []byte; c string }", `X{1, []byte("b"), "c"}`},
	{"Struct-empty", "type X struct{}", `X{}`},
	{"Ptr", "type X *int", `X(new(int))`},
	{"Ptr-nil", "type X *int", `X(nil)`},
	{"Ptr-to-named", "type X []byte", `&X{1}`},
	{"Func", "type X func()", `X(func() {})`},
	{"Func-nil", "type X func()", `X(nil)`},
	{"Chan", "type X chan int", `make(X)`},
	{"Chan-nil", "type X chan int", `X(nil)`},
	{"Array", "type X [2]byte", `X{60, 255}`},
	{"Bytes-named-elem", "type E byte; type X []E", `X{60, 255}`},
	{"HTML", "type X html", `X("<b>")`},
	{"CSS", "type X css", `X("red")`},
	{"JS", "type X js", `X("1")`},
	{"JSON", "type X json", `X("[]")`},
	{"Markdown", "type X markdown", `X("# m")`},
	{"of-host-struct", "type X S", `X{X: 1}`},
	{"of-host-struct-with-methods", "type X T", `X{N: 1}`},
	{"of-host-named-blob", "type X NBlob", `X("q")`},
	{"of-host-stringer", "type X BlobStringer", `X("q")`},
	{"of-host-error-type", "type X StrErr", `X("q")`},
	{"of-host-time", "type X Time", `X{}`},
	{"host-named-converted", "", `NBlob("q<")`},
	{"host-stringer-converted", "", `BlobStringer("q<")`},
	{"host-html-converted", "", `NHTML("q<")`},
	{"twice-defined", "type Y []byte; type X Y", `X("z")`},
}

// the contexts of the show space plus the URL attribute ones
func namedCtxs() []showCtx {
	cs := append([]showCtx{}, showCtxs...)
	return append(cs,
		showCtx{"url-attr", "html", "<a href=\"", "\">"},
		showCtx{"url-attr-path", "html", "<a href=\"/p/", "/q\">"},
		showCtx{"url-attr-query", "html", "<a href=\"/p?a=", "&b=1\">"},
		showCtx{"url-attr-unquoted", "html", "<a href=", ">"},
		showCtx{"url-attr-single-quoted", "html", "<a href='/p?", "'>"},
		showCtx{"url-srcset", "html", "<img srcset=\"", " 2x, /b 3x\">"},
		showCtx{"url-attr-markdown", "md", "<a href=\"", "\">x</a>\n"},
		showCtx{"markdown-link", "md", "[a](", ")\n"},
	)
}

// holders of an `any` supplied by the host: how the template reaches the value
var namedHolders = []struct{ name, expr string }{
	{"any-global", "v"},
	{"any-var-passed-to-Run", "v"},
	{"element-of-[]any-global", "vs[0]"},
	{"value-of-map[string]any-global", `vm["k"]`},
	{"any-field-of-struct-global", "vb.V"},
	{"result-of-native-func", "vf()"},
	{"copied-to-local-any", "x"},
}

func namedTypeDecls(g native.Declarations) {
	g["NBlob"] = reflect.TypeOf(NBlob(nil))
	g["NHTML"] = reflect.TypeOf(NHTML(""))
	g["BlobStringer"] = reflect.TypeOf(BlobStringer(nil))
	g["StrErr"] = reflect.TypeOf(StrErr(""))
	g["Time"] = reflect.TypeOf(time.Time{})
}

func namedSpace(tier string) kit.Space {
	vs := namedValues()
	cs := namedCtxs()
	nHost := uint64(len(vs)) * uint64(len(namedHolders))
	nScr := uint64(len(scriggoNamed)) * 2 // × {local any variable, any parameter of a macro}
	perCtx := nHost + nScr
	nm := uint64(1) // quick: template body only; thorough: × {template body, macro}
	if tier == "thorough" {
		nm = 2
	}
	size := perCtx * uint64(len(cs)) * nm

	type kase struct {
		c      showCtx
		macro  bool
		host   bool
		v      val
		holder int
		sv     scriggoNamedVal
		param  bool
	}
	at := func(i uint64) kase {
		k := kase{macro: i%nm == 1}
		i /= nm
		k.c = cs[i%uint64(len(cs))]
		i /= uint64(len(cs))
		if i < nHost {
			k.host = true
			k.holder = int(i % uint64(len(namedHolders)))
			k.v = vs[i/uint64(len(namedHolders))]
			return k
		}
		i -= nHost
		k.param = i%2 == 1
		k.sv = scriggoNamed[i/2]
		return k
	}
	src := func(k kase) srcCase {
		var b strings.Builder
		show := func(expr string) string {
			// the post text of the "twice" context shows the value again
			return k.c.pre + "{{ " + expr + " }}" + strings.ReplaceAll(k.c.post, "{{ v }}", "{{ "+expr+" }}")
		}
		if k.host {
			h := namedHolders[k.holder]
			if h.expr == "x" {
				b.WriteString("{% var x any = v %}")
			}
			if k.macro {
				b.WriteString("{% macro M %}" + show(h.expr) + "{% end %}{{ M() }}")
			} else {
				b.WriteString(show(h.expr))
			}
		} else {
			decl := ""
			if k.sv.decl != "" {
				decl = "{%% " + strings.ReplaceAll(k.sv.decl, "; type", "\ntype") + " %%}"
				if !strings.Contains(k.sv.decl, "; type") {
					decl = "{% " + k.sv.decl + " %}"
				}
			}
			b.WriteString(decl)
			switch {
			case k.param && k.macro:
				b.WriteString("{% macro M(x any) %}" + show("x") + "{% end %}{{ M(" + k.sv.expr + ") }}")
			case k.param:
				b.WriteString("{% f := func(x any) any { return x } %}" + show("f("+k.sv.expr+")"))
			case k.macro:
				b.WriteString("{% var x any = " + k.sv.expr + " %}{% macro M %}" + show("x") + "{% end %}{{ M() }}")
			default:
				b.WriteString("{% var x any = " + k.sv.expr + " %}" + show("x"))
			}
		}
		return srcCase{files: map[string]string{"index." + k.c.ext: b.String()}, entry: "index." + k.c.ext}
	}
	bindNamed := func(k kase) (native.Declarations, map[string]any) {
		g := hostDecls()
		namedTypeDecls(g)
		if !k.host {
			return g, nil
		}
		a := reflect.ValueOf(k.v.asAny).Elem().Interface() // the value, as an any
		switch k.holder {
		case 0, 6:
			x := a
			g["v"] = &x
		case 1:
			x := a
			g["v"] = (*any)(nil)
			return g, map[string]any{"v": &x}
		case 2:
			s := []any{a}
			g["vs"] = &s
		case 3:
			m := map[string]any{"k": a}
			g["vm"] = &m
		case 4:
			bx := NAnyBox{V: a}
			g["vb"] = &bx
		case 5:
			g["vf"] = func() any { return a }
		}
		return g, nil
	}
	return kit.Space{
		Name: "named-variants-in-any", Size: size,
		Eval: func(i uint64) kit.Outcome {
			k := at(i)
			sc := src(k)
			g, vars := bindNamed(k)
			r, ctx := execute(sc, g, vars, false)
			var detail string
			if k.host {
				x := reflect.ValueOf(k.v.asAny).Elem().Interface()
				detail = fmt.Sprintf("host value %s (%T) held in an any: %s, context %s\n%s", k.v.name, x, namedHolders[k.holder].name, k.c.name, describeFiles(sc.files))
			} else {
				detail = fmt.Sprintf("template-declared value %s (%s; %s) held in an any, context %s\n%s", k.sv.name, k.sv.decl, k.sv.expr, k.c.name, describeFiles(sc.files))
			}
			if r.buildErr != nil {
				var be *scriggo.BuildError
				if !errors.As(r.buildErr, &be) {
					return kit.Outcome{Key: "build-error-type|" + fmt.Sprintf("%T", r.buildErr), Detail: detail + "\n" + r.buildErr.Error(), Class: "fail", Nontrivial: true}
				}
				return kit.Outcome{OK: true, Class: "does not build: " + kit.NormMsg(firstWords(stripPos(r.buildErr.Error()), 6))}
			}
			o := judge(r, ctx, detail, false, false, "|in=named-variant")
			if !o.OK {
				// the name of the defined type is the input, not the defect
				o.Key = definedTypeRe.ReplaceAllString(o.Key, "<defined type>")
			}
			return o
		},
		Describe: func(i uint64) any {
			k := at(i)
			m := map[string]any{"context": k.c.name, "macro": k.macro, "files": src(k).files}
			if k.host {
				m["value"] = k.v.name
				m["go_value"] = fmt.Sprintf("%#v", reflect.ValueOf(k.v.asAny).Elem().Interface())
				m["holder"] = namedHolders[k.holder].name
			} else {
				m["value"] = "template-declared " + k.sv.name
				m["decl"], m["expr"], m["as_parameter"] = k.sv.decl, k.sv.expr, k.param
			}
			return m
		},
	}
}
