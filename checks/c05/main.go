// C05 — Running compiled code never panics into the host.
//
// Three families, all run under a host-side recover in crash-isolated workers:
//
//	faults   every faulting operation kind × operand form (local, constant,
//	         captured by a closure, package level) × position (main, callee,
//	         deferred, closure, nested; template block, template macro) × run
//	         options (nil, cancellable context)
//	depth    recursion / goroutine start / panic at increasing call depth
//	show     every show context × ~70 host values × declaration mode, in
//	         templates and macros
//	url      the URL attribute state machine: 10 attribute patterns × 3
//	         preceding texts × 5 second values × the host values
//
// Oracle (statement): Run returns nil, a *PanicError (with a non-empty
// message), the context's error or the Stop error; a panic that leaves Run is
// a violation unless it is the documented Fatal one or it was raised by host
// code the template itself called (a String/Error method of a host value).
package main

import (
	"context"
	"errors"
	"fmt"
	"io"
	"math"
	"os"
	"reflect"
	"regexp"
	"runtime/debug"
	"sort"
	"strings"
	"time"
	"unsafe"

	nc "verif/gen/nativecalls"
	"verif/kit"

	"github.com/open2b/scriggo"
	"github.com/open2b/scriggo/native"
)

// ---- host types ----

type S struct {
	X int
	P *S
}

type T struct{ N int }

func (t T) Hello() string { return "hello" }
func (t *T) Inc()         { t.N++ }

type Helloer interface{ Hello() string }

type hostErr struct{}

func (hostErr) Error() string { return "host error" }

func hostDecls() native.Declarations {
	var nilF func()
	var er error = hostErr{}
	return native.Declarations{
		"S": reflect.TypeOf(S{}), "T": reflect.TypeOf(T{}), "Helloer": reflect.TypeOf((*Helloer)(nil)).Elem(),
		"NilF": &nilF, "Err": &er,
		"Call": func(f func()) {
			if f == nil {
				panic(nilFuncInHost) // the host function's own fault
			}
			f()
		},
	}
}

// ---- fault grid ----

type vd struct{ name, typ, init string }

type fault struct {
	name   string
	vars   []vd
	stmt   string
	kstmt  string // variant with a constant operand, "" when not legal
	goStmt bool
	noTmpl bool
	// mayNotFault: Go does not panic here (comma-ok, defined overflow…)
	mayNotFault bool
	// hostFault: the fault happens inside host code the program called
	hostFault bool
}

var intKinds = []string{"int", "int8", "int16", "int32", "int64", "uint", "uint8", "uint16", "uint32", "uint64", "uintptr"}

func faults() []fault {
	fs := []fault{
		// nil map
		{name: "nilmap-write", vars: []vd{{"m", "map[string]int", ""}, {"k", "string", `"a"`}}, stmt: `m[k] = 1`, kstmt: `m["a"] = 1`},
		{name: "nilmap-write-anykey", vars: []vd{{"m", "map[any]int", ""}, {"k", "any", `1`}}, stmt: `m[k] = 1`, kstmt: `m[1] = 1`},
		{name: "nilmap-incr", vars: []vd{{"m", "map[int]int", ""}, {"k", "int", `1`}}, stmt: `m[k]++`, kstmt: `m[1] += 2`},
		{name: "nilmap-write-struct", vars: []vd{{"m", "map[string]H.S", ""}, {"k", "string", `"a"`}}, stmt: `m[k] = H.S{}`},
		// nil pointers
		{name: "nilptr-field-read", vars: []vd{{"p", "*H.S", ""}}, stmt: `_ = p.X`},
		{name: "nilptr-field-write", vars: []vd{{"p", "*H.S", ""}}, stmt: `p.X = 1`},
		{name: "nilptr-field-incr", vars: []vd{{"p", "*H.S", ""}}, stmt: `p.X++`},
		{name: "nilptr-nested-field", vars: []vd{{"p", "*H.S", "&H.S{}"}}, stmt: `_ = p.P.X`},
		{name: "nilptr-nested-field-write", vars: []vd{{"p", "*H.S", "&H.S{}"}}, stmt: `p.P.X = 2`},
		{name: "nilptr-field-addr", vars: []vd{{"p", "*H.S", ""}}, stmt: `q := &p.X; _ = q`},
		{name: "nilptr-value-method", vars: []vd{{"p", "*H.T", ""}}, stmt: `_ = p.Hello()`},
		{name: "nilptr-method-value", vars: []vd{{"p", "*H.T", ""}}, stmt: `f := p.Hello; _ = f`},
		{name: "nilptr-deref-int", vars: []vd{{"p", "*int", ""}}, stmt: `_ = *p`},
		{name: "nilptr-deref-write-int", vars: []vd{{"p", "*int", ""}}, stmt: `*p = 1`},
		{name: "nilptr-deref-incr", vars: []vd{{"p", "*int", ""}}, stmt: `*p++`},
		{name: "nilptr-deref-string", vars: []vd{{"p", "*string", ""}}, stmt: `_ = *p`},
		{name: "nilptr-deref-float", vars: []vd{{"p", "*float64", ""}}, stmt: `_ = *p + 1`},
		{name: "nilptr-deref-slice", vars: []vd{{"p", "*[]int", ""}}, stmt: `_ = *p`},
		{name: "nilptr-deref-struct", vars: []vd{{"p", "*H.S", ""}}, stmt: `v := *p; _ = v`},
		{name: "nilptr-deref-write-struct", vars: []vd{{"p", "*H.S", ""}}, stmt: `*p = H.S{}`},
		{name: "nilptr-deref-any", vars: []vd{{"p", "*any", ""}}, stmt: `_ = *p`},
		{name: "nil-iface-method", vars: []vd{{"e", "error", ""}}, stmt: `_ = e.Error()`},
		{name: "nil-iface-method-value", vars: []vd{{"e", "error", ""}}, stmt: `f := e.Error; _ = f`},
		{name: "nil-iface-host-method", vars: []vd{{"h", "H.Helloer", ""}}, stmt: `_ = h.Hello()`},
		// index
		{name: "index-string", vars: []vd{{"s", "string", `"abc"`}, {"i", "int", "5"}}, stmt: `_ = s[i]`, kstmt: `_ = s[5]`},
		{name: "index-string-neg", vars: []vd{{"s", "string", `"abc"`}, {"i", "int", "-1"}}, stmt: `_ = s[i]`},
		{name: "index-string-len", vars: []vd{{"s", "string", `"abc"`}, {"i", "int", "3"}}, stmt: `_ = s[i]`, kstmt: `_ = s[3]`},
		{name: "index-string-uint8", vars: []vd{{"s", "string", `"abc"`}, {"i", "uint8", "200"}}, stmt: `_ = s[i]`},
		{name: "index-slice-read", vars: []vd{{"a", "[]int", "[]int{1, 2, 3}"}, {"i", "int", "5"}}, stmt: `_ = a[i]`, kstmt: `_ = a[5]`},
		{name: "index-slice-read-neg", vars: []vd{{"a", "[]int", "[]int{1, 2, 3}"}, {"i", "int", "-1"}}, stmt: `_ = a[i]`},
		{name: "index-slice-write", vars: []vd{{"a", "[]int", "[]int{1, 2, 3}"}, {"i", "int", "5"}}, stmt: `a[i] = 1`, kstmt: `a[5] = 1`},
		{name: "index-slice-write-neg", vars: []vd{{"a", "[]int", "[]int{1, 2, 3}"}, {"i", "int", "-1"}}, stmt: `a[i] = 1`},
		{name: "index-slice-incr", vars: []vd{{"a", "[]int", "[]int{1, 2, 3}"}, {"i", "int", "3"}}, stmt: `a[i]++`, kstmt: `a[3] += 2`},
		{name: "index-slice-addr", vars: []vd{{"a", "[]int", "[]int{1, 2, 3}"}, {"i", "int", "3"}}, stmt: `p := &a[i]; _ = p`, kstmt: `p := &a[3]; _ = p`},
		{name: "index-nil-slice", vars: []vd{{"a", "[]int", ""}, {"i", "int", "0"}}, stmt: `_ = a[i]`, kstmt: `_ = a[0]`},
		{name: "index-slice-string-read", vars: []vd{{"a", "[]string", `[]string{"x"}`}, {"i", "int", "1"}}, stmt: `_ = a[i]`, kstmt: `_ = a[1]`},
		{name: "index-slice-string-write", vars: []vd{{"a", "[]string", `[]string{"x"}`}, {"i", "int", "1"}}, stmt: `a[i] = "y"`, kstmt: `a[1] = "y"`},
		{name: "index-slice-float-write", vars: []vd{{"a", "[]float64", `[]float64{1}`}, {"i", "int", "1"}}, stmt: `a[i] = 2.5`, kstmt: `a[1] = 2.5`},
		{name: "index-slice-any-read", vars: []vd{{"a", "[]any", `[]any{1}`}, {"i", "int", "1"}}, stmt: `_ = a[i]`, kstmt: `_ = a[1]`},
		{name: "index-slice-any-write", vars: []vd{{"a", "[]any", `[]any{1}`}, {"i", "int", "1"}}, stmt: `a[i] = nil`, kstmt: `a[1] = "s"`},
		{name: "index-slice-struct-write", vars: []vd{{"a", "[]H.S", `[]H.S{{}}`}, {"i", "int", "1"}}, stmt: `a[i] = H.S{}`, kstmt: `a[1].X = 3`},
		{name: "index-slice-struct-field", vars: []vd{{"a", "[]H.S", `[]H.S{{}}`}, {"i", "int", "1"}}, stmt: `_ = a[i].X`, kstmt: `_ = a[1].X`},
		{name: "index-slice-of-slice", vars: []vd{{"a", "[][]int", `[][]int{{1}}`}, {"i", "int", "1"}}, stmt: `_ = a[0][i]`, kstmt: `_ = a[0][1]`},
		{name: "index-array-read", vars: []vd{{"arr", "[3]int", ""}, {"i", "int", "3"}}, stmt: `_ = arr[i]`},
		{name: "index-array-write", vars: []vd{{"arr", "[3]int", ""}, {"i", "int", "3"}}, stmt: `arr[i] = 1`},
		{name: "index-array-read-neg", vars: []vd{{"arr", "[3]string", ""}, {"i", "int", "-1"}}, stmt: `_ = arr[i]`},
		{name: "index-array-write-string", vars: []vd{{"arr", "[3]string", ""}, {"i", "int", "7"}}, stmt: `arr[i] = "x"`},
		{name: "index-ptrarray-read", vars: []vd{{"pa", "*[3]int", "&[3]int{}"}, {"i", "int", "3"}}, stmt: `_ = pa[i]`},
		{name: "index-ptrarray-write", vars: []vd{{"pa", "*[3]int", "&[3]int{}"}, {"i", "int", "3"}}, stmt: `pa[i] = 1`},
		{name: "index-nil-ptrarray-read", vars: []vd{{"pa", "*[3]int", ""}, {"i", "int", "0"}}, stmt: `_ = pa[i]`, kstmt: `_ = pa[0]`},
		{name: "index-nil-ptrarray-write", vars: []vd{{"pa", "*[3]int", ""}, {"i", "int", "0"}}, stmt: `pa[i] = 1`, kstmt: `pa[0] = 1`},
		{name: "range-nil-ptrarray", vars: []vd{{"pa", "*[3]int", ""}}, stmt: `for _, v := range pa { _ = v }`},
		// slicing
		{name: "slice-string-inverted", vars: []vd{{"s", "string", `"abc"`}, {"i", "int", "2"}, {"j", "int", "1"}}, stmt: `_ = s[i:j]`},
		{name: "slice-string-high", vars: []vd{{"s", "string", `"abc"`}, {"j", "int", "10"}}, stmt: `_ = s[:j]`, kstmt: `_ = s[:10]`},
		{name: "slice-string-low", vars: []vd{{"s", "string", `"abc"`}, {"i", "int", "10"}}, stmt: `_ = s[i:]`, kstmt: `_ = s[10:]`},
		{name: "slice-string-neg", vars: []vd{{"s", "string", `"abc"`}, {"i", "int", "-1"}}, stmt: `_ = s[i:]`},
		{name: "slice-slice-inverted", vars: []vd{{"a", "[]int", "[]int{1, 2, 3}"}, {"i", "int", "2"}, {"j", "int", "1"}}, stmt: `_ = a[i:j]`},
		{name: "slice-slice-high", vars: []vd{{"a", "[]int", "[]int{1, 2, 3}"}, {"j", "int", "10"}}, stmt: `_ = a[:j]`, kstmt: `_ = a[:10]`},
		{name: "slice-slice-low", vars: []vd{{"a", "[]int", "[]int{1, 2, 3}"}, {"i", "int", "10"}}, stmt: `_ = a[i:]`, kstmt: `_ = a[10:]`},
		{name: "slice-slice-neg", vars: []vd{{"a", "[]int", "[]int{1, 2, 3}"}, {"i", "int", "-1"}}, stmt: `_ = a[i:]`},
		{name: "slice3-slice-max", vars: []vd{{"a", "[]int", "[]int{1, 2, 3}"}, {"k", "int", "10"}}, stmt: `_ = a[0:1:k]`, kstmt: `_ = a[0:1:10]`},
		{name: "slice3-slice-max-lt-high", vars: []vd{{"a", "[]int", "[]int{1, 2, 3}"}, {"j", "int", "3"}, {"k", "int", "2"}}, stmt: `_ = a[0:j:k]`},
		{name: "slice3-slice-neg", vars: []vd{{"a", "[]int", "[]int{1, 2, 3}"}, {"k", "int", "-1"}}, stmt: `_ = a[0:0:k]`},
		{name: "slice-nil-slice", vars: []vd{{"a", "[]int", ""}, {"j", "int", "1"}}, stmt: `_ = a[:j]`, kstmt: `_ = a[:1]`},
		{name: "slice-array-high", vars: []vd{{"arr", "[3]int", ""}, {"j", "int", "10"}}, stmt: `_ = arr[:j]`},
		{name: "slice3-array-max", vars: []vd{{"arr", "[3]int", ""}, {"k", "int", "10"}}, stmt: `_ = arr[0:1:k]`},
		{name: "slice-ptrarray-high", vars: []vd{{"pa", "*[3]int", "&[3]int{}"}, {"j", "int", "10"}}, stmt: `_ = pa[:j]`},
		{name: "slice-nil-ptrarray", vars: []vd{{"pa", "*[3]int", ""}}, stmt: `_ = pa[:]`, kstmt: `_ = pa[0:1]`},
		{name: "slice-slice-strings", vars: []vd{{"a", "[]string", `[]string{"x"}`}, {"j", "int", "10"}}, stmt: `_ = a[:j]`, kstmt: `_ = a[:10]`},
		// type assertions
		{name: "assert-concrete", vars: []vd{{"x", "any", `"s"`}}, stmt: `_ = x.(int)`},
		{name: "assert-concrete-string", vars: []vd{{"x", "any", `1`}}, stmt: `_ = x.(string)`},
		{name: "assert-concrete-float", vars: []vd{{"x", "any", `1`}}, stmt: `_ = x.(float64)`},
		{name: "assert-concrete-slice", vars: []vd{{"x", "any", `1`}}, stmt: `_ = x.([]int)`},
		{name: "assert-host-type", vars: []vd{{"x", "any", `1`}}, stmt: `_ = x.(H.T)`},
		{name: "assert-iface", vars: []vd{{"x", "any", `1`}}, stmt: `_ = x.(error)`},
		{name: "assert-host-iface", vars: []vd{{"x", "any", `1`}}, stmt: `_ = x.(H.Helloer)`},
		{name: "assert-iface-from-iface", vars: []vd{{"e", "error", `H.Err`}}, stmt: `_ = e.(H.Helloer)`},
		{name: "assert-nil-concrete", vars: []vd{{"x", "any", ""}}, stmt: `_ = x.(int)`},
		{name: "assert-nil-iface", vars: []vd{{"x", "any", ""}}, stmt: `_ = x.(error)`},
		{name: "assert-nil-error-concrete", vars: []vd{{"e", "error", ""}}, stmt: `_ = e.(H.T)`},
		{name: "assert-local-type", vars: []vd{{"x", "any", `1`}}, stmt: `type L int; _ = x.(L)`},
		{name: "assert-commaok-concrete", vars: []vd{{"x", "any", `"s"`}}, stmt: `_, ok := x.(int); _ = ok`, mayNotFault: true},
		{name: "assert-commaok-iface", vars: []vd{{"x", "any", `1`}}, stmt: `_, ok := x.(error); _ = ok`, mayNotFault: true},
		{name: "assert-commaok-nil", vars: []vd{{"x", "any", ""}}, stmt: `v, ok := x.(string); _, _ = v, ok`, mayNotFault: true},
		{name: "assert-commaok-nil-iface", vars: []vd{{"x", "any", ""}}, stmt: `v, ok := x.(H.Helloer); _, _ = v, ok`, mayNotFault: true},
		{name: "typeswitch-nil", vars: []vd{{"x", "any", ""}}, stmt: `switch x.(type) { case int: case error: }`, mayNotFault: true},
		// channels
		{name: "close-nil-chan", vars: []vd{{"c", "chan int", ""}}, stmt: `close(c)`},
		{name: "close-closed-chan", vars: []vd{{"c", "chan int", "make(chan int)"}}, stmt: `close(c); close(c)`},
		{name: "send-closed-chan", vars: []vd{{"c", "chan int", "make(chan int, 1)"}}, stmt: `close(c); c <- 1`},
		{name: "send-closed-chan-string", vars: []vd{{"c", "chan string", "make(chan string, 1)"}, {"v", "string", `"x"`}}, stmt: `close(c); c <- v`, kstmt: `close(c); c <- "k"`},
		{name: "send-closed-chan-select", vars: []vd{{"c", "chan int", "make(chan int, 1)"}}, stmt: `close(c); select { case c <- 1: default: }`},
		{name: "recv-closed-chan", vars: []vd{{"c", "chan int", "make(chan int, 1)"}}, stmt: `close(c); v, ok := <-c; _, _ = v, ok`, mayNotFault: true},
		{name: "defer-close-nil-chan", vars: []vd{{"c", "chan int", ""}}, stmt: `defer close(c)`},
		// make
		{name: "make-slice-neg-len", vars: []vd{{"n", "int", "-1"}}, stmt: `_ = make([]int, n)`},
		{name: "make-slice-neg-cap", vars: []vd{{"n", "int", "-1"}}, stmt: `_ = make([]int, 0, n)`},
		{name: "make-slice-len-gt-cap", vars: []vd{{"l", "int", "5"}, {"c", "int", "2"}}, stmt: `_ = make([]int, l, c)`},
		{name: "make-slice-huge", vars: []vd{{"n", "int", "1 << 62"}}, stmt: `_ = make([]int, n)`},
		{name: "make-bytes-huge", vars: []vd{{"n", "int", "1 << 62"}}, stmt: `_ = make([]byte, n)`},
		{name: "make-slice-strings-neg", vars: []vd{{"n", "int", "-1"}}, stmt: `_ = make([]string, n)`},
		{name: "make-slice-uint-len", vars: []vd{{"n", "uint64", "1 << 63"}}, stmt: `_ = make([]int, n)`},
		{name: "make-chan-neg", vars: []vd{{"n", "int", "-1"}}, stmt: `_ = make(chan int, n)`},
		{name: "make-chan-huge", vars: []vd{{"n", "int", "1 << 62"}}, stmt: `_ = make(chan int, n)`},
		{name: "make-map-neg", vars: []vd{{"n", "int", "-1"}}, stmt: `_ = make(map[int]int, n)`, mayNotFault: true},
		// conversions
		{name: "conv-slice-to-array", vars: []vd{{"a", "[]int", "[]int{1, 2}"}}, stmt: `_ = [4]int(a)`},
		{name: "conv-slice-to-arrayptr", vars: []vd{{"a", "[]int", "[]int{1, 2}"}}, stmt: `_ = (*[4]int)(a)`},
		{name: "conv-nil-slice-to-array", vars: []vd{{"a", "[]string", ""}}, stmt: `_ = [1]string(a)`},
		// unhashable keys
		{name: "unhashable-write", vars: []vd{{"m", "map[any]int", "map[any]int{}"}, {"k", "any", "[]int{1}"}}, stmt: `m[k] = 1`},
		{name: "unhashable-read", vars: []vd{{"m", "map[any]int", "map[any]int{}"}, {"k", "any", "[]int{1}"}}, stmt: `_ = m[k]`},
		{name: "unhashable-read-commaok", vars: []vd{{"m", "map[any]int", "map[any]int{}"}, {"k", "any", "[]int{1}"}}, stmt: `_, ok := m[k]; _ = ok`},
		{name: "unhashable-delete", vars: []vd{{"m", "map[any]int", "map[any]int{}"}, {"k", "any", "[]int{1}"}}, stmt: `delete(m, k)`},
		{name: "unhashable-literal", vars: []vd{{"k", "any", "[]int{1}"}}, stmt: `_ = map[any]int{k: 1}`},
		{name: "unhashable-mapkey", vars: []vd{{"m", "map[any]int", "map[any]int{}"}, {"k", "any", "map[string]int{}"}}, stmt: `m[k] = 1`},
		{name: "unhashable-funckey", vars: []vd{{"m", "map[any]int", "map[any]int{}"}, {"k", "any", "func() {}"}}, stmt: `m[k]++`},
		{name: "unhashable-struct-key", vars: []vd{{"m", "map[any]string", "map[any]string{}"}, {"k", "any", "struct{ V any }{[]int{1}}"}}, stmt: `m[k] = "x"`},
		{name: "unhashable-array-key", vars: []vd{{"m", "map[[1]any]int", "map[[1]any]int{}"}, {"k", "[1]any", "[1]any{[]int{1}}"}}, stmt: `m[k] = 1`},
		{name: "unhashable-nil-map-read", vars: []vd{{"m", "map[any]int", ""}, {"k", "any", "[]int{1}"}}, stmt: `_ = m[k]`, mayNotFault: true},
		{name: "unhashable-defer-delete", vars: []vd{{"m", "map[any]int", "map[any]int{}"}, {"k", "any", "[]int{1}"}}, stmt: `defer delete(m, k)`},
		// uncomparable
		{name: "uncomparable-eq", vars: []vd{{"a", "any", "[]int{1}"}, {"b", "any", "[]int{1}"}}, stmt: `_ = a == b`},
		{name: "uncomparable-neq", vars: []vd{{"a", "any", "[]int{1}"}, {"b", "any", "[]int{1}"}}, stmt: `_ = a != b`},
		{name: "uncomparable-if", vars: []vd{{"a", "any", "map[int]int{}"}, {"b", "any", "map[int]int{}"}}, stmt: `if a == b { }`},
		{name: "uncomparable-switch", vars: []vd{{"a", "any", "[]int{1}"}, {"b", "any", "[]int{1}"}}, stmt: `switch a { case b: }`},
		{name: "uncomparable-func", vars: []vd{{"a", "any", "func() {}"}, {"b", "any", "func() {}"}}, stmt: `_ = a == b`},
		{name: "uncomparable-struct", vars: []vd{{"a", "struct{ V any }", "struct{ V any }{[]int{1}}"}, {"b", "struct{ V any }", "struct{ V any }{[]int{1}}"}}, stmt: `_ = a == b`},
		{name: "uncomparable-array", vars: []vd{{"a", "[1]any", "[1]any{[]int{1}}"}, {"b", "[1]any", "[1]any{[]int{1}}"}}, stmt: `_ = a == b`},
		{name: "uncomparable-error-iface", vars: []vd{{"a", "any", "[]int{1}"}, {"e", "error", "H.Err"}}, stmt: `_ = a == e`, mayNotFault: true},
		{name: "uncomparable-different-types", vars: []vd{{"a", "any", "[]int{1}"}, {"b", "any", "[]string{}"}}, stmt: `_ = a == b`, mayNotFault: true},
		// nil functions
		{name: "nilfunc-call", vars: []vd{{"f", "func()", ""}}, stmt: `f()`},
		{name: "nilfunc-call-args", vars: []vd{{"f", "func(int, string) int", ""}}, stmt: `_ = f(1, "a")`},
		{name: "nilfunc-defer", vars: []vd{{"f", "func()", ""}}, stmt: `defer f()`},
		{name: "nilfunc-go", vars: []vd{{"f", "func()", ""}}, stmt: `go f()`, goStmt: true},
		{name: "nilfunc-host-var-call", stmt: `H.NilF()`},
		{name: "nilfunc-host-var-defer", stmt: `defer H.NilF()`},
		{name: "nilfunc-host-var-go", stmt: `go H.NilF()`, goStmt: true},
		{name: "nilfunc-host-var-copy", stmt: `f := H.NilF; f()`},
		{name: "nilfunc-in-slice", vars: []vd{{"fs", "[]func()", "make([]func(), 1)"}}, stmt: `fs[0]()`},
		{name: "nilfunc-in-struct", vars: []vd{{"st", "struct{ F func() int }", ""}}, stmt: `_ = st.F()`},
		{name: "nilfunc-callback", vars: []vd{{"f", "func()", ""}}, stmt: `H.Call(f)`, hostFault: true},
		// arithmetic that is defined
		{name: "minint-div-minus-one", vars: []vd{{"x", "int64", "-9223372036854775808"}, {"y", "int64", "-1"}}, stmt: `_ = x / y`, mayNotFault: true},
		{name: "minint-rem-minus-one", vars: []vd{{"x", "int64", "-9223372036854775808"}, {"y", "int64", "-1"}}, stmt: `_ = x % y`, mayNotFault: true},
		{name: "minint8-div-minus-one", vars: []vd{{"x", "int8", "-128"}, {"y", "int8", "-1"}}, stmt: `_ = x / y`, mayNotFault: true},
		{name: "shift-negative", vars: []vd{{"x", "int", "1"}, {"n", "int", "-1"}}, stmt: `_ = x << n`, mayNotFault: true},
		{name: "shift-right-negative", vars: []vd{{"x", "int", "1"}, {"n", "int", "-1"}}, stmt: `_ = x >> n`, mayNotFault: true},
		{name: "float-div-zero", vars: []vd{{"x", "float64", "1"}, {"z", "float64", "0"}}, stmt: `_ = x / z`, mayNotFault: true},
		{name: "complex-div-zero", vars: []vd{{"x", "complex128", "1"}, {"z", "complex128", "0"}}, stmt: `_ = x / z`, mayNotFault: true},
		{name: "string-from-huge-int", vars: []vd{{"n", "int", "1 << 40"}}, stmt: `_ = string(rune(n))`, mayNotFault: true},
		{name: "append-nil", vars: []vd{{"a", "[]int", ""}}, stmt: `a = append(a, a...); _ = a`, mayNotFault: true},
		{name: "copy-nil", vars: []vd{{"a", "[]int", ""}, {"s", "string", `"x"`}}, stmt: `_ = copy(a, a); _ = s`, mayNotFault: true},
		{name: "len-nil-ptrarray", vars: []vd{{"pa", "*[3]int", ""}}, stmt: `_ = len(pa)`, mayNotFault: true},
		{name: "range-nil-ptrarray-index-only", vars: []vd{{"pa", "*[3]int", ""}}, stmt: `for i := range pa { _ = i }`, mayNotFault: true},
		{name: "delete-nil-map", vars: []vd{{"m", "map[string]int", ""}}, stmt: `delete(m, "a")`, mayNotFault: true},
		{name: "read-nil-map", vars: []vd{{"m", "map[string]int", ""}}, stmt: `_ = m["a"]`, mayNotFault: true},
		{name: "explicit-panic-error", stmt: `panic(H.Err)`},
		{name: "explicit-panic-nil", vars: []vd{{"x", "any", ""}}, stmt: `panic(x)`},
		{name: "explicit-panic-runtime-like", stmt: `panic("runtime error: fake")`},
	}
	for _, k := range intKinds {
		fs = append(fs,
			fault{name: "div-zero-" + k, vars: []vd{{"x", k, "7"}, {"z", k, "0"}}, stmt: `_ = x / z`, kstmt: `_ = 7 / z`},
			fault{name: "rem-zero-" + k, vars: []vd{{"x", k, "7"}, {"z", k, "0"}}, stmt: `_ = x % z`, kstmt: `_ = 7 % z`},
			fault{name: "div-assign-zero-" + k, vars: []vd{{"x", k, "7"}, {"z", k, "0"}}, stmt: `x /= z; _ = x`},
			fault{name: "rem-assign-zero-" + k, vars: []vd{{"x", k, "7"}, {"z", k, "0"}}, stmt: `x %= z; _ = x`},
		)
	}
	return fs
}

var forms = []string{"local", "constant", "captured", "package-level"}
var progPositions = []string{"main", "callee", "deferred", "closure", "callee-of-callee", "callback"}
var tmplPositions = []string{"block", "macro", "closure", "deferred-closure", "closure-with-deferred-recover", "macro-with-deferred-recover"}

var identRe = regexp.MustCompile(`[A-Za-z_][A-Za-z_0-9]*`)

func usedVars(f fault, stmt string) []vd {
	used := map[string]bool{}
	for _, id := range identRe.FindAllString(stmt, -1) {
		used[id] = true
	}
	// a variable used by the initialiser of a used variable
	var out []vd
	for _, v := range f.vars {
		if used[v.name] {
			out = append(out, v)
		}
	}
	return out
}

func declLines(vs []vd, indent string, tmplVar bool) string {
	var b strings.Builder
	for _, v := range vs {
		line := "var " + v.name + " " + v.typ
		if v.init != "" {
			line += " = " + v.init
		}
		if tmplVar {
			b.WriteString("{% " + line + " %}\n")
		} else {
			b.WriteString(indent + line + "\n")
		}
	}
	return b.String()
}

func stmtLines(stmt, indent string) string {
	var b strings.Builder
	for _, s := range strings.Split(stmt, "; ") {
		b.WriteString(indent + s + "\n")
	}
	return b.String()
}

type srcCase struct {
	program bool
	files   map[string]string
	entry   string
	goStmt  bool
	na      string // non-empty: the combination does not exist
}

// faultSource generates the program or template for a fault.
func faultSource(f fault, form, pos int, tmpl bool) srcCase {
	stmt := f.stmt
	if form == 1 {
		if f.kstmt == "" {
			return srcCase{na: "no constant form"}
		}
		stmt = f.kstmt
	}
	if tmpl && (f.goStmt || f.noTmpl) {
		return srcCase{na: "not expressible in a template"}
	}
	vs := usedVars(f, stmt)
	if len(vs) == 0 && (form == 2 || form == 3) {
		return srcCase{na: "no variable operand"}
	}
	h := "host."
	if tmpl {
		h = ""
	}
	fix := func(s string) string { return strings.ReplaceAll(s, "H.", h) }
	// body(indent) = local declarations + statement, according to the form
	body := func(indent string) string {
		switch form {
		case 0, 1:
			return declLines(vs, indent, false) + stmtLines(stmt, indent)
		case 2:
			return declLines(vs, indent, false) + indent + "func() {\n" + stmtLines(stmt, indent+"\t") + indent + "}()\n"
		}
		return stmtLines(stmt, indent)
	}
	if !tmpl {
		var b strings.Builder
		b.WriteString("package main\nimport \"host\"\nvar _ = host.Err\n")
		if form == 3 {
			b.WriteString(declLines(vs, "", false))
		}
		switch pos {
		case 0:
			b.WriteString("func main() {\n" + body("\t") + "}\n")
		case 1:
			b.WriteString("func g() {\n" + body("\t") + "}\nfunc main() {\n\tg()\n}\n")
		case 2:
			b.WriteString("func main() {\n\tdefer func() {\n" + body("\t\t") + "\t}()\n}\n")
		case 3:
			b.WriteString("func main() {\n\tfunc() {\n" + body("\t\t") + "\t}()\n}\n")
		case 4:
			b.WriteString("func g() {\n" + body("\t") + "}\nfunc g2(n int) int {\n\tg()\n\treturn n + 1\n}\nfunc main() {\n\tx := g2(1)\n\t_ = x\n}\n")
		case 5:
			b.WriteString("func main() {\n\thost.Call(func() {\n" + body("\t\t") + "\t})\n}\n")
		}
		return srcCase{program: true, files: map[string]string{"main.go": fix(b.String())}, goStmt: f.goStmt}
	}
	var b strings.Builder
	if form == 3 {
		b.WriteString(declLines(vs, "", true))
	}
	code := "{%%\n" + body("\t") + "%%}"
	switch pos {
	case 0:
		b.WriteString("a" + code + "b")
	case 1:
		b.WriteString("{% macro M %}x" + code + "y{% end %}a{{ M() }}b")
	case 2:
		b.WriteString("a{%%\n\tfunc() {\n" + body("\t\t") + "\t}()\n%%}b")
	case 3:
		b.WriteString("a{%%\n\tdefer func() {\n" + body("\t\t") + "\t}()\n%%}b")
	case 4:
		b.WriteString("a{%%\n\tfunc() {\n\t\tdefer func() {\n\t\t\trecover()\n\t\t}()\n" + body("\t\t") + "\t}()\n%%}b{{ 1 }}")
	case 5:
		b.WriteString("{% macro M %}x{%%\n\tdefer func() {\n\t\trecover()\n\t}()\n" + body("\t") + "%%}y{% end %}a{{ M() }}b{{ 1 }}")
	}
	return srcCase{files: map[string]string{"index.html": fix(b.String())}, entry: "index.html"}
}

// ---- running ----

// limitWriter accepts 64 KB: no template of this check renders more, unless
// the renderer recurses without bound (a cyclic host value), which would end
// in a stack overflow killing the process.
type limitWriter struct{ left int }

var errOutputLimit = errors.New("output limit of the check reached")

func (w *limitWriter) Write(p []byte) (int, error) {
	if len(p) > w.left {
		return 0, errOutputLimit
	}
	w.left -= len(p)
	return len(p), nil
}

type fatalSentinel struct{ s string }
type hostPanicSentinel struct{ s string }

var theFatal = &fatalSentinel{"fatal value"}
var theHostPanic = &hostPanicSentinel{"panic raised by a host method"}
var theStop = errors.New("stop error")
var nilFuncInHost = &hostPanicSentinel{"host function was given a nil func"}

type runResult struct {
	buildPanic any
	buildErr   error
	err        error
	hostPanic  any
	stack      string
}

func describeFiles(files map[string]string) string {
	var names []string
	for n := range files {
		names = append(names, n)
	}
	sort.Strings(names)
	var b strings.Builder
	for _, n := range names {
		fmt.Fprintf(&b, "--- %s\n%s\n", n, files[n])
	}
	return b.String()
}

// judge applies the oracle to a run. hostMethodPanics tells that the shown
// value has a method that panics by itself.
func judge(r runResult, ctx context.Context, detail string, mayFatal, hostMethodPanics bool, where string) kit.Outcome {
	if r.buildPanic != nil {
		return kit.Outcome{OK: true, Class: "Build panicked (outside this property: " + kit.FirstRepoFrame(r.stack) + ": " + kit.NormMsg(fmt.Sprint(r.buildPanic)) + ")"}
	}
	if r.hostPanic != nil {
		switch {
		case r.hostPanic == any(theFatal) && mayFatal:
			return kit.Outcome{OK: true, Class: "documented Fatal panic", Nontrivial: true}
		case mayFatal && fmt.Sprintf("%T", r.hostPanic) == "*runtime.fatalError":
			// Fatal was called: a panic leaves Run as documented; that its value is
			// wrapped instead of being the Fatal argument is C12's finding
			return kit.Outcome{OK: true, Class: "documented Fatal panic (value wrapped in *runtime.fatalError: see C12)", Nontrivial: true}
		case hostMethodPanics && isHostMethodPanic(r.hostPanic):
			return kit.Outcome{OK: true, Class: "host-code panic propagated", Nontrivial: true}
		}
		fr := kit.FirstRepoFrame(r.stack)
		if s, ok := r.hostPanic.(string); ok && strings.HasSuffix(s, "\n") {
			// the text "msg [recovered]\n\tpanic: msg2\n" of an interpreted panic chain
			return kit.Outcome{Key: "hostpanic|" + fr + "|string: the text of an unrecovered interpreted panic", Class: "host-panic", Nontrivial: true,
				Detail: detail + fmt.Sprintf("\nRun panicked in the host with the string %q", s)}
		}
		return kit.Outcome{Key: "hostpanic|" + fr + "|" + kit.NormMsg(panicText(r.hostPanic)) + where, Class: "host-panic", Nontrivial: true,
			Detail: detail + fmt.Sprintf("\nRun panicked in the host with (%T) %v", r.hostPanic, r.hostPanic)}
	}
	switch e := r.err.(type) {
	case nil:
		return kit.Outcome{OK: true, Class: "returned nil", Nontrivial: true}
	case *scriggo.PanicError:
		var msg string
		var bad any
		func() {
			defer func() { bad = recover() }()
			msg = e.Error()
		}()
		if bad != nil {
			return kit.Outcome{Key: "PanicError.Error-panics|" + kit.NormMsg(fmt.Sprint(bad)), Class: "fail", Nontrivial: true, Detail: detail + fmt.Sprintf("\n(*PanicError).Error() panics: %v", bad)}
		}
		if strings.TrimSpace(msg) == "" {
			return kit.Outcome{Key: "PanicError-with-empty-message", Class: "fail", Nontrivial: true, Detail: detail + "\nRun returned a *PanicError whose Error() is empty"}
		}
		return kit.Outcome{OK: true, Class: "returned *PanicError", Nontrivial: true}
	default:
		if r.err == theStop {
			return kit.Outcome{OK: true, Class: "returned the Stop error", Nontrivial: true}
		}
		if errors.Is(r.err, errOutputLimit) {
			return kit.Outcome{Key: "unbounded-rendering|the renderer recurses without bound on a cyclic value (stack overflow kills the process with a plain writer)", Class: "fail", Nontrivial: true,
				Detail: detail + "\nthe template wrote more than 64 KB for a tiny value and was stopped by the check's writer; with an ordinary writer the recursion ends in 'fatal error: stack overflow'"}
		}
		if ctx != nil && ctx.Err() != nil && r.err == ctx.Err() {
			return kit.Outcome{OK: true, Class: "returned the context error", Nontrivial: true}
		}
		// the statement lists the documented results; other plain errors
		// (an unshowable value, go of a nil func) are reported but accepted:
		// they are errors, not host panics
		return kit.Outcome{OK: true, Class: "returned another error: " + kit.NormMsg(firstWords(r.err.Error(), 4)), Nontrivial: true}
	}
}

func firstWords(s string, n int) string {
	f := strings.Fields(s)
	if len(f) > n {
		f = f[:n]
	}
	return strings.Join(f, " ")
}

func panicText(v any) string {
	switch v := v.(type) {
	case error:
		return fmt.Sprintf("%T: %s", v, v.Error())
	case string:
		return "string: " + v
	}
	return fmt.Sprintf("%T: %v", v, v)
}

func isHostMethodPanic(v any) bool {
	if v == any(theHostPanic) {
		return true
	}
	if v == any(nilFuncInHost) {
		return true
	}
	if err, ok := v.(error); ok {
		s := err.Error()
		// the Go runtime's panic for a value method called through a nil
		// pointer of a host type (the wrapper is host code)
		if strings.HasPrefix(s, "value method ") && strings.Contains(s, "called using nil") {
			return true
		}
	}
	return false
}

func execute(sc srcCase, globals native.Declarations, vars map[string]any, withCtx bool) (r runResult, ctx context.Context) {
	files := scriggo.Files{}
	for n, s := range sc.files {
		files[n] = []byte(s)
	}
	var opts *scriggo.RunOptions
	if withCtx {
		var cancel context.CancelFunc
		ctx, cancel = context.WithCancel(context.Background())
		defer cancel()
		opts = &scriggo.RunOptions{Context: ctx, Print: func(any) {}}
	}
	defer func() {
		// a panic of Build/BuildTemplate: not Run's fault (C04/C09 territory)
		if v := recover(); v != nil {
			r.buildPanic = v
			r.stack = string(debug.Stack())
		}
	}()
	var run func() error
	if sc.program {
		p, err := scriggo.Build(files, &scriggo.BuildOptions{Packages: native.Packages{"host": native.Package{Name: "host", Declarations: hostDecls()}}, AllowGoStmt: true})
		if err != nil {
			r.buildErr = err
			return r, ctx
		}
		run = func() error { return p.Run(opts) }
	} else {
		if globals == nil {
			globals = hostDecls()
		}
		t, err := scriggo.BuildTemplate(files, sc.entry, &scriggo.BuildOptions{Globals: globals, AllowGoStmt: true, MarkdownConverter: func(src []byte, out io.Writer) error {
			_, err := out.Write(src)
			return err
		}})
		if err != nil {
			r.buildErr = err
			return r, ctx
		}
		run = func() error { return t.Run(&limitWriter{left: 64 << 10}, vars, opts) }
	}
	func() {
		defer func() {
			if v := recover(); v != nil {
				r.hostPanic = v
				r.stack = string(debug.Stack())
			}
		}()
		r.err = run()
	}()
	if sc.goStmt {
		time.Sleep(2 * time.Millisecond) // let a started goroutine reach its fault inside this case
	}
	return r, ctx
}

func faultSpaces() []kit.Space {
	fs := faults()
	mk := func(name string, tmpl bool, positions []string) kit.Space {
		radices := []uint64{2, uint64(len(positions)), uint64(len(forms)), uint64(len(fs))}
		at := func(i uint64) (fault, int, int, bool) {
			d := kit.Mixed(i, radices...)
			return fs[d[3]], int(d[2]), int(d[1]), d[0] == 1
		}
		return kit.Space{
			Name: name, Size: kit.Product(radices...),
			Eval: func(i uint64) kit.Outcome {
				f, form, pos, withCtx := at(i)
				sc := faultSource(f, form, pos, tmpl)
				if sc.na != "" {
					return kit.Outcome{OK: true, Class: "n/a: " + sc.na}
				}
				r, ctx := execute(sc, nil, nil, withCtx)
				detail := fmt.Sprintf("fault %s, operand form %s, position %s, context option %v\n%s", f.name, forms[form], positions[pos], withCtx, describeFiles(sc.files))
				if r.buildErr != nil {
					var be *scriggo.BuildError
					if !errors.As(r.buildErr, &be) {
						return kit.Outcome{Key: "build-error-type|" + fmt.Sprintf("%T", r.buildErr), Detail: detail + "\n" + r.buildErr.Error(), Class: "fail", Nontrivial: true}
					}
					return kit.Outcome{OK: true, Class: "does not build: " + kit.NormMsg(stripPos(r.buildErr.Error()))}
				}
				group := f.name
				if k := strings.IndexByte(group, '-'); k > 0 {
					group = group[:k]
				}
				where := "|in=" + group
				if e, ok := r.hostPanic.(error); ok && strings.HasSuffix(positions[pos], "-with-deferred-recover") && e.Error() == "runtime error: invalid memory address or nil pointer dereference" {
					// the fault itself was recovered by the template: the interpreter's own nil dereference
					where = "|at=" + positions[pos]
				}
				o := judge(r, ctx, detail, false, f.hostFault, where)
				if o.OK && !f.mayNotFault && o.Class == "returned nil" && strings.HasSuffix(positions[pos], "-with-deferred-recover") {
					o.Class = "returned nil (fault recovered by the template)"
				} else if o.OK && !f.mayNotFault && o.Class == "returned nil" {
					o.Class = "returned nil although Go faults (C01's business)"
				}
				return o
			},
			Describe: func(i uint64) any {
				f, form, pos, withCtx := at(i)
				sc := faultSource(f, form, pos, tmpl)
				return map[string]any{"fault": f.name, "form": forms[form], "position": positions[pos], "with_context": withCtx, "files": sc.files, "na": sc.na}
			},
		}
	}
	return []kit.Space{mk("faults.program", false, progPositions), mk("faults.template", true, tmplPositions)}
}

func stripPos(s string) string {
	parts := strings.SplitN(s, ": ", 2)
	if len(parts) == 2 && strings.Contains(parts[0], ":") {
		return parts[1]
	}
	return s
}

// ---- depth space ----

type depthCase struct {
	name string
	src  func(d int) string
	tmpl bool
}

var depths = []int{1, 10, 50, 100, 150, 200, 250, 254, 255, 256, 257, 300, 511, 512, 513, 600, 1000, 2000, 5000}

func depthCases() []depthCase {
	prog := func(decl, body string) func(int) string {
		return func(d int) string {
			return fmt.Sprintf("package main\nimport \"host\"\nvar _ = host.Err\n%s\nfunc main() {\n%s\n}\n", decl, strings.ReplaceAll(body, "D", fmt.Sprint(d)))
		}
	}
	return []depthCase{
		{name: "recursion-int", src: prog("func r(n int) int {\n\tif n == 0 {\n\t\treturn 0\n\t}\n\treturn 1 + r(n-1)\n}", "\t_ = r(D)")},
		{name: "recursion-string", src: prog("func r(n int, s string) string {\n\tif n == 0 {\n\t\treturn s\n\t}\n\tt := s + \"x\"\n\treturn r(n-1, t)[1:] + \"y\"\n}", "\t_ = r(D, \"ab\")")},
		{name: "recursion-float", src: prog("func r(n int, f float64) float64 {\n\tif n == 0 {\n\t\treturn f\n\t}\n\tg := f * 1.5\n\treturn r(n-1, g) + f\n}", "\t_ = r(D, 1)")},
		{name: "recursion-general", src: prog("func r(n int, a []int) []int {\n\tif n == 0 {\n\t\treturn a\n\t}\n\tb := append(a, n)\n\treturn append(r(n-1, b), 1)\n}", "\t_ = r(D, nil)")},
		{name: "recursion-tail", src: prog("func r(n int) int {\n\tif n == 0 {\n\t\treturn 0\n\t}\n\treturn r(n - 1)\n}", "\t_ = r(D)")},
		{name: "recursion-closure", src: prog("", "\tvar r func(n int) int\n\tr = func(n int) int {\n\t\tif n == 0 {\n\t\t\treturn 0\n\t\t}\n\t\treturn 1 + r(n-1)\n\t}\n\t_ = r(D)")},
		{name: "recursion-then-panic", src: prog("func r(n int) int {\n\tif n == 0 {\n\t\tpanic(\"bottom\")\n\t}\n\treturn 1 + r(n-1)\n}", "\t_ = r(D)")},
		{name: "recursion-then-fault", src: prog("func r(n int, a []int) int {\n\tif n == 0 {\n\t\treturn a[n+3]\n\t}\n\treturn 1 + r(n-1, a)\n}", "\t_ = r(D, []int{1})")},
		{name: "recursion-with-defers", src: prog("func r(n int) int {\n\tdefer func() {\n\t\t_ = n\n\t}()\n\tif n == 0 {\n\t\treturn 0\n\t}\n\treturn 1 + r(n-1)\n}", "\t_ = r(D)")},
		{name: "recursion-defers-then-panic-recovered", src: prog("func r(n int) int {\n\tdefer func() {\n\t\t_ = n\n\t}()\n\tif n == 0 {\n\t\tpanic(\"bottom\")\n\t}\n\treturn 1 + r(n-1)\n}", "\tdefer func() {\n\t\trecover()\n\t}()\n\t_ = r(D)")},
		{name: "go-at-depth", src: prog("func w(c chan int) {\n\tc <- 1\n}\nfunc r(n int, c chan int) int {\n\tif n == 0 {\n\t\tgo w(c)\n\t\treturn 0\n\t}\n\treturn 1 + r(n-1, c)\n}", "\tc := make(chan int, 1)\n\t_ = r(D, c)\n\t<-c")},
		{name: "go-closure-at-depth", src: prog("func r(n int, c chan int) int {\n\tif n == 0 {\n\t\tgo func() {\n\t\t\tc <- n\n\t\t}()\n\t\treturn 0\n\t}\n\treturn 1 + r(n-1, c)\n}", "\tc := make(chan int, 1)\n\t_ = r(D, c)\n\t<-c")},
		{name: "native-callback-at-depth", src: prog("func r(n int) int {\n\tif n == 0 {\n\t\thost.Call(func() {\n\t\t\t_ = n\n\t\t})\n\t\treturn 0\n\t}\n\treturn 1 + r(n-1)\n}", "\t_ = r(D)")},
		{name: "many-locals", src: func(d int) string {
			var b strings.Builder
			b.WriteString("package main\nfunc main() {\n")
			n := d
			if n > 120 {
				n = 120
			}
			for i := 0; i < n; i++ {
				fmt.Fprintf(&b, "\tv%d := %d\n\ts%d := \"s\"\n\tf%d := 1.5\n\ta%d := []int{%d}\n", i, i, i, i, i, i)
			}
			for i := 0; i < n; i++ {
				fmt.Fprintf(&b, "\t_, _, _, _ = v%d, s%d, f%d, a%d\n", i, i, i, i)
			}
			b.WriteString("}\n")
			return b.String()
		}},
		{name: "template-macro-recursion", tmpl: true, src: func(d int) string {
			return fmt.Sprintf("{%% macro M(n int) %%}{%% if n > 0 %%}{{ n }},{{ M(n-1) }}{%% end %%}{%% end %%}{{ M(%d) }}", d)
		}},
		{name: "template-func-recursion", tmpl: true, src: func(d int) string {
			return fmt.Sprintf("{%%%%\n\tvar r func(n int) int\n\tr = func(n int) int {\n\t\tif n == 0 {\n\t\t\treturn 0\n\t\t}\n\t\treturn 1 + r(n-1)\n\t}\n%%%%}{{ r(%d) }}", d)
		}},
	}
}

func depthSpace(tier string) kit.Space {
	cs := depthCases()
	ds := depths
	if tier != "thorough" {
		ds = []int{1, 50, 150, 200, 255, 256, 300, 512, 600, 2000}
	}
	radices := []uint64{2, uint64(len(ds)), uint64(len(cs))}
	at := func(i uint64) (depthCase, int, bool) {
		d := kit.Mixed(i, radices...)
		return cs[d[2]], ds[d[1]], d[0] == 1
	}
	mkSrc := func(c depthCase, d int) srcCase {
		if c.tmpl {
			return srcCase{files: map[string]string{"index.html": c.src(d)}, entry: "index.html"}
		}
		return srcCase{program: true, files: map[string]string{"main.go": c.src(d)}}
	}
	return kit.Space{
		Name: "depth", Size: kit.Product(radices...),
		Eval: func(i uint64) kit.Outcome {
			c, d, withCtx := at(i)
			sc := mkSrc(c, d)
			r, ctx := execute(sc, nil, nil, withCtx)
			src := describeFiles(sc.files)
			if len(src) > 1500 {
				src = src[:1500] + "…"
			}
			detail := fmt.Sprintf("%s at depth %d, context option %v\n%s", c.name, d, withCtx, src)
			if r.buildErr != nil {
				return kit.Outcome{OK: true, Class: "does not build: " + kit.NormMsg(stripPos(r.buildErr.Error()))}
			}
			return judge(r, ctx, detail, false, false, "|in=depth")
		},
		Describe: func(i uint64) any {
			c, d, withCtx := at(i)
			return map[string]any{"case": c.name, "depth": d, "with_context": withCtx}
		},
	}
}

// ---- shown values ----

type val struct {
	name       string
	typed      any // pointer to a variable of the value's static type
	asAny      any // *any holding the value
	hostPanics bool
	mayFatal   bool
}

func mk[X any](name string, x X) val {
	t := x
	var a any = x
	return val{name: name, typed: &t, asAny: &a}
}

type strPanics struct{}

func (strPanics) String() string { panic(theHostPanic) }

type errPanics struct{}

func (errPanics) Error() string { panic(theHostPanic) }

type htmlPanics struct{}

func (htmlPanics) HTML() native.HTML { panic(theHostPanic) }

type jsPanics struct{}

func (jsPanics) JS() native.JS { panic(theHostPanic) }

type jsonPanics struct{}

func (jsonPanics) JSON() native.JSON { panic(theHostPanic) }

type cssPanics struct{}

func (cssPanics) CSS() native.CSS { panic(theHostPanic) }

type mdPanics struct{}

func (mdPanics) Markdown() native.Markdown { panic(theHostPanic) }

type valueStringer struct{ s string }

func (v valueStringer) String() string { return v.s }

type ptrStringer struct{ s string }

func (p *ptrStringer) String() string {
	if p == nil {
		return "<nil ptrStringer>"
	}
	return p.s
}

type valueErr struct{}

func (valueErr) Error() string { return "value <error>" }

type envFatal struct{}

func (envFatal) String(env native.Env) string { env.Fatal(theFatal); return "" }

type envStop struct{}

func (envStop) String(env native.Env) string { env.Stop(theStop); return "" }

type envStr struct{}

func (envStr) String(env native.Env) string { return "env<str>" }

type jsonTagged struct {
	A int    `json:"a,omitempty"`
	B string `json:"-"`
	C any    `json:"c"`
	d int
	E *jsonTagged
}

type cyclic struct {
	Name string
	Next *cyclic
}

type keyStr struct{ k string }

func (k keyStr) String() string { return k.k }

type keyPanics struct{ k int }

func (k keyPanics) String() string { panic(theHostPanic) }

func values() []val {
	cyc := &cyclic{Name: "a"}
	cyc.Next = cyc
	bigTime := time.Date(2000000, 1, 1, 0, 0, 0, 0, time.UTC)
	negTime := time.Date(-2000000, 1, 1, 0, 0, 0, 0, time.UTC)
	vs := []val{
		mk("string-empty", ""), mk("string-a", "a"), mk("string-q-middle", "x?y"), mk("string-ends-q", "x?"), mk("string-ends-amp", "x?a&"),
		mk("string-ends-eq", "x?a="), mk("string-ends-hash", "x#"), mk("string-q", "?"), mk("string-amp", "&"), mk("string-eq", "="), mk("string-hash", "#"),
		mk("string-space", "a b"), mk("string-specials", "<>&\"'`\\/"), mk("string-invalid-utf8", "\xff\xfe"), mk("string-truncated-utf8", "a\xe2\x82"), mk("string-nul", "\x00"),
		mk("string-js-url", "javascript:alert(1)"), mk("string-nonascii", "é\u2028\u2029"), mk("string-close-script", "</script><!--"), mk("string-css-close", "*/ }</style>"),
		mk("string-percent", "%zz%"), mk("string-comma", "a, b 2x"), mk("string-newlines", "a\r\nb\tc"), mk("string-backtick", "`${x}`"), mk("string-md", "# *a* [b](c) `d`\n\n    e"),
		mk("html-typed", native.HTML("<b>&amp;</b>")), mk("html-empty", native.HTML("")), mk("css-typed", native.CSS("red;}")), mk("js-typed", native.JS("alert(1)")), mk("json-typed", native.JSON("{")),
		mk("markdown-typed", native.Markdown("# t")),
		mk("any-nil", any(nil)), mk("error-nil", error(nil)), mk("stringer-iface-nil", fmt.Stringer(nil)),
		mk("ptr-int-nil", (*int)(nil)), mk("slice-int-nil", []int(nil)), mk("map-nil", map[string]int(nil)), mk("func-nil", (func())(nil)), mk("chan-nil", (chan int)(nil)),
		mk("ptr-valuestringer-nil", (*valueStringer)(nil)), mk("ptr-ptrstringer-nil", (*ptrStringer)(nil)), mk("ptr-valueerr-nil", (*valueErr)(nil)), mk("ptr-struct-nil", (*jsonTagged)(nil)),
		mk("bytes-nil", []byte(nil)), mk("bytes-empty", []byte{}), mk("bytes-ff", []byte{0xff, 0, '<'}),
		mk("float-nan", math.NaN()), mk("float-inf", math.Inf(1)), mk("float-neginf", math.Inf(-1)), mk("float32-nan", float32(math.NaN())), mk("float-negzero", math.Copysign(0, -1)), mk("float-huge", 1e300), mk("float-tiny", 5e-324),
		mk("int-max", int64(math.MaxInt64)), mk("int-min", int64(math.MinInt64)), mk("uint-max", uint64(math.MaxUint64)), mk("int8-min", int8(-128)), mk("uintptr", uintptr(7)), mk("bool", true),
		mk("complex-nan", complex(math.NaN(), math.Inf(-1))), mk("complex64", complex64(complex(1, -2))), mk("complex-zero-imag", complex(0, 3)),
		mk("stringer", valueStringer{"<s>&"}), mk("stringer-invalid-utf8", valueStringer{"\xff"}), mk("ptrstringer", &ptrStringer{"p?"}), mk("envstringer", envStr{}),
		mk("error-value", errors.New("an <error>?")), mk("valueerr", valueErr{}),
		mk("time-zero", time.Time{}), mk("time-now-fixed", time.Date(2020, 2, 3, 4, 5, 6, 7000000, time.FixedZone("X", -3*3600-1800))), mk("time-year-2e6", bigTime), mk("time-year-neg-2e6", negTime),
		mk("ptr-time-nil", (*time.Time)(nil)),
		mk("struct-tagged", jsonTagged{A: 0, B: "b", C: []any{1, nil, "x"}, d: 1}), mk("struct-ptr-nested", &jsonTagged{A: 1, E: &jsonTagged{C: math.NaN()}}),
		mk("slice-any-mixed", []any{1, "a", nil, 2.5, []byte("x"), map[string]any{"k": nil}}), mk("slice-any-with-func", []any{func() {}, make(chan int)}),
		mk("map-string-any", map[string]any{"b": 1, "a": []int{1}, "<": nil}), mk("map-int-key", map[int]string{2: "b", 1: "a"}), mk("map-bool-key", map[bool]int{true: 1}),
		mk("map-float-key-nan", map[float64]int{math.NaN(): 1, 1.5: 2}), mk("map-stringer-key", map[keyStr]int{{"k"}: 1}), mk("map-any-key", map[any]int{1: 1, "a": 2}),
		mk("array-strings", [2]string{"a", "<"}), mk("array-empty", [0]int{}), mk("ptr-to-ptr", new(*int)), mk("unsafe-pointer", unsafe.Pointer(nil)),
		mk("func-value", func() {}), mk("chan-value", make(chan int)),
		mk("struct-with-unexported-only", struct{ a int }{1}), mk("struct-empty", struct{}{}),
	}
	// values whose own methods panic: the panic is raised by host code
	hp := []val{
		mk("stringer-panics", strPanics{}), mk("error-panics", errPanics{}), mk("htmlstringer-panics", htmlPanics{}), mk("jsstringer-panics", jsPanics{}),
		mk("jsonstringer-panics", jsonPanics{}), mk("cssstringer-panics", cssPanics{}), mk("mdstringer-panics", mdPanics{}),
		mk("map-key-stringer-panics", map[keyPanics]int{{1}: 1}), mk("slice-of-panicking-stringers", []any{strPanics{}}),
		mk("ptr-valuestringer-nil-again", (*valueStringer)(nil)), mk("ptr-valueerr-nil-again", (*valueErr)(nil)), mk("ptr-strpanics", &strPanics{}),
	}
	for i := range hp {
		hp[i].hostPanics = true
	}
	// mark the typed-nil pointers to value-receiver Stringers too
	for i := range vs {
		if vs[i].name == "ptr-valuestringer-nil" || vs[i].name == "ptr-valueerr-nil" || vs[i].name == "ptr-time-nil" {
			vs[i].hostPanics = true
		}
	}
	vs = append(vs, hp...)
	ef := mk("envstringer-calls-Fatal", envFatal{})
	ef.mayFatal = true
	vs = append(vs, ef, mk("envstringer-calls-Stop", envStop{}))
	vs = append(vs, mk("cyclic-pointer", cyc))
	return vs
}

// declaration modes
var modes = []string{"typed-global", "any-global", "typed-var-passed-to-Run"}

// bind returns the globals and Run vars declaring v (and w) in the given mode.
func bind(mode int, names []string, vals []val) (native.Declarations, map[string]any) {
	g := hostDecls()
	var vars map[string]any
	for i, n := range names {
		v := vals[i]
		switch mode {
		case 0:
			g[n] = v.typed
		case 1:
			g[n] = v.asAny
		case 2:
			g[n] = reflect.Zero(reflect.TypeOf(v.typed)).Interface() // (*T)(nil): a variable without value
			if vars == nil {
				vars = map[string]any{}
			}
			vars[n] = v.typed
		}
	}
	return g, vars
}

type showCtx struct{ name, ext, pre, post string }

var showCtxs = []showCtx{
	{"html", "html", "<p>", "</p>"},
	{"html-twice", "html", "", "{{ v }}"},
	{"tag", "html", "<div ", ">"},
	{"tag-after-attr", "html", "<div a=\"b\" ", " c>"},
	{"attr-quoted", "html", "<a title=\"", "\">"},
	{"attr-single-quoted", "html", "<a title='x", "y'>"},
	{"attr-unquoted", "html", "<a title=", ">"},
	{"attr-unquoted-mid", "html", "<a title=x", "y z>"},
	{"css", "html", "<style>a{b:", "}</style>"},
	{"css-attr", "html", "<p style=\"b:", "\">"},
	{"css-string", "html", "<style>a{b:\"", "\"}</style>"},
	{"css-string-single", "html", "<style>a{b:'", "'}</style>"},
	{"css-string-attr", "html", "<p style=\"b:'", "'\">"},
	{"js", "html", "<script>x=", ";</script>"},
	{"js-attr", "html", "<p onclick=\"f(", ")\">"},
	{"js-string", "html", "<script>x=\"", "\";</script>"},
	{"js-string-single", "html", "<script>x='", "';</script>"},
	{"js-string-attr", "html", "<p onclick=\"f('", "')\">"},
	{"json-script", "html", "<script type=\"application/ld+json\">{\"a\":", "}</script>"},
	{"json-string-script", "html", "<script type=\"application/ld+json\">{\"a\":\"", "\"}</script>"},
	{"file-js", "js", "x=", ";"},
	{"file-js-string", "js", "x=\"", "\";"},
	{"file-json", "json", "{\"a\":", "}"},
	{"file-json-string", "json", "{\"a\":\"", "\"}"},
	{"file-css", "css", "a{b:", "}"},
	{"file-css-string", "css", "a{b:\"", "\"}"},
	{"file-text", "txt", "<", ">"},
	{"markdown", "md", "# ", "\n"},
	{"markdown-inline-html", "md", "<b>", "</b>\n"},
	{"markdown-code-spaces", "md", "    ", "\n"},
	{"markdown-code-tab", "md", "\t", "\n"},
	{"markdown-fenced", "md", "```\n", "\n```\n"},
}

func showSpace(tier string) kit.Space {
	vs := values()
	nm := uint64(2)
	if tier == "thorough" {
		nm = 3
	}
	radices := []uint64{2, nm, uint64(len(showCtxs)), uint64(len(vs))}
	at := func(i uint64) (val, showCtx, int, bool) {
		d := kit.Mixed(i, radices...)
		return vs[d[3]], showCtxs[d[2]], int(d[1]), d[0] == 1
	}
	src := func(c showCtx, macro bool) srcCase {
		body := c.pre + "{{ v }}" + c.post
		if macro {
			body = "{% macro M %}" + body + "{% end %}{{ M() }}"
		}
		return srcCase{files: map[string]string{"index." + c.ext: body}, entry: "index." + c.ext}
	}
	return kit.Space{
		Name: "show", Size: kit.Product(radices...),
		Eval: func(i uint64) kit.Outcome {
			v, c, mode, macro := at(i)
			sc := src(c, macro)
			g, vars := bind(mode, []string{"v"}, []val{v})
			r, ctx := execute(sc, g, vars, false)
			detail := fmt.Sprintf("value %s (%T) declared as %s, context %s\n%s", v.name, reflect.ValueOf(v.typed).Elem().Interface(), modes[mode], c.name, describeFiles(sc.files))
			if r.buildErr != nil {
				var be *scriggo.BuildError
				if !errors.As(r.buildErr, &be) {
					return kit.Outcome{Key: "build-error-type|" + fmt.Sprintf("%T", r.buildErr), Detail: detail + "\n" + r.buildErr.Error(), Class: "fail", Nontrivial: true}
				}
				return kit.Outcome{OK: true, Class: "does not build (type not showable in the context)"}
			}
			return judge(r, ctx, detail, v.mayFatal, v.hostPanics, "")
		},
		Describe: func(i uint64) any {
			v, c, mode, macro := at(i)
			return map[string]any{"value": v.name, "go_value": fmt.Sprintf("%#v", reflect.ValueOf(v.typed).Elem().Interface()), "mode": modes[mode], "context": c.name, "files": src(c, macro).files}
		},
	}
}

// ---- URL state machine ----

var urlPatterns = []string{
	`<a href="PRE{{ v }}">`,
	`<a href="PRE{{ v }}{{ w }}">`,
	`<a href="PRE{{ w }}{{ v }}">`,
	`<a href="PRE{{ v }}?{{ w }}">`,
	`<a href="PRE{{ v }}&{{ w }}">`,
	`<a href="PRE{{ v }}#{{ w }}">`,
	`<a href=PRE{{ v }}{{ w }}>`,
	`<img srcset="PRE{{ v }} 1x, {{ w }}{{ v }} 2x">`,
	`<a href="PRE{{ v }}{{ w }}{{ v }}">`,
	`<a href="PRE{{ v }}"><a href="{{ w }}">`,
	`<a href='PRE{{ v }}{{ w }}?x'>`,
	`<a href="PRE{{ v }}{% if true %}{{ w }}{% end %}">`,
}

var urlPres = []string{"", "/p?", "/p?a=b&"}

func urlSpace(tier string) kit.Space {
	vs := values()
	ws := []val{mk("w-empty", ""), mk("w-z", "z"), mk("w-q", "x?y"), mk("w-amp", "a&"), mk("w-only-q", "?")}
	nm := uint64(2)
	if tier == "thorough" {
		nm = 3
		ws = append(ws, mk("w-any-nil", any(nil)), mk("w-html-empty", native.HTML("")), mk("w-hash", "#"))
	}
	radices := []uint64{nm, uint64(len(urlPres)), uint64(len(ws)), uint64(len(urlPatterns)), uint64(len(vs))}
	at := func(i uint64) (val, val, string, int) {
		d := kit.Mixed(i, radices...)
		return vs[d[4]], ws[d[2]], strings.ReplaceAll(urlPatterns[d[3]], "PRE", urlPres[d[1]]), int(d[0])
	}
	return kit.Space{
		Name: "url", Size: kit.Product(radices...),
		Eval: func(i uint64) kit.Outcome {
			v, w, src, mode := at(i)
			sc := srcCase{files: map[string]string{"index.html": src}, entry: "index.html"}
			g, vars := bind(mode, []string{"v", "w"}, []val{v, w})
			r, ctx := execute(sc, g, vars, false)
			detail := fmt.Sprintf("v = %s (%#v), w = %s (%#v), declared as %s\n%s", v.name, reflect.ValueOf(v.typed).Elem().Interface(), w.name, reflect.ValueOf(w.typed).Elem().Interface(), modes[mode], describeFiles(sc.files))
			if r.buildErr != nil {
				return kit.Outcome{OK: true, Class: "does not build (type not showable in the context)"}
			}
			return judge(r, ctx, detail, v.mayFatal, v.hostPanics, "")
		},
		Describe: func(i uint64) any {
			v, w, src, mode := at(i)
			return map[string]any{"v": v.name, "w": w.name, "mode": modes[mode], "template": src}
		},
	}
}

// ---- native callees: call form × failure kind ----

func nativeCallSpace() kit.Space {
	cs := nc.Cases()
	return kit.Space{
		Name: "native-calls", Size: uint64(len(cs)),
		Eval: func(i uint64) kit.Outcome {
			c := cs[i]
			if !c.Applicable() {
				return kit.Outcome{OK: true, Class: "n/a: Stop/Fatal need an Env parameter; variables and returned functions have none"}
			}
			r := nc.Run(c)
			src, _ := c.Source()
			detail := c.String() + "\n" + describeFiles(src)
			if r.BuildErr != nil || r.BuildPanic != nil {
				return kit.Outcome{Key: "harness|native-calls source does not build", Detail: fmt.Sprintf("%s\n%v %v", detail, r.BuildErr, r.BuildPanic), Class: "fail", Nontrivial: true}
			}
			detail += "\nobserved: " + r.Summary()
			switch r.Kind {
			case "host panic":
				switch {
				case nc.IsHostRuntimeError(c.Kind, r.HostPanic):
					// the native function's own runtime error: host code
				case c.Kind == nc.KCallbackPanics && fmt.Sprint(r.HostPanic) == "cb-boom\n":
					return kit.Outcome{Key: "hostpanic|" + kit.FirstRepoFrame(r.Stack) + "|string: the text of an unrecovered interpreted panic", Class: "host-panic", Nontrivial: true, Detail: detail}
				case nc.EnvValueDefect(r.HostPanic):
					return kit.Outcome{Key: "hostpanic|" + kit.FirstRepoFrame(r.Stack) + "|string: reflect.Set: a native function with an Env parameter used as a function value is not assignable to its function type", Class: "host-panic", Nontrivial: true, Detail: detail}
				default:
					return kit.Outcome{Key: "hostpanic|" + kit.FirstRepoFrame(r.Stack) + "|" + kit.NormMsg(panicText(r.HostPanic)) + "|in=native-callee", Class: "host-panic", Nontrivial: true, Detail: detail}
				}
			case "Fatal value panic":
				if c.Kind != nc.KFatal {
					return kit.Outcome{Key: "native-callee|Fatal panic without a call of Fatal", Class: "fail", Nontrivial: true, Detail: detail}
				}
			case "other error":
				return kit.Outcome{Key: "native-callee|Run returned an undocumented error|" + kit.NormMsg(r.Err.Error()), Class: "fail", Nontrivial: true, Detail: detail}
			}
			// differential twin: the direct call form gives the same outcome
			if t := c.Twin(); t != c {
				tr := nc.Run(t)
				if tr.Summary() != r.Summary() {
					return kit.Outcome{Key: "native-callee|outcome differs from the direct-call twin|callee " + nc.KindNames[c.Kind], Class: "fail", Nontrivial: true,
						Detail: detail + "\ndirect-call twin: " + tr.Summary()}
				}
			}
			cl := "native callee: " + r.Kind
			if r.Kind == "host panic" {
				cl = "native callee: host-code panic propagated"
			}
			return kit.Outcome{OK: true, Class: cl, Nontrivial: true}
		},
		Describe: func(i uint64) any { return cs[i].Describe() },
	}
}

func spaces(tier string) []kit.Space {
	debug.SetMaxStack(64 << 20) // a runaway recursion of the renderer dies quickly
	sps := faultSpaces()
	sps = append(sps, nativeCallSpace(), chanSeqSpace(), embeddedSpace(), assertSpace(), bigTablesSpace(tier), depthSpace(tier), showSpace(tier), urlSpace(tier), namedSpace(tier))
	if only := os.Getenv("C05_ONLY"); only != "" { // development aid
		var out []kit.Space
		for _, sp := range sps {
			if strings.HasPrefix(sp.Name, only) {
				out = append(out, sp)
			}
		}
		return out
	}
	return sps
}

func main() {
	kit.Main(&kit.Check{
		ID:          "C05",
		Level:       "model_checking",
		Isolated:    true,
		HangSeconds: 60,
		Rule:        "faults: every fault of the list (nil map write, nil pointer field/deref/method, index and slice bounds on string/slice/array/pointer-to-array, failed assertions, closed/nil channel misuse, divide and modulo by zero for 11 integer kinds, bad make sizes, short slice→array conversion, unhashable keys, uncomparable ==, nil func calls, plus defined-behaviour controls) × 4 operand forms × 6 program positions / 2 template positions × {no options, cancellable context}; depth: 16 recursive shapes × call depths around the register-stack boundaries; show: 32 contexts × every host value × declaration modes × {template body, macro}; url: 12 URL-attribute patterns × 3 preceding texts × second values × every host value × modes. A case is non-trivial when the combination exists and builds (it then really runs)",
		Assumptions: []string{
			"native-calls: 21 program and 7 template call forms × 10 failure kinds of the native callee × callee with/without Env × {not recovered, recovered by the caller}; besides the host-panic oracle the outcome (result kind, message, printed locals of the four register kinds) must equal that of the direct-call twin; a runtime.Error raised by the native function's own code is host code",
			"chan-seq: every ordered pair and triple of 10 channel operations (receive, send, range, select with default, select ready to receive / to send, select cut short by a recovered send on a closed channel, receive and select-receive from a closed channel, recovered send on a closed channel) in one run, with and without a cancellable context: the output is the concatenation of what each operation prints alone",
			"embedded: 10 native values (Customer{*Inner}, Deep{Mid{*Inner}}, pointers to them; nil embedded pointer; nil outer pointer) × 15 operations on promoted fields of the four register kinds and promoted methods × 6 holders (native variable, local copy, captured, package-level, template global, template variable) × {not recovered, recovered}: a nil pointer on the path gives the nil-pointer *PanicError (recoverable), otherwise the Go result; the value-receiver method through a nil pointer is left to the known finding of the faults space",
			"assert-iface: 12 dynamic values (native types with no / fewer-parameter / more-parameter / other-result / pointer-receiver Name method, types declared in Scriggo, nil) × {x.(I), x.(I) in an expression, comma-ok, type switch} × source {any, another native interface} × 3 holders: result and panic message are those Go itself gives for the native values",
			"big-tables: 27 table-indexed instruction kinds executed after n other entries of the same table, n around 127/128, 255/256 and beyond: either the compiler refuses (limit) or the program prints the expected value",
			"named-variants-in-any: values whose dynamic type is a defined variant of a type the renderer special-cases ([]byte, string, numbers, bool, slices, maps, structs, pointers, funcs, channels, arrays, time.Time, the native typed strings; with and without a String/Error/HTML/JS/JSON/CSS/Markdown method) held in an any (7 host holders: any global, any variable passed to Run, []any element, map[string]any value, any struct field, native function result, local copy; and types declared by the template itself, as a local any and as an any parameter) × the 32 show contexts + 8 URL-attribute contexts × {template body, macro (thorough)}: same oracle, Run returns normally or with an error",
			"C01's generated programs (space (a) of the design) are not re-run here",
			"a panic raised by a method of a host value (String/Error/HTML/JS/JSON/CSS/Markdown, or the Go wrapper of a value method called through a nil pointer) is host code: the statement does not promise to convert it; it is classed 'host-code panic propagated'",
			"results outside the documented list that are plain errors (an unshowable value: 'cannot show value of type …'; 'go of nil func value') are accepted and counted in their own outcome class: the statement's subject is host panics",
			"a case where Go faults but Scriggo returns nil is C01's business (behaves like gc) and is only counted",
			"goroutine faults: the run is followed by a 2 ms pause so that the goroutine's fault happens inside the case",
		},
		Spaces: spaces,
	})
}
