package main

import (
	"fmt"
	"reflect"
	"runtime"

	"github.com/open2b/scriggo"
	"github.com/open2b/scriggo/native"
)

type T struct{ N int }

func (t T) Hello() string { return "hello" }
func (t *T) Inc()         { t.N++ }

func Tag(s string) string { return "<" + s + ">" }
func Var(a ...int) int    { return len(a) }
func Call(f func())       { f() }
func Get() func() int     { return func() int { return 3 } }

func main() {
	src := `package main
import "host"
func main() {
	host.Tag("a")
	f := host.Tag
	f("b")
	var t host.T
	t.Hello()
	m := t.Hello
	m()
	g := host.T.Hello
	g(t)
	(&t).Inc()
	t.Inc()
	var i host.Helloer = t
	i.Hello()
	host.Var(1, 2, 3)
	s := []int{1}
	host.Var(s...)
	host.Call(func() { host.Tag("cb") })
	host.Call(t.Inc)
	h := host.Get()
	h()
	defer host.Tag("d")
	defer print("x")
	defer func() { recover() }()
	c := 1 + 2i
	c = c * c
	c = -c
	ch := make(chan int, 1)
	defer close(ch)
	mm := map[string]int{}
	defer delete(mm, "a")
	defer copy(s, s)
	host.FV("z")
	println(host.V)
	var e error = host.Err
	_ = e.Error()
	defer panic("p")
}
`
	fv := Tag
	v := 5
	var er error = fmt.Errorf("e")
	pk := native.Packages{"host": native.Package{Name: "host", Declarations: native.Declarations{
		"Tag": Tag, "Var": Var, "Call": Call, "Get": Get, "T": reflect.TypeOf(T{}), "Helloer": reflect.TypeOf((*interface{ Hello() string })(nil)).Elem(), "FV": &fv, "V": &v, "Err": &er,
	}}}
	p, err := scriggo.Build(scriggo.Files{"main.go": []byte(src)}, &scriggo.BuildOptions{Packages: pk, AllowGoStmt: true})
	if err != nil {
		panic(err)
	}
	scriggo.VerifSetHook(func(ev *scriggo.VerifEvent) {
		if ev.Kind != scriggo.VerifCallNative {
			return
		}
		pkg, name := scriggo.VerifNativeName(ev)
		f := scriggo.VerifNativeFunc(ev)
		rv := reflect.ValueOf(f)
		fmt.Printf("native pkg=%q name=%q type=%s pc=%s\n", pkg, name, rv.Type(), runtime.FuncForPC(rv.Pointer()).Name())
	})
	err = p.Run(&scriggo.RunOptions{Print: func(v any) { fmt.Printf("print(%v)\n", v) }})
	fmt.Println(err)
}
