package main

// Round 2 of C23:
//
//   - coherence inside every tree: a name is listed by its parent exactly when
//     it can be opened, fs.WalkDir visits every file and directory once, and
//     the FileInfo VALUES (name, size, mode, modification time, IsDir, Sys) of
//     fs.Stat, of the handle's Stat and of the DirEntry.Info() of the listing
//     are equal, Type() == Info().Mode().Type();
//   - handle state: every sequence of <= 4 operations on a file handle and on
//     a directory handle, against a small state model; a FileInfo obtained
//     earlier keeps its values whatever happens to the handle later;
//   - odd keys: maps with keys that are not valid fs paths (or that make a
//     name both a file and a directory) must stay self-consistent: whatever a
//     directory lists can be opened, whatever can be opened is listed.
//
// Only contradictions of the io/fs documentation are failures. Where the
// documentation is silent (Read on a directory, any operation after Close,
// a second Close) every documented-compatible behaviour is accepted: an error,
// or the behaviour of an open handle.

import (
	"errors"
	"fmt"
	"io"
	"io/fs"
	"path"
	"sort"
	"strings"
	"sync"
	"time"

	"verif/kit"

	"github.com/open2b/scriggo"
)

// ---- FileInfo values ----

type infoValues struct {
	Name    string
	Size    int64
	Mode    fs.FileMode
	ModTime time.Time
	IsDir   bool
	SysNil  bool
}

func valuesOf(i fs.FileInfo) infoValues {
	return infoValues{i.Name(), i.Size(), i.Mode(), i.ModTime(), i.IsDir(), i.Sys() == nil}
}

func (a infoValues) diff(b infoValues) []string {
	var d []string
	if a.Name != b.Name {
		d = append(d, "Name")
	}
	if a.Size != b.Size {
		d = append(d, "Size")
	}
	if a.Mode != b.Mode {
		d = append(d, "Mode")
	}
	if !a.ModTime.Equal(b.ModTime) {
		d = append(d, "ModTime")
	}
	if a.IsDir != b.IsDir {
		d = append(d, "IsDir")
	}
	if a.SysNil != b.SysNil {
		d = append(d, "Sys")
	}
	return d
}

// checkCoherence adds the round-2 checks of one (valid, non-conflicting) tree.
func checkCoherence(f *findings, fsys fs.FS, ref map[string]*refNode) {
	var all []string
	for p := range ref {
		all = append(all, p)
	}
	sort.Strings(all)
	// listings as the implementation gives them
	listing := map[string]map[string]fs.DirEntry{}
	for _, p := range all {
		if !ref[p].isDir {
			continue
		}
		es, err := fs.ReadDir(fsys, p)
		if err != nil {
			continue // reported by checkDirectory
		}
		m := map[string]fs.DirEntry{}
		for _, e := range es {
			m[e.Name()] = e
		}
		listing[p] = m
	}
	// listed <=> openable, for every name of the universe in every directory
	probe := append(append([]string{}, allNames...), "zz")
	for _, d := range all {
		if !ref[d].isDir || listing[d] == nil {
			continue
		}
		for _, base := range probe {
			p := join(d, base)
			_, listed := listing[d][base]
			file, err := fsys.Open(p)
			if err == nil {
				file.Close()
			}
			switch {
			case listed && err != nil:
				f.add("listing-vs-open|listed-but-cannot-be-opened", "ReadDir(%q) lists %q but Open(%q) = %v", d, base, p, err)
			case !listed && err == nil:
				f.add("listing-vs-open|can-be-opened-but-is-not-listed", "Open(%q) succeeds but ReadDir(%q) does not list %q", p, d, base)
			}
		}
	}
	// WalkDir visits every file and directory exactly once, with the right kind
	visited := map[string]int{}
	werr := fs.WalkDir(fsys, ".", func(p string, d fs.DirEntry, err error) error {
		if err != nil {
			return err
		}
		visited[p]++
		if n := ref[p]; n != nil && d.IsDir() != n.isDir {
			f.add("direntry|mode", "fs.WalkDir: %q visited with IsDir=%v", p, d.IsDir())
		}
		return nil
	})
	if werr != nil {
		f.add("walkdir|error", "fs.WalkDir(fsys, \".\") = %v", werr)
	}
	for _, p := range all {
		if visited[p] != 1 {
			f.add("walkdir|does-not-visit-every-file-and-directory-once", "fs.WalkDir visited %q %d times (files and directories of the tree: %v)", p, visited[p], all)
		}
	}
	for p := range visited {
		if ref[p] == nil {
			f.add("walkdir|does-not-visit-every-file-and-directory-once", "fs.WalkDir visited %q which does not exist", p)
		}
	}
	// values: fs.Stat == handle.Stat == DirEntry.Info of the parent's listing
	for _, p := range all {
		st, err := fs.Stat(fsys, p)
		if err != nil {
			f.add("stat|error", "fs.Stat(%q) = %v", p, err)
			continue
		}
		sv := valuesOf(st)
		n := ref[p]
		wantMode := fs.FileMode(0)
		if n.isDir {
			wantMode = fs.ModeDir
		}
		if sv.Name != n.name || sv.IsDir != n.isDir || sv.Mode.Type() != wantMode || sv.Mode.IsDir() != n.isDir || !n.isDir && sv.Size != int64(len(n.data)) {
			f.add("stat|wrong-values", "fs.Stat(%q) = %+v, want name %q, IsDir %v, type bits %v, size %d", p, sv, n.name, n.isDir, wantMode, len(n.data))
		}
		if file, err := fsys.Open(p); err == nil {
			if hs, err := file.Stat(); err == nil {
				if d := sv.diff(valuesOf(hs)); len(d) > 0 {
					f.add("fileinfo|fs.Stat-and-the-handle's-Stat-disagree", "%q: fs.Stat %+v, Open().Stat() %+v (fields %v)", p, sv, valuesOf(hs), d)
				}
			}
			file.Close()
		}
		if p == "." {
			continue
		}
		e := listing[path.Dir(p)][path.Base(p)]
		if e == nil {
			continue // reported above
		}
		info, err := e.Info()
		if err != nil {
			continue // reported by checkEntry
		}
		iv := valuesOf(info)
		if d := sv.diff(iv); len(d) > 0 {
			f.add("fileinfo|fs.Stat-and-DirEntry.Info-disagree", "%q: fs.Stat %+v, DirEntry.Info() %+v (fields %v)", p, sv, iv, d)
		}
		if e.Type() != iv.Mode.Type() || e.IsDir() != iv.Mode.IsDir() || e.Name() != iv.Name {
			f.add("direntry|Type-IsDir-Name-differ-from-its-own-Info", "%q: entry Name=%q Type=%v IsDir=%v, Info() %+v", p, e.Name(), e.Type(), e.IsDir(), iv)
		}
	}
}

// ---- handle state: files ----

var handleContents = [][]byte{nil, {}, []byte("x"), []byte("xyz")}
var handlePaths = []string{"a", "d/a.txt"}

const (
	opRead0 = iota
	opRead1
	opReadLenMinus1
	opReadLen
	opReadLenPlus1
	opStat
	opClose
	numFileOps
)

var fileOpNames = []string{"Read(0)", "Read(1)", "Read(len-1)", "Read(len)", "Read(len+1)", "Stat", "Close"}

func handleFileSpace() kit.Space {
	seqs := kit.NewStringsUpTo([]string{"0", "1", "2", "3", "4", "5", "6"}, 4)
	nc, np := uint64(len(handleContents)), uint64(len(handlePaths))
	decode := func(i uint64) (ops []int, content []byte, p string) {
		d := kit.Mixed(i, seqs.Size(), nc, np)
		return seqs.Atoms(d[0]), handleContents[d[1]], handlePaths[d[2]]
	}
	describe := func(ops []int, content []byte, p string) string {
		var s []string
		for _, o := range ops {
			s = append(s, fileOpNames[o])
		}
		c := fmt.Sprintf("[]byte(%q)", content)
		if content == nil {
			c = "nil"
		}
		return fmt.Sprintf("f := scriggo.Files{%q: %s}.Open(%q); f.%s (len = %d)", p, c, p, strings.Join(s, "; f."), len(content))
	}
	return kit.Space{
		Name: "handle.file",
		Size: seqs.Size() * nc * np,
		Eval: func(i uint64) kit.Outcome {
			ops, content, p := decode(i)
			fsys := scriggo.Files{p: content, "other": []byte("o")}
			fail := func(key, format string, args ...any) kit.Outcome {
				return kit.Outcome{Key: "handle.file|" + key, Class: "fail", Nontrivial: true,
					Detail: "input " + describe(ops, content, p) + "\n" + fmt.Sprintf(format, args...)}
			}
			// reference values: a fresh fs.Stat and the entry of the listing
			fresh, err := fs.Stat(fsys, p)
			if err != nil {
				return fail("fs.Stat-fails", "%v", err)
			}
			want := valuesOf(fresh)
			if want.Name != path.Base(p) || want.Size != int64(len(content)) || want.Mode.Type() != 0 || want.IsDir {
				return fail("fs.Stat-wrong-values", "%+v", want)
			}
			es, _ := fs.ReadDir(fsys, path.Dir(p))
			for _, e := range es {
				if e.Name() == path.Base(p) {
					if info, err := e.Info(); err != nil || len(want.diff(valuesOf(info))) > 0 {
						return fail("DirEntry.Info-differs-from-fs.Stat", "Info() = %+v, %v; fs.Stat = %+v", info, err, want)
					}
				}
			}
			file, err := fsys.Open(p)
			if err != nil {
				return fail("open-fails", "%v", err)
			}
			off, closed := 0, false
			var held []fs.FileInfo
			var heldAt []int
			trace := ""
			for k, op := range ops {
				switch op {
				case opStat:
					info, err := file.Stat()
					trace += fmt.Sprintf(" Stat()=%v;", err)
					if err != nil {
						if !closed {
							return fail("Stat-fails-on-an-open-handle", "after%s", trace)
						}
						continue
					}
					if d := want.diff(valuesOf(info)); len(d) > 0 {
						return fail("Stat-differs-from-a-fresh-fs.Stat|"+strings.Join(d, ","), "after%s\nhandle Stat %+v\nfs.Stat     %+v", trace, valuesOf(info), want)
					}
					held = append(held, info)
					heldAt = append(heldAt, k)
				case opClose:
					err := file.Close()
					trace += fmt.Sprintf(" Close()=%v;", err)
					if err != nil && !closed {
						return fail("first-Close-fails", "after%s", trace)
					}
					closed = true
				default:
					n := map[int]int{opRead0: 0, opRead1: 1, opReadLenMinus1: len(content) - 1, opReadLen: len(content), opReadLenPlus1: len(content) + 1}[op]
					if n < 0 {
						n = 0
					}
					buf := []byte(strings.Repeat("#", n+2))
					got, err := file.Read(buf[:n])
					trace += fmt.Sprintf(" Read(%d bytes)=%d,%v;", n, got, err)
					if closed && err != nil && got == 0 {
						continue // an error after Close is always acceptable
					}
					rem := len(content) - off
					switch {
					case got < 0 || got > n || string(buf[n:]) != "##":
						return fail("Read-count-out-of-range-or-writes-past-the-buffer", "after%s", trace)
					case n == 0:
						if got != 0 || !(err == nil || err == io.EOF && rem == 0) {
							return fail("Read-with-an-empty-buffer", "after%s\nwant 0, nil (or io.EOF at the end)", trace)
						}
					case rem == 0:
						if got != 0 || err != io.EOF {
							return fail("Read-at-the-end-is-not-(0,io.EOF)", "after%s", trace)
						}
					default:
						if got < 1 || got > rem || string(buf[:got]) != string(content[off:off+got]) || strings.Trim(string(buf[got:n]), "#") != "" {
							return fail("Read-returns-wrong-bytes", "after%s\nread %q, content %q at offset %d", trace, buf[:got], content, off)
						}
						if err != nil && !(err == io.EOF && off+got == len(content)) {
							return fail("Read-returns-data-with-an-unexpected-error", "after%s", trace)
						}
					}
					off += got
				}
			}
			for j, info := range held {
				if d := want.diff(valuesOf(info)); len(d) > 0 {
					return fail("FileInfo-obtained-earlier-changes-with-the-handle-state|"+strings.Join(d, ","), "the FileInfo returned by operation %d (Stat) now reports %+v, want %+v; operations:%s", heldAt[j]+1, valuesOf(info), want, trace)
				}
			}
			class := "open"
			if closed {
				class = "closed"
			}
			if off == len(content) && len(content) > 0 {
				class += ",read-to-end"
			}
			return kit.Outcome{OK: true, Class: "handle.file:" + class, Nontrivial: len(ops) >= 2, Ops: len(ops) + 1}
		},
		Describe: func(i uint64) any { ops, c, p := decode(i); return describe(ops, c, p) },
	}
}

// ---- handle state: directories ----

var dirOpNames = []string{"ReadDir(-1)", "ReadDir(0)", "ReadDir(1)", "ReadDir(2)", "Read(1 byte)", "Read(0 bytes)", "Stat", "Close"}
var dirOpN = []int{-1, 0, 1, 2}

func handleDirSpace() kit.Space {
	seqs := kit.NewStringsUpTo([]string{"0", "1", "2", "3", "4", "5", "6", "7"}, 4)
	mk := func() scriggo.Files {
		return scriggo.Files{"a": []byte("x"), "b": nil, "c/d": {}, "e/f": []byte("xy"), "e/g/h": nil}
	}
	type ent struct {
		name  string
		isDir bool
		size  int64
	}
	dirs := []string{".", "c", "e"}
	children := map[string][]ent{
		".": {{"a", false, 1}, {"b", false, 0}, {"c", true, 0}, {"e", true, 0}},
		"c": {{"d", false, 0}},
		"e": {{"f", false, 2}, {"g", true, 0}},
	}
	nd := uint64(len(dirs))
	decode := func(i uint64) ([]int, string) {
		d := kit.Mixed(i, seqs.Size(), nd)
		return seqs.Atoms(d[0]), dirs[d[1]]
	}
	describe := func(ops []int, dir string) string {
		var s []string
		for _, o := range ops {
			s = append(s, dirOpNames[o])
		}
		return fmt.Sprintf(`d := scriggo.Files{"a":"x","b":nil,"c/d":"","e/f":"xy","e/g/h":nil}.Open(%q); d.%s`, dir, strings.Join(s, "; d."))
	}
	return kit.Space{
		Name: "handle.dir",
		Size: seqs.Size() * nd,
		Eval: func(i uint64) kit.Outcome {
			ops, dir := decode(i)
			fsys := mk()
			all := children[dir]
			fail := func(key, format string, args ...any) kit.Outcome {
				return kit.Outcome{Key: "handle.dir|" + key, Class: "fail", Nontrivial: true,
					Detail: "input " + describe(ops, dir) + "\n" + fmt.Sprintf(format, args...)}
			}
			fresh, err := fs.Stat(fsys, dir)
			if err != nil {
				return fail("fs.Stat-fails", "%v", err)
			}
			want := valuesOf(fresh)
			if want.Name != path.Base(dir) || !want.IsDir || want.Mode.Type() != fs.ModeDir {
				return fail("fs.Stat-wrong-values", "%+v", want)
			}
			file, err := fsys.Open(dir)
			if err != nil {
				return fail("open-fails", "%v", err)
			}
			rd, isRD := file.(fs.ReadDirFile)
			if !isRD {
				return fail("directory-handle-is-not-a-ReadDirFile", "%T", file)
			}
			pos, closed := 0, false
			var held []fs.FileInfo
			trace := ""
			for _, op := range ops {
				switch {
				case op <= 3:
					n := dirOpN[op]
					es, err := rd.ReadDir(n)
					trace += fmt.Sprintf(" ReadDir(%d)=%v,%v;", n, names(es), err)
					if closed && err != nil && len(es) == 0 {
						continue
					}
					rem := len(all) - pos
					wantN := rem
					if n > 0 && n < rem {
						wantN = n
					}
					if n > 0 && rem == 0 {
						if len(es) != 0 || err != io.EOF {
							return fail("ReadDir(n>0)-at-the-end-is-not-(empty,io.EOF)", "after%s", trace)
						}
						continue
					}
					if len(es) != wantN || err != nil && !(err == io.EOF && n > 0 && pos+wantN == len(all) && wantN > 0) {
						return fail("ReadDir-wrong-page-after-earlier-operations", "after%s\nwant %d entries from position %d of %v", trace, wantN, pos, all)
					}
					for j, e := range es {
						w := all[pos+j]
						info, ierr := e.Info()
						wantType := fs.FileMode(0)
						if w.isDir {
							wantType = fs.ModeDir
						}
						if e.Name() != w.name || e.IsDir() != w.isDir || e.Type() != wantType || ierr != nil ||
							info.Name() != w.name || info.IsDir() != w.isDir || info.Mode().Type() != wantType || !w.isDir && info.Size() != w.size {
							return fail("ReadDir-wrong-entry-after-earlier-operations", "after%s\nentry %d: want %+v", trace, j, w)
						}
						if st, err := fs.Stat(fsys, join(dir, w.name)); err != nil || len(valuesOf(st).diff(valuesOf(info))) > 0 {
							return fail("entry-Info-differs-from-fs.Stat", "after%s\nentry %q Info %+v, fs.Stat %+v, %v", trace, w.name, valuesOf(info), st, err)
						}
					}
					pos += wantN
				case op == 4 || op == 5:
					n := 5 - op // 1 byte or 0 bytes
					buf := []byte("###")
					got, err := file.Read(buf[:n])
					trace += fmt.Sprintf(" Read(%d bytes)=%d,%v;", n, got, err)
					if got != 0 || string(buf) != "###" {
						return fail("Read-on-a-directory-returns-data", "after%s", trace)
					}
					if err == nil && n > 0 {
						return fail("Read-on-a-directory-returns-(0,nil)-for-a-non-empty-buffer", "after%s", trace)
					}
				case op == 6:
					info, err := file.Stat()
					trace += fmt.Sprintf(" Stat()=%v;", err)
					if err != nil {
						if !closed {
							return fail("Stat-fails-on-an-open-handle", "after%s", trace)
						}
						continue
					}
					if d := want.diff(valuesOf(info)); len(d) > 0 {
						return fail("Stat-differs-from-a-fresh-fs.Stat|"+strings.Join(d, ","), "after%s\nhandle Stat %+v\nfs.Stat     %+v", trace, valuesOf(info), want)
					}
					held = append(held, info)
				default:
					err := file.Close()
					trace += fmt.Sprintf(" Close()=%v;", err)
					if err != nil && !closed {
						return fail("first-Close-fails", "after%s", trace)
					}
					closed = true
				}
			}
			for _, info := range held {
				if d := want.diff(valuesOf(info)); len(d) > 0 {
					return fail("FileInfo-obtained-earlier-changes-with-the-handle-state|"+strings.Join(d, ","), "now %+v, want %+v; operations:%s", valuesOf(info), want, trace)
				}
			}
			class := "open"
			if closed {
				class = "closed"
			}
			if pos == len(all) {
				class += ",listed-to-end"
			}
			return kit.Outcome{OK: true, Class: "handle.dir:" + class, Nontrivial: len(ops) >= 2, Ops: len(ops) + 1}
		},
		Describe: func(i uint64) any { ops, d := decode(i); return describe(ops, d) },
	}
}

// ---- odd keys ----

var longName = strings.Repeat("x", 300)

var oddKeys = []string{
	".", "", "a/", "/a", "a//b", "a/./b", "a/../b", "./a", "a/.", "..", "../a", "//", "a/b/", `a\b`, "ü/ü", longName, longName + "/" + longName,
	"a", "a/b", "a/b/c", "b", "a.txt",
}

// oddKeySets enumerates every subset of 1..maxK keys.
func oddKeySets(maxK int) [][]int {
	var out [][]int
	var rec func(start int, cur []int)
	rec = func(start int, cur []int) {
		if len(cur) > 0 {
			out = append(out, append([]int{}, cur...))
		}
		if len(cur) == maxK {
			return
		}
		for j := start; j < len(oddKeys); j++ {
			rec(j+1, append(cur, j))
		}
	}
	rec(0, nil)
	sort.SliceStable(out, func(a, b int) bool { return len(out[a]) < len(out[b]) })
	return out
}

func short(s string) string {
	return strings.ReplaceAll(s, longName, "<300 x>")
}

func evalOddKeys(keys []string) result {
	fsys := scriggo.Files{}
	for j, k := range keys {
		fsys[k] = []byte(strings.Repeat("x", j+1))
	}
	f := &findings{}
	opens := func(p string) (fs.File, bool) {
		file, err := fsys.Open(p)
		return file, err == nil
	}
	// forward: whatever is listed has a proper name and can be opened as the listed kind
	listed := map[string]bool{".": true}
	queue := []string{"."}
	for steps := 0; len(queue) > 0 && steps < 64; steps++ {
		d := queue[0]
		queue = queue[1:]
		es, err := fs.ReadDir(fsys, d)
		if err != nil {
			f.add("oddkeys|directory-cannot-be-listed", "ReadDir(%q) = %v", short(d), err)
			continue
		}
		seen := map[string]bool{}
		for j, e := range es {
			name := e.Name()
			if j > 0 && es[j-1].Name() > name {
				f.add("oddkeys|listing-not-sorted", "ReadDir(%q) = %v", short(d), short(fmt.Sprint(names(es))))
			}
			if name == "" || name == "." || name == ".." || strings.Contains(name, "/") {
				f.add("oddkeys|entry-name-is-not-a-path-element", "ReadDir(%q) lists an entry named %q (a DirEntry name is the final element of the path)", short(d), short(name))
				continue
			}
			if seen[name] {
				f.add("oddkeys|same-name-listed-twice", "ReadDir(%q) = %v", short(d), short(fmt.Sprint(names(es))))
				continue
			}
			seen[name] = true
			p := join(d, name)
			listed[p] = true
			file, ok := opens(p)
			if !ok {
				f.add("oddkeys|listed-but-cannot-be-opened", "ReadDir(%q) lists %q but Open(%q) fails", short(d), short(name), short(p))
				continue
			}
			st, err := file.Stat()
			file.Close()
			if err != nil || st.IsDir() != e.IsDir() {
				f.add("oddkeys|listed-kind-differs-from-the-opened-kind", "ReadDir(%q) lists %q with IsDir=%v, Open(%q).Stat() IsDir=%v, %v", short(d), short(name), e.IsDir(), short(p), st != nil && st.IsDir(), err)
				continue
			}
			if e.IsDir() && strings.Count(p, "/") < 5 {
				queue = append(queue, p)
			}
		}
	}
	// backward: whatever can be opened is listed by its parent (which can be opened too)
	candidates := map[string]bool{}
	for _, k := range keys {
		parts := strings.Split(k, "/")
		for j := 1; j <= len(parts); j++ {
			candidates[strings.Join(parts[:j], "/")] = true
		}
	}
	for _, base := range []string{"a", "b", "c", "a.txt", "ü", longName} {
		for d := range listed {
			candidates[join(d, base)] = true
		}
	}
	var cs []string
	for c := range candidates {
		cs = append(cs, c)
	}
	sort.Strings(cs)
	for _, c := range cs {
		file, ok := opens(c)
		if !ok {
			continue
		}
		file.Close()
		if !fs.ValidPath(c) {
			f.add("oddkeys|invalid-path-can-be-opened", "Open(%q) succeeds although fs.ValidPath is false", short(c))
			continue
		}
		if c != "." && !listed[c] {
			f.add("oddkeys|can-be-opened-but-is-not-listed", "Open(%q) succeeds but it is not reachable through the listings from the root (ReadDir(%q))", short(c), short(path.Dir(c)))
		}
	}
	// every key that is a valid path holds its content
	for j, k := range keys {
		if !fs.ValidPath(k) || k == "." {
			continue
		}
		data, err := fs.ReadFile(fsys, k)
		if err != nil || len(data) != j+1 {
			f.add("oddkeys|valid-key-cannot-be-read", "fs.ReadFile(%q) = %q, %v", short(k), data, err)
		}
	}
	return result{classes: f.sorted(), details: f.classes, dirs: len(listed), ops: len(candidates) + 1}
}

// slotted builds a space where every case owns reportSlots indices.
func slotted(name string, cases uint64, eval func(t uint64) result, input func(t uint64) string, describe func(t uint64) any) kit.Space {
	var cache sync.Map
	get := func(t uint64) result {
		if v, ok := cache.Load(t); ok {
			return v.(result)
		}
		r := eval(t)
		cache.Store(t, r)
		return r
	}
	return kit.Space{
		Name: name,
		Size: cases * reportSlots,
		Eval: func(i uint64) kit.Outcome {
			t, slot := i/reportSlots, int(i%reportSlots)
			r := get(t)
			if slot == reportSlots-1 {
				defer cache.Delete(t)
			}
			o := kit.Outcome{OK: true, Class: "report-slot"}
			if slot == 0 {
				o = kit.Outcome{OK: true, Nontrivial: true, Ops: r.ops, Class: fmt.Sprintf("%s defects=%d", name, len(r.classes))}
			}
			if slot < len(r.classes) {
				c := r.classes[slot]
				if slot == reportSlots-1 && len(r.classes) > reportSlots {
					c = "more-than-" + fmt.Sprint(reportSlots) + "-defect-classes-in-one-case"
				}
				o.OK = false
				o.Key = c
				o.Detail = "input " + input(t) + "\n" + r.details[r.classes[slot]] + "\nall defect classes of this case: " + strings.Join(r.classes, " ; ")
			}
			return o
		},
		Describe: func(i uint64) any { return map[string]any{"case": describe(i / reportSlots), "report_slot": i % reportSlots} },
	}
}

func oddKeysSpace(maxK int) kit.Space {
	sets := oddKeySets(maxK)
	keysOf := func(t uint64) []string {
		var ks []string
		for _, j := range sets[t] {
			ks = append(ks, oddKeys[j])
		}
		return ks
	}
	input := func(t uint64) string {
		var s []string
		for j, k := range keysOf(t) {
			s = append(s, fmt.Sprintf("%s: %q", short(fmt.Sprintf("%q", k)), strings.Repeat("x", j+1)))
		}
		return "scriggo.Files{" + strings.Join(s, ", ") + "}"
	}
	sp := slotted("oddkeys", uint64(len(sets)), func(t uint64) result { return evalOddKeys(keysOf(t)) }, input, func(t uint64) any { return input(t) })
	// The property is stated for maps of VALID, NON-CONFLICTING names only:
	// what Files does with other keys is observed and classed, never reported
	// (demanding consistency there would demand more than the property states).
	eval := sp.Eval
	sp.Eval = func(i uint64) kit.Outcome {
		o := eval(i)
		if !o.OK {
			o = kit.Outcome{OK: true, Nontrivial: o.Nontrivial, Ops: o.Ops, Class: "outside-the-premise(" + o.Key + ")"}
		}
		return o
	}
	return sp
}

var _ = errors.Is
