// C23 — the in-memory scriggo.Files type is a well-behaved io/fs file system.
//
// Every set of non-conflicting slash-separated paths inside the tier's bound
// is turned into a Files value and checked with
//
//   - testing/fstest.TestFS(fsys, every file and implied directory...), and
//   - an explicit oracle against a sorted reference listing: ReadDir(n)
//     paging on every directory for every n in 1..entries+1, behaviour after
//     EOF, ReadDir(-1)/ReadDir(0) on a fresh directory, after EOF and after a
//     partial read, entry names / IsDir / Type / Info (mode, size, name),
//     Stat and content of every file, Open of missing and invalid names.
//
// One tree can show several independent defects. So that none hides another,
// each tree owns reportSlots consecutive indices: slot j reports the j-th
// (sorted) defect class of the tree. The tree is evaluated once and cached
// for its slots.
package main

import (
	"errors"
	"fmt"
	"io"
	"io/fs"
	"regexp"
	"sort"
	"strings"
	"sync"
	"testing/fstest"

	"verif/kit"

	"github.com/open2b/scriggo"
)

const reportSlots = 8 // divides kit's chunk size (512), so all slots of a tree are evaluated by one goroutine in sequence

var contents = [][]byte{nil, {}, []byte("x")}
var contentNames = []string{"nil", `""`, `"x"`}

// universe returns all paths of 1..depth components over names, in a fixed order.
func universe(names []string, depth int) []string {
	var out []string
	level := []string{""}
	for d := 0; d < depth; d++ {
		var next []string
		for _, p := range level {
			for _, n := range names {
				q := n
				if p != "" {
					q = p + "/" + n
				}
				next = append(next, q)
			}
		}
		out = append(out, next...)
		level = next
	}
	return out
}

// ---- combinations ----

var binom [200][8]uint64

func init() {
	for n := 0; n < 200; n++ {
		binom[n][0] = 1
		for k := 1; k < 8; k++ {
			if n == 0 {
				binom[n][k] = 0
			} else {
				binom[n][k] = binom[n-1][k-1] + binom[n-1][k]
			}
		}
	}
}

// unrank returns the r-th k-combination of {0..n-1} in colexicographic order, ascending elements.
func unrank(n, k int, r uint64) []int {
	out := make([]int, k)
	for j := k; j >= 1; j-- {
		c := j - 1
		for c+1 < n && binom[c+1][j] <= r {
			c++
		}
		out[j-1] = c
		r -= binom[c][j]
	}
	return out
}

// ---- tree spaces ----

type block struct {
	k        int    // number of paths
	sets     uint64 // C(n,k)
	combos   uint64 // content assignments per set
	rotation bool   // combos are 3 rotations of (nil,"","x") instead of the full 3^k product
	start    uint64 // first tree index of the block
}

type treeSpace struct {
	name   string
	univ   []string
	blocks []block
	trees  uint64
}

func newTreeSpace(name string, univ []string, minK, maxK, fullContentsUpTo, oneRotationFrom int) *treeSpace {
	ts := &treeSpace{name: name, univ: univ}
	for k := minK; k <= maxK; k++ {
		b := block{k: k, sets: binom[len(univ)][k], start: ts.trees}
		if k <= fullContentsUpTo {
			b.combos = 1
			for j := 0; j < k; j++ {
				b.combos *= 3
			}
		} else {
			b.combos, b.rotation = 3, true
			if k >= oneRotationFrom {
				b.combos = 1
			}
		}
		ts.blocks = append(ts.blocks, b)
		ts.trees += b.sets * b.combos
	}
	return ts
}

type tree struct {
	paths    []string // sorted
	content  []int    // index into contents, per path
	conflict bool
}

func (ts *treeSpace) tree(t uint64) tree {
	var b block
	for _, bb := range ts.blocks {
		if t >= bb.start {
			b = bb
		}
	}
	t -= b.start
	ci := t % b.combos
	set := unrank(len(ts.univ), b.k, t/b.combos)
	tr := tree{}
	for _, e := range set {
		tr.paths = append(tr.paths, ts.univ[e])
	}
	sort.Strings(tr.paths)
	for j := range tr.paths {
		if b.rotation {
			tr.content = append(tr.content, (j+int(ci))%3)
		} else {
			tr.content = append(tr.content, int(ci%3))
			ci /= 3
		}
	}
	for _, p := range tr.paths {
		for _, q := range tr.paths {
			if strings.HasPrefix(q, p+"/") {
				tr.conflict = true
			}
		}
	}
	return tr
}

func (tr tree) files() scriggo.Files {
	f := scriggo.Files{}
	for j, p := range tr.paths {
		f[p] = contents[tr.content[j]]
	}
	return f
}

func (tr tree) String() string {
	var s []string
	for j, p := range tr.paths {
		s = append(s, fmt.Sprintf("%q: %s", p, contentNames[tr.content[j]]))
	}
	return "scriggo.Files{" + strings.Join(s, ", ") + "}"
}

// ---- reference model ----

type refNode struct {
	name     string // base name
	isDir    bool
	data     []byte
	children []string // base names, sorted (directories only)
}

func reference(tr tree) map[string]*refNode {
	m := map[string]*refNode{".": {name: ".", isDir: true}}
	add := func(parent, base string) {
		p := m[parent]
		for _, c := range p.children {
			if c == base {
				return
			}
		}
		p.children = append(p.children, base)
	}
	for j, p := range tr.paths {
		parts := strings.Split(p, "/")
		parent := "."
		for i, part := range parts {
			full := strings.Join(parts[:i+1], "/")
			if i < len(parts)-1 {
				if m[full] == nil {
					m[full] = &refNode{name: part, isDir: true}
				}
			} else {
				m[full] = &refNode{name: part, data: contents[tr.content[j]]}
			}
			add(parent, part)
			parent = full
		}
	}
	for _, n := range m {
		sort.Strings(n.children)
	}
	return m
}

func join(dir, base string) string {
	if dir == "." {
		return base
	}
	return dir + "/" + base
}

// ---- findings of one tree ----

type findings struct {
	classes map[string]string // class -> first detail
}

func (f *findings) add(class, format string, args ...any) {
	if f.classes == nil {
		f.classes = map[string]string{}
	}
	d := fmt.Sprintf(format, args...)
	old, ok := f.classes[class]
	switch {
	case !ok:
		f.classes[class] = d
	case strings.HasPrefix(old, "fstest:") && !strings.Contains(old, "\nexplicit: ") && !strings.HasPrefix(d, "fstest:"):
		// keep the first fstest message and the first explicit trace of a class
		f.classes[class] = old + "\nexplicit: " + d
	}
}

func (f *findings) sorted() []string {
	var ks []string
	for k := range f.classes {
		ks = append(ks, k)
	}
	sort.Strings(ks)
	return ks
}

// ---- explicit oracle ----

func checkEntry(f *findings, dir string, e fs.DirEntry, ref map[string]*refNode, base string) {
	child := ref[join(dir, base)]
	where := fmt.Sprintf("entry %q of directory %q", base, dir)
	if e.Name() != base {
		f.add("direntry|name", "%s: Name() = %q", where, e.Name())
	}
	wantType := fs.FileMode(0)
	if child.isDir {
		wantType = fs.ModeDir
	}
	if e.IsDir() != child.isDir || e.Type() != wantType {
		f.add("direntry|mode", "%s: IsDir() = %v Type() = %v, want IsDir=%v Type=%v", where, e.IsDir(), e.Type(), child.isDir, wantType)
	}
	info, err := e.Info()
	if err != nil || info == nil {
		f.add("direntry-info|error", "%s: Info() = %v, %v", where, info, err)
		return
	}
	if info.Name() != base {
		f.add("direntry|name", "%s: Info().Name() = %q", where, info.Name())
	}
	if info.IsDir() != child.isDir || info.Mode().IsDir() != child.isDir || info.Mode().IsRegular() == child.isDir || info.Mode().Type() != wantType {
		f.add("direntry|mode", "%s: Info().IsDir() = %v Info().Mode() = %v, want IsDir=%v and a %s mode", where, info.IsDir(), info.Mode(), child.isDir, map[bool]string{true: "directory", false: "regular"}[child.isDir])
	}
	if !child.isDir && info.Size() != int64(len(child.data)) {
		f.add("direntry|size", "%s: Info().Size() = %d, want %d (file content %q)", where, info.Size(), len(child.data), child.data)
	}
}

func openDir(f *findings, fsys fs.FS, dir string) fs.ReadDirFile {
	file, err := fsys.Open(dir)
	if err != nil {
		f.add("open-directory|error", "Open(%q) = %v", dir, err)
		return nil
	}
	rd, ok := file.(fs.ReadDirFile)
	if !ok {
		f.add("open-directory|not-a-ReadDirFile", "Open(%q) returned %T", dir, file)
		return nil
	}
	return rd
}

func names(es []fs.DirEntry) []string {
	out := []string{}
	for _, e := range es {
		out = append(out, e.Name())
	}
	return out
}

func checkBatch(f *findings, dir, call string, got []fs.DirEntry, want []string, ref map[string]*refNode) bool {
	g := names(got)
	if strings.Join(g, "\x00") != strings.Join(want, "\x00") || len(g) != len(want) {
		return false
	}
	for i, e := range got {
		checkEntry(f, dir, e, ref, want[i])
	}
	return true
}

func checkDirectory(f *findings, fsys fs.FS, dir string, ref map[string]*refNode) {
	node := ref[dir]
	all := node.children
	// Stat of the directory
	if rd := openDir(f, fsys, dir); rd != nil {
		st, err := rd.Stat()
		if err != nil {
			f.add("directory-stat|error", "Open(%q).Stat() = %v", dir, err)
		} else {
			if !st.IsDir() || !st.Mode().IsDir() {
				f.add("directory-stat|IsDir,Mode", "Open(%q).Stat(): IsDir=%v Mode=%v", dir, st.IsDir(), st.Mode())
			}
			wantName := node.name
			if st.Name() != wantName {
				f.add("directory-stat|Name", "Open(%q).Stat().Name() = %q, want %q", dir, st.Name(), wantName)
			}
		}
		rd.Close()
	}
	// the complete listing first: when it is not the sorted list of children,
	// that is the defect, and paging over it is not examined
	if rd := openDir(f, fsys, dir); rd != nil {
		batch, err := rd.ReadDir(-1)
		rd.Close()
		if g := names(batch); err != nil || strings.Join(g, "\x00") != strings.Join(all, "\x00") || len(g) != len(all) {
			class := "listing|not-the-children-of-the-directory"
			sg := append([]string{}, g...)
			sort.Strings(sg)
			switch {
			case err != nil:
				class = "listing|error"
			case strings.Join(sg, "\x00") == strings.Join(all, "\x00") && len(sg) == len(all):
				class = "listing|not-sorted-by-name"
			case len(g) > len(all):
				class = "listing|duplicate-or-foreign-entries"
			}
			f.add(class, "Open(%q); ReadDir(-1) = %v, %v — want %v, nil", dir, g, err, all)
			return
		}
	}
	// paging with every n
	for n := 1; n <= len(all)+1; n++ {
		rd := openDir(f, fsys, dir)
		if rd == nil {
			return
		}
		pos := 0
		broken := false
		trace := fmt.Sprintf("Open(%q)", dir)
		for step := 0; step <= len(all)+1; step++ {
			batch, err := rd.ReadDir(n)
			trace += fmt.Sprintf("; ReadDir(%d) = %v, %v", n, names(batch), err)
			if pos == len(all) {
				if len(batch) != 0 || err != io.EOF {
					f.add("ReadDir(n>0)|at-end-not-(empty,io.EOF)", "%s — want no entries and io.EOF at the end of %v", trace, all)
					broken = true
				}
				break
			}
			hi := pos + n
			if hi > len(all) {
				hi = len(all)
			}
			if !checkBatch(f, dir, trace, batch, all[pos:hi], ref) {
				f.add("ReadDir(n>0)|wrong-page", "%s — want page %v of %v", trace, all[pos:hi], all)
				broken = true
				break
			}
			if err != nil && !(err == io.EOF && hi == len(all)) {
				f.add("ReadDir(n>0)|error-with-entries", "%s — unexpected error", trace)
				broken = true
				break
			}
			pos = hi
		}
		if broken { // the state of the directory is unknown after a wrong page: nothing more is examined for this n
			rd.Close()
			continue
		}
		// after EOF
		batch, err := rd.ReadDir(n)
		if len(batch) != 0 || err != io.EOF {
			f.add("ReadDir(n>0)|after-EOF-not-(empty,io.EOF)", "%s; ReadDir(%d) again = %v, %v", trace, n, names(batch), err)
		}
		for _, m := range []int{-1, 0} {
			batch, err = rd.ReadDir(m)
			if len(batch) != 0 || err != nil {
				f.add("ReadDir(n<=0)|does-not-honour-or-advance-the-read-offset", "%s (directory exhausted); ReadDir(%d) = %v, %v — want no entries and nil error", trace, m, names(batch), err)
			}
		}
		rd.Close()
	}
	// ReadDir(n<=0) on a fresh directory, then again, then a positive n
	for _, m := range []int{-1, 0} {
		rd := openDir(f, fsys, dir)
		if rd == nil {
			return
		}
		batch, err := rd.ReadDir(m)
		trace := fmt.Sprintf("Open(%q); ReadDir(%d) = %v, %v", dir, m, names(batch), err)
		if err != nil || !checkBatch(f, dir, trace, batch, all, ref) {
			f.add("ReadDir(n<=0)|fresh-not-all-entries", "%s — want %v, nil", trace, all)
		}
		batch, err = rd.ReadDir(m)
		if len(batch) != 0 || err != nil {
			f.add("ReadDir(n<=0)|does-not-honour-or-advance-the-read-offset", "%s; ReadDir(%d) again = %v, %v — want no entries and nil error", trace, m, names(batch), err)
		}
		batch, err = rd.ReadDir(1)
		if len(batch) != 0 || err != io.EOF {
			f.add("ReadDir(n<=0)|does-not-honour-or-advance-the-read-offset", "%s; ReadDir(1) = %v, %v — want no entries and io.EOF", trace, names(batch), err)
		}
		rd.Close()
	}
	// mixed: ReadDir(m) then ReadDir(-1) returns the remainder
	for m := 1; m <= len(all); m++ {
		rd := openDir(f, fsys, dir)
		if rd == nil {
			return
		}
		first, err1 := rd.ReadDir(m)
		rest, err2 := rd.ReadDir(-1)
		trace := fmt.Sprintf("Open(%q); ReadDir(%d) = %v, %v; ReadDir(-1) = %v, %v", dir, m, names(first), err1, names(rest), err2)
		if strings.Join(names(first), "\x00") != strings.Join(all[:m], "\x00") {
			rd.Close()
			continue // a wrong first page is reported by the paging loop above
		}
		if err2 != nil || !checkBatch(f, dir, trace, rest, all[m:], ref) {
			f.add("ReadDir(n<=0)|does-not-honour-or-advance-the-read-offset", "%s — want the remaining entries %v and nil error", trace, all[m:])
		}
		rd.Close()
	}
	// fs.ReadDir helper
	es, err := fs.ReadDir(fsys, dir)
	if err != nil || !checkBatch(f, dir, "fs.ReadDir", es, all, ref) {
		f.add("fs.ReadDir|wrong-listing", "fs.ReadDir(%q) = %v, %v — want %v", dir, names(es), err, all)
	}
}

func checkFile(f *findings, fsys fs.FS, p string, node *refNode) {
	file, err := fsys.Open(p)
	if err != nil {
		f.add("open-file|error", "Open(%q) = %v", p, err)
		return
	}
	st, err := file.Stat()
	if err != nil {
		f.add("file-stat|error", "Open(%q).Stat() = %v", p, err)
	} else {
		if st.Name() != node.name {
			f.add("file-stat|Name", "Open(%q).Stat().Name() = %q", p, st.Name())
		}
		if st.IsDir() || !st.Mode().IsRegular() {
			f.add("file-stat|IsDir,Mode", "Open(%q).Stat(): IsDir=%v Mode=%v", p, st.IsDir(), st.Mode())
		}
		if st.Size() != int64(len(node.data)) {
			f.add("file-stat|Size", "Open(%q).Stat().Size() = %d, want %d", p, st.Size(), len(node.data))
		}
	}
	data, err := io.ReadAll(file)
	if err != nil || string(data) != string(node.data) {
		f.add("file-read|content", "ReadAll(Open(%q)) = %q, %v — want %q", p, data, err, node.data)
	}
	n, err := file.Read(make([]byte, 4))
	if n != 0 || err != io.EOF {
		f.add("file-read|after-EOF", "Read after EOF of %q = %d, %v", p, n, err)
	}
	if err := file.Close(); err != nil {
		f.add("file-close|error", "Close(%q) = %v", p, err)
	}
	data, err = fs.ReadFile(fsys, p)
	if err != nil || string(data) != string(node.data) {
		f.add("file-read|content", "fs.ReadFile(%q) = %q, %v — want %q", p, data, err, node.data)
	}
	// a file is not a directory
	if _, err := fsys.Open(p + "/a"); err == nil || !errors.Is(err, fs.ErrNotExist) {
		f.add("open-missing|no-ErrNotExist", "Open(%q) below a file = %v", p+"/a", err)
	}
}

var invalidNames = []string{"", "/", "/a", "a/", "a//b", "./a", "../a", "a/../b", "a/."}
var probeNames = []string{"zz", "a/zz", "a/b/zz", "ü/zz", ".h/zz", "a.tx", "a.txt/zz"}

func checkOpenErrors(f *findings, fsys fs.FS, ref map[string]*refNode) {
	for _, p := range invalidNames {
		file, err := fsys.Open(p)
		if err == nil {
			file.Close()
			f.add("open-invalid|accepted", "Open(%q) succeeded although fs.ValidPath is false", p)
			continue
		}
		var pe *fs.PathError
		if !errors.As(err, &pe) || !(errors.Is(err, fs.ErrInvalid) || errors.Is(err, fs.ErrNotExist)) {
			f.add("open-invalid|error-not-PathError(ErrInvalid|ErrNotExist)", "Open(%q) = %T %v", p, err, err)
		}
	}
	for _, p := range probeNames {
		if ref[p] != nil {
			continue
		}
		file, err := fsys.Open(p)
		if err == nil {
			file.Close()
			f.add("open-missing|succeeded", "Open(%q) succeeded but no such file or directory exists", p)
			continue
		}
		var pe *fs.PathError
		if !errors.As(err, &pe) || !errors.Is(err, fs.ErrNotExist) {
			f.add("open-missing|no-ErrNotExist", "Open(%q) = %T %v", p, err, err)
		}
	}
}

// ---- fstest message classes ----

var nameRE = `(?:a\.txt|a|b|ü|\.h)`
var pathTok = regexp.MustCompile(`^(?:` + nameRE + `(?:/` + nameRE + `)*|\.)$`)
var pathPrefix = regexp.MustCompile(`^(?:` + nameRE + `(?:/` + nameRE + `)*|\.): `)
var digits = regexp.MustCompile(`[0-9]+`)
var mismatchLine = regexp.MustCompile(`^\t(entry(?:\.Info\(\))?|file\.Stat\(\)|[A-Za-z.()]+) = (.*)$`)

// generic normalises one fstest message: the path prefix and every token that
// is a path of the universe become P, digit runs become N.
func generic(msg string) string {
	msg = pathPrefix.ReplaceAllString(msg, "P: ")
	toks := strings.FieldsFunc(msg, func(r rune) bool { return r == ' ' })
	for i, t := range toks {
		core := strings.Trim(t, `"'(),:;`)
		if core != "" && pathTok.MatchString(core) {
			toks[i] = strings.Replace(t, core, "P", 1)
		}
	}
	s := digits.ReplaceAllString(strings.Join(toks, " "), "N")
	if len(s) > 140 {
		s = s[:140]
	}
	return s
}

// fields parses "a IsDir=false Mode=---------- Size=0 ModTime=..." into key → value.
func fields(s string) map[string]string {
	m := map[string]string{}
	parts := strings.Split(s, " ")
	if len(parts) > 0 {
		m["Name"] = parts[0]
	}
	for _, p := range parts[1:] {
		if i := strings.IndexByte(p, '='); i > 0 {
			if _, dup := m[p[:i]]; !dup {
				m[p[:i]] = p[i+1:]
			}
		}
	}
	return m
}

// fstestClasses turns the error of fstest.TestFS into defect classes.
func fstestClasses(f *findings, err error) {
	if err == nil {
		return
	}
	lines := strings.Split(err.Error(), "\n")
	var notFound []string
	dirMismatch := false
	for i := 0; i < len(lines); i++ {
		ln := lines[i]
		if ln == "" || strings.HasPrefix(ln, "TestFS found errors") || strings.HasPrefix(ln, "\t") || strings.HasPrefix(ln, " ") {
			continue // continuation lines of a multi-line message are handled with its first line
		}
		switch {
		case strings.HasSuffix(ln, ": mismatch:") && i+2 < len(lines):
			a := mismatchLine.FindStringSubmatch(lines[i+1])
			b := mismatchLine.FindStringSubmatch(lines[i+2])
			if a == nil || b == nil {
				f.add("fstest|"+generic(ln), "%s", ln)
				continue
			}
			fa, fb := fields(a[2]), fields(b[2])
			var diff []string
			for k := range fa {
				if fa[k] != fb[k] && k != "ModTime" {
					diff = append(diff, k)
				}
			}
			sort.Strings(diff)
			// same classes as the explicit oracle: mode (IsDir/Type/Mode), size, name
			for _, d := range diff {
				switch d {
				case "Size":
					f.add("direntry|size", "fstest: %s\n%s\n%s", ln, lines[i+1], lines[i+2])
				case "Name":
					f.add("direntry|name", "fstest: %s\n%s\n%s", ln, lines[i+1], lines[i+2])
				case "IsDir", "Type", "Mode":
					if d == "IsDir" {
						dirMismatch = true
					}
					f.add("direntry|mode", "fstest: %s\n%s\n%s", ln, lines[i+1], lines[i+2])
				default:
					f.add("direntry|"+d, "fstest: %s\n%s\n%s", ln, lines[i+1], lines[i+2])
				}
			}
			i += 2
		case strings.Contains(ln, "ReadDir(-1) at EOF = ") && strings.Contains(ln, "wanted 0 entries, nil"):
			f.add("ReadDir(n<=0)|does-not-honour-or-advance-the-read-offset", "fstest: %s", ln)
		case strings.HasPrefix(ln, "expected but not found: "):
			notFound = append(notFound, ln)
		default:
			f.add("fstest|"+generic(ln), "fstest: %s", ln)
		}
	}
	// fstest cannot descend into a directory whose entry says it is not one:
	// then "expected but not found" is a symptom of that defect, not a new one.
	if len(notFound) > 0 && !dirMismatch {
		f.add("fstest|expected but not found: P", "fstest: %s", notFound[0])
	}
}

// ---- evaluation ----

type result struct {
	conflict bool
	classes  []string
	details  map[string]string
	dirs     int
	ops      int
}

func evalTree(tr tree) result {
	if tr.conflict {
		return result{conflict: true}
	}
	fsys := tr.files()
	ref := reference(tr)
	var expected []string
	var dirs []string
	for p, n := range ref {
		if p != "." {
			expected = append(expected, p)
		}
		if n.isDir {
			dirs = append(dirs, p)
		}
	}
	sort.Strings(expected)
	sort.Strings(dirs)
	f := &findings{}
	fstestClasses(f, fstest.TestFS(fsys, expected...))
	for _, d := range dirs {
		checkDirectory(f, fsys, d, ref)
	}
	for _, p := range expected {
		if !ref[p].isDir {
			checkFile(f, fsys, p, ref[p])
		}
	}
	checkOpenErrors(f, fsys, ref)
	checkCoherence(f, fsys, ref)
	return result{classes: f.sorted(), details: f.classes, dirs: len(dirs), ops: len(expected) + 1}
}

func (ts *treeSpace) space() kit.Space {
	var cache sync.Map
	get := func(t uint64) result {
		if v, ok := cache.Load(t); ok {
			return v.(result)
		}
		r := evalTree(ts.tree(t))
		cache.Store(t, r)
		return r
	}
	return kit.Space{
		Name: ts.name,
		Size: ts.trees * reportSlots,
		Eval: func(i uint64) kit.Outcome {
			t, slot := i/reportSlots, int(i%reportSlots)
			r := get(t)
			if slot == reportSlots-1 {
				defer cache.Delete(t)
			}
			if r.conflict {
				if slot == 0 {
					return kit.Outcome{OK: true, Class: "conflicting-set(skipped)"}
				}
				return kit.Outcome{OK: true, Class: "report-slot"}
			}
			var o kit.Outcome
			if slot == 0 {
				o = kit.Outcome{OK: true, Nontrivial: true, Ops: r.ops, Class: fmt.Sprintf("tree dirs=%d defects=%d", r.dirs, len(r.classes))}
				if len(r.classes) == 0 {
					o.Class = fmt.Sprintf("tree dirs=%d clean", r.dirs)
				}
			} else {
				o = kit.Outcome{OK: true, Class: "report-slot"}
			}
			if slot < len(r.classes) {
				c := r.classes[slot]
				if slot == reportSlots-1 && len(r.classes) > reportSlots {
					c = "more-than-" + fmt.Sprint(reportSlots) + "-defect-classes-in-one-tree"
				}
				tr := ts.tree(t)
				o.OK = false
				o.Key = c
				o.Detail = "input " + tr.String() + "\n" + r.details[r.classes[slot]] + "\nall defect classes of this tree: " + strings.Join(r.classes, " ; ")
			}
			return o
		},
		Describe: func(i uint64) any {
			tr := ts.tree(i / reportSlots)
			m := map[string]any{}
			for j, p := range tr.paths {
				m[p] = contentNames[tr.content[j]]
			}
			return map[string]any{"files": m, "report_slot": i % reportSlots, "conflicting": tr.conflict}
		},
	}
}

var allNames = []string{"a", "b", "a.txt", "ü", ".h"}
var fewNames = []string{"a", "a.txt", "ü"}

func spaces(tier string) []kit.Space {
	deep := universe(allNames, 3)   // 155 paths
	wide := universe(allNames, 2)   // 30 paths
	narrow := universe(fewNames, 3) // 39 paths
	var ts []*treeSpace
	if tier == "thorough" {
		ts = []*treeSpace{
			newTreeSpace("deep(5 names,depth<=3,<=3 paths)", deep, 0, 3, 2, 3),
			newTreeSpace("wide(5 names,depth<=2,3..5 paths)", wide, 3, 5, 0, 9),
			newTreeSpace("narrow(3 names,depth<=3,3..4 paths)", narrow, 3, 4, 0, 9),
		}
	} else {
		ts = []*treeSpace{
			newTreeSpace("deep(5 names,depth<=3,<=2 paths)", deep, 0, 2, 2, 9),
			newTreeSpace("wide(5 names,depth<=2,3..4 paths)", wide, 3, 4, 0, 4),
			newTreeSpace("narrow(3 names,depth<=3,3 paths)", narrow, 3, 3, 0, 9),
		}
	}
	var out []kit.Space
	for _, t := range ts {
		out = append(out, t.space())
	}
	oddK := 2
	if tier == "thorough" {
		oddK = 3
	}
	out = append(out, handleFileSpace(), handleDirSpace(), oddKeysSpace(oddK))
	return out
}

func main() {
	kit.Main(&kit.Check{
		ID:    "C23",
		Level: "model_checking",
		Rule: "every set of k slash-separated paths from a universe: deep = names {a,b,a.txt,ü,.h} at depth<=3 (155 paths) with k<=2 (thorough k<=3); wide = same names at depth<=2 (30 paths) with k=3..4 (thorough 3..5); narrow = names {a,a.txt,ü} at depth<=3 (39 paths) with k=3 (thorough 3..4). " +
			"Contents: for k<=2 every assignment of {nil,\"\",\"x\"}; for k>=3 the three rotations of (nil,\"\",\"x\") over the sorted paths (one rotation only for quick wide k=4 and thorough deep k=3). Sets where one path is a directory prefix of another are enumerated but skipped (class conflicting-set). " +
			"Each tree owns 8 consecutive indices (report slots, slot j reports the j-th defect class of the tree); only slot 0 counts as an evaluation of the tree: non-trivial = slot 0 of a non-conflicting tree; distinct indices at slot 0 are distinct (set, contents) pairs. " +
			"Round 2: inside every tree a name is listed by its parent exactly when it opens, fs.WalkDir visits everything once, and the FileInfo values of fs.Stat, of the handle and of DirEntry.Info are equal. " +
			"handle.file: every sequence of <=4 operations over {Read(0), Read(1), Read(len-1), Read(len), Read(len+1), Stat, Close} × contents {nil, \"\", \"x\", \"xyz\"} × 2 paths; handle.dir: every sequence of <=4 operations over {ReadDir(-1), ReadDir(0), ReadDir(1), ReadDir(2), Read(1 byte), Read(0 bytes), Stat, Close} × 3 directories (1, 2 and 4 entries); non-trivial = at least 2 operations. " +
			"oddkeys: every set of 1..2 (thorough 1..3) keys out of 22 (invalid paths: . \"\" a/ /a a//b a/./b a/../b ./a a/. .. ../a // a/b/ a\\b, long and unicode names, and a, a/b, a/b/c, b, a.txt so that a name is file and directory), 8 report slots per set",
		Assumptions: []string{
			"sets of 4 and 5 paths are explored on the two reduced universes only (30 and 39 paths); the full 155-path universe up to 2 (thorough 3) paths",
			"for 3 or more files contents are the 3 rotations of (nil, \"\", \"x\") (a single one for the largest blocks), not the full product",
			"oracle = testing/fstest.TestFS with every file and implied directory as expected names, plus a sorted reference listing for ReadDir paging, per io/fs.ReadDirFile documentation",
			"fstest's 'expected but not found' is not reported separately when the same run reports a directory entry whose IsDir is wrong (fstest cannot descend then)",
			"keys are defect classes: fstest messages are mapped to the same classes as the explicit oracle (path names stripped)",
			"handle state: only contradictions of the io/fs documentation fail; Read on a directory may fail or report an empty file, and after Close every operation may fail or behave as on an open handle (the documentation is silent)",
			"odd keys: the property statement covers valid non-conflicting names only; for other keys only self-consistency is required (listed => opens as the listed kind, opens => listed, entry names are path elements, no name twice, valid keys readable)",
		},
		Spaces: spaces,
	})
}
