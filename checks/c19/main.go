// C19 — Code can reach only the host functionality the embedder supplies.
//
// Build-time part: programs and templates importing every subset of a
// 3-package universe plus one foreign path, in every import form, under 15
// importer configurations; templates referencing every subset of a 3-global
// universe under every declared subset; well known ambient identifiers
// (os.Exit, unsafe.Pointer, …) with nothing supplied; go statements with
// AllowGoStmt on/off. Oracle: Build fails with a *BuildError iff something
// not supplied is imported/referenced or go is not allowed.
//
// Run-time part: everything that builds is run with the verif hook installed
// (process global ⇒ Isolated workers, cases sequential per process); every
// VerifCallNative event must be attributable to a supplied function, to a
// method of a supplied type, to a function value handed out by supplied code,
// or to one of Scriggo's own helpers listed in internalHelpers.
package main

import (
	"errors"
	"fmt"
	"reflect"
	"runtime"
	"runtime/debug"
	"sort"
	"strings"
	"sync"
	"time"

	"verif/kit"

	"github.com/open2b/scriggo"
	"github.com/open2b/scriggo/native"
)

// ---- host functionality: supplied ----

var (
	mu    sync.Mutex
	wlog  []string // supplied functions that were entered, in order
	hlog  []string // natives reported by the hook (pc function names)
	plog  []string // values given to the Print hook
	canon = map[string]bool{}
	wg    *sync.WaitGroup
)

func enter(id string) {
	mu.Lock()
	wlog = append(wlog, id)
	mu.Unlock()
}

func signal() {
	if wg != nil {
		wg.Done()
	}
}

type T struct{ N int }

func (t T) Hello() string { enter("T.Hello"); return "hello" }
func (t *T) Inc()         { enter("(*T).Inc"); t.N++ }
func (t T) String() string {
	enter("T.String")
	return "T!"
}

type Helloer interface{ Hello() string }

func Tag(s string) string {
	enter("Tag")
	if s == "go" {
		signal()
	}
	return "<" + s + ">"
}
func Up(s string) string { enter("Up"); return strings.ToUpper(s) }
func Exit()              { enter("Exit") }
func Var(a ...int) int   { enter("Var"); return len(a) }
func Call(f func())      { enter("Call"); f() }
func Get() func() int    { enter("Get"); return getInner }
func getInner() int      { enter("getInner"); return 3 }
func Show(v any) string  { enter("Show"); return fmt.Sprint(v) }
func G1(s string) string { enter("G1"); return s }

// Secret is never supplied: it must never be executed.
func Secret() { enter("Secret") }

type hostErr struct{}

func (hostErr) Error() string { enter("hostErr.Error"); return "host error" }

// suppliedNames are the pc names a native call may have when it is one of the
// functions above (the check's package is the embedder).
var suppliedNames = map[string]string{
	"main.Tag": "Tag", "main.Up": "Up", "main.Exit": "Exit", "main.Var": "Var", "main.Call": "Call", "main.Get": "Get",
	"main.getInner": "getInner", "main.Show": "Show", "main.G1": "G1",
	"main.T.Hello": "T.Hello", "main.(*T).Inc": "(*T).Inc", "main.T.String": "T.String", "main.hostErr.Error": "hostErr.Error",
}

// internalHelpers are Scriggo's own native functions. They implement language
// features (complex arithmetic, builtins used in defer/go statements) and are
// compiled into the code by the emitter; they give access to nothing of the
// host: complex helpers are pure; close/copy/delete act on interpreted values;
// panic/recover act on the interpreter; print/println call the Print hook.
var internalHelpers = map[string]string{
	"github.com/open2b/scriggo/internal/compiler.addComplex": "scriggo.complex",
	"github.com/open2b/scriggo/internal/compiler.subComplex": "scriggo.complex",
	"github.com/open2b/scriggo/internal/compiler.mulComplex": "scriggo.complex",
	"github.com/open2b/scriggo/internal/compiler.divComplex": "scriggo.complex",
	"github.com/open2b/scriggo/internal/compiler.negComplex": "scriggo.complex",
}

const deferBuiltinPrefix = "github.com/open2b/scriggo/internal/compiler.deferGoBuiltin.func"

var deferBuiltinNames = map[string]bool{"close": true, "copy": true, "delete": true, "panic": true, "print": true, "println": true, "recover": true}

func installHook() {
	scriggo.VerifSetHook(func(ev *scriggo.VerifEvent) {
		if ev.Kind != scriggo.VerifCallNative {
			return
		}
		pkg, name := scriggo.VerifNativeName(ev)
		f := scriggo.VerifNativeFunc(ev)
		pc := "<nil>"
		if f != nil {
			if rv := reflect.ValueOf(f); rv.Kind() == reflect.Func && !rv.IsNil() {
				if fn := runtime.FuncForPC(rv.Pointer()); fn != nil {
					pc = fn.Name()
				}
			}
		}
		mu.Lock()
		hlog = append(hlog, pc+"|"+pkg+"|"+name)
		mu.Unlock()
	})
}

// ---- importer configurations ----

var universe = []string{"fmt", "strings", "os"}

func pkgDecls(path string) native.Package {
	switch path {
	case "fmt":
		return native.Package{Name: "fmt", Declarations: native.Declarations{"Tag": Tag}}
	case "strings":
		return native.Package{Name: "strings", Declarations: native.Declarations{"Up": Up}}
	}
	return native.Package{Name: "os", Declarations: native.Declarations{"Exit": Exit}}
}

func subset(mask int) native.Packages {
	p := native.Packages{}
	for i, u := range universe {
		if mask&(1<<i) != 0 {
			p[u] = pkgDecls(u)
		}
	}
	return p
}

type errImporter struct{}

func (errImporter) Import(path string) (native.ImportablePackage, error) {
	return nil, errors.New("importer refuses " + path)
}

type importerCfg struct {
	name     string
	opts     func() *scriggo.BuildOptions
	supplies func(path string) bool
}

func inMask(mask int) func(string) bool {
	return func(p string) bool {
		for i, u := range universe {
			if u == p {
				return mask&(1<<i) != 0
			}
		}
		return false
	}
}

func importerCfgs() []importerCfg {
	var cs []importerCfg
	for m := 0; m < 8; m++ {
		m := m
		cs = append(cs, importerCfg{fmt.Sprintf("Packages{mask=%03b}", m), func() *scriggo.BuildOptions { return &scriggo.BuildOptions{Packages: subset(m)} }, inMask(m)})
	}
	cs = append(cs,
		importerCfg{"Combined{Packages{fmt},Packages{strings}}", func() *scriggo.BuildOptions {
			return &scriggo.BuildOptions{Packages: native.CombinedImporter{subset(1), subset(2)}}
		}, inMask(3)},
		importerCfg{"Combined{Packages{},Packages{os}}", func() *scriggo.BuildOptions {
			return &scriggo.BuildOptions{Packages: native.CombinedImporter{subset(0), subset(4)}}
		}, inMask(4)},
		importerCfg{"Combined{}", func() *scriggo.BuildOptions { return &scriggo.BuildOptions{Packages: native.CombinedImporter{}} }, inMask(0)},
		importerCfg{"errImporter", func() *scriggo.BuildOptions { return &scriggo.BuildOptions{Packages: errImporter{}} }, inMask(0)},
		importerCfg{"nil importer", func() *scriggo.BuildOptions { return &scriggo.BuildOptions{} }, inMask(0)},
		importerCfg{"Combined{Packages{fmt},errImporter}", func() *scriggo.BuildOptions {
			return &scriggo.BuildOptions{Packages: native.CombinedImporter{subset(1), errImporter{}}}
		}, inMask(1)},
		importerCfg{"nil options", func() *scriggo.BuildOptions { return nil }, inMask(0)},
	)
	return cs
}

var foreign = []string{"", "unsafe", "C", "main", "x/y", "../a", "\x00empty"} // "" = none; "\x00empty" = the empty path

var useOf = map[string]string{"fmt": `Tag("x")`, "strings": `Up("y")`, "os": `Exit()`}

// ---- a case ----

type tcase struct {
	program  bool
	files    map[string]string
	entry    string
	opts     *scriggo.BuildOptions
	wantOK   bool   // the build must succeed
	why      string // why it must fail
	signals  int    // goroutine signals to wait for after Run
	describe string
}

type result struct {
	o kit.Outcome
}

func runCase(c tcase) kit.Outcome {
	files := scriggo.Files{}
	var names []string
	for n, s := range c.files {
		files[n] = []byte(s)
		names = append(names, n)
	}
	sort.Strings(names)
	detail := func(what string) string {
		var b strings.Builder
		fmt.Fprintf(&b, "%s\n", c.describe)
		for _, n := range names {
			fmt.Fprintf(&b, "--- %s\n%s\n", n, c.files[n])
		}
		b.WriteString(what)
		return b.String()
	}
	var run func(*scriggo.RunOptions) error
	var err error
	if c.program {
		var p *scriggo.Program
		p, err = scriggo.Build(files, c.opts)
		if err == nil {
			run = p.Run
		}
	} else {
		var t *scriggo.Template
		t, err = scriggo.BuildTemplate(files, c.entry, c.opts)
		if err == nil {
			run = func(o *scriggo.RunOptions) error { return t.Run(&strings.Builder{}, nil, o) }
		}
	}
	kind := "program"
	if !c.program {
		kind = "template"
	}
	if err != nil {
		var be *scriggo.BuildError
		if c.wantOK {
			return kit.Outcome{Key: "build-fails-although-everything-is-supplied|" + kind + "|" + kit.NormMsg(stripPos(err.Error())), Detail: detail("build error: " + err.Error()), Class: "fail", Nontrivial: true}
		}
		if !errors.As(err, &be) {
			return kit.Outcome{Key: "build-error-is-not-a-*BuildError|" + fmt.Sprintf("%T", err), Detail: detail(fmt.Sprintf("build failed as expected but with (%T) %v", err, err)), Class: "fail", Nontrivial: true}
		}
		return kit.Outcome{OK: true, Class: "BuildError (" + c.why + ")", Nontrivial: true}
	}
	if !c.wantOK {
		return kit.Outcome{Key: "build-succeeds-although-not-supplied|" + kind + "|" + c.why, Detail: detail("Build returned no error; expected a *BuildError because: " + c.why), Class: "fail", Nontrivial: true}
	}
	// run with the hook
	mu.Lock()
	wlog, hlog, plog = nil, nil, nil
	mu.Unlock()
	var w sync.WaitGroup
	w.Add(c.signals)
	wg = &w
	var hostPanic any
	var hostStack string
	var runErr error
	func() {
		defer func() {
			if hostPanic = recover(); hostPanic != nil {
				hostStack = string(debug.Stack())
			}
		}()
		runErr = run(&scriggo.RunOptions{Print: func(v any) {
			mu.Lock()
			plog = append(plog, fmt.Sprint(v))
			mu.Unlock()
			if v == "go" {
				signal()
			}
		}})
	}()
	if hostPanic != nil {
		wg = nil
		return kit.Outcome{Key: "hostpanic|" + kit.FirstRepoFrame(hostStack) + "|" + kit.NormMsg(fmt.Sprint(hostPanic)), Detail: detail(fmt.Sprintf("Run panicked in the host: %v", hostPanic)), Class: "host-panic", Nontrivial: true}
	}
	if c.signals > 0 {
		done := make(chan struct{})
		go func() { w.Wait(); close(done) }()
		select {
		case <-done:
		case <-time.After(10 * time.Second):
			return kit.Outcome{Key: "goroutine-never-ran", Detail: detail("a started goroutine did not call its function within 10 s"), Class: "fail", Nontrivial: true}
		}
	}
	wg = nil
	mu.Lock()
	hl := append([]string{}, hlog...)
	wl := append([]string{}, wlog...)
	mu.Unlock()
	if runErr != nil {
		return kit.Outcome{Key: "run-error|" + kit.NormMsg(runErr.Error()), Detail: detail("Run returned " + runErr.Error()), Class: "fail", Nontrivial: true}
	}
	// attribute every native call
	entered := map[string]int{}
	for _, id := range wl {
		entered[id]++
	}
	if entered["Secret"] > 0 {
		return kit.Outcome{Key: "unsupplied-host-function-executed|Secret", Detail: detail("the host function Secret, never supplied, was executed"), Class: "fail", Nontrivial: true}
	}
	attributed := map[string]int{}
	methodValues := 0
	internal := 0
	for _, h := range hl {
		parts := strings.SplitN(h, "|", 3)
		pc, pkg, name := parts[0], parts[1], parts[2]
		switch {
		case suppliedNames[pc] != "":
			attributed[suppliedNames[pc]]++
		case pc == "reflect.methodValueCall":
			methodValues++
		case internalHelpers[pc] != "" && pkg == internalHelpers[pc]:
			internal++
		case strings.HasPrefix(pc, deferBuiltinPrefix) && deferBuiltinNames[name]:
			internal++
		default:
			return kit.Outcome{Key: "native-call-not-attributable-to-supplied-functionality|" + pc, Detail: detail(fmt.Sprintf("the hook reported the execution of %s (pkg %q name %q)\nhook log: %v\nsupplied functions entered: %v", pc, pkg, name, hl, wl)), Class: "fail", Nontrivial: true}
		}
	}
	// every attributed call must be matched by an entry of the supplied function
	free := 0
	for id, n := range entered {
		if n < attributed[id] {
			return kit.Outcome{Key: "hook-reports-more-calls-than-executed|" + id, Detail: detail(fmt.Sprintf("hook log: %v\nentered: %v", hl, wl)), Class: "fail", Nontrivial: true}
		}
		free += n - attributed[id]
	}
	for id, n := range attributed {
		if entered[id] < n {
			return kit.Outcome{Key: "hook-reports-more-calls-than-executed|" + id, Detail: detail(fmt.Sprintf("hook log: %v\nentered: %v", hl, wl)), Class: "fail", Nontrivial: true}
		}
	}
	if methodValues > free {
		return kit.Outcome{Key: "method-value-call-without-supplied-method-executed", Detail: detail(fmt.Sprintf("hook log: %v\nentered: %v", hl, wl)), Class: "fail", Nontrivial: true}
	}
	cl := "built+ran"
	switch {
	case len(hl) == 0:
		cl += " (no native call)"
	case internal > 0 && internal == len(hl):
		cl += " (only Scriggo helpers)"
	case internal > 0:
		cl += " (supplied + Scriggo helpers)"
	case methodValues > 0:
		cl += " (supplied incl. method values)"
	default:
		cl += " (supplied functions)"
	}
	return kit.Outcome{OK: true, Class: cl, Nontrivial: true, Ops: len(hl) + 1}
}

func stripPos(s string) string {
	// "main.go:3:8: msg" → "msg"
	parts := strings.SplitN(s, ": ", 2)
	if len(parts) == 2 && strings.Contains(parts[0], ":") {
		return parts[1]
	}
	return s
}

// ---- space: imports ----

var progForms = []string{"plain", "alias", "dot", "blank"}
var tmplForms = []string{"plain", "alias", "dot", "blank", "for"}

func importCase(program bool, mask, fi, form int, cfg importerCfg) tcase {
	var imports, uses []string
	ok := true
	why := ""
	for i, u := range universe {
		if mask&(1<<i) == 0 {
			continue
		}
		if !cfg.supplies(u) {
			ok = false
			why = "import of a package the importer does not return"
		}
		call := useOf[u]
		switch form {
		case 0:
			imports = append(imports, `"`+u+`"`)
			uses = append(uses, u+"."+call)
		case 1:
			imports = append(imports, fmt.Sprintf(`q%d "%s"`, i, u))
			uses = append(uses, fmt.Sprintf("q%d.%s", i, call))
		case 2:
			imports = append(imports, `. "`+u+`"`)
			uses = append(uses, call)
		case 3:
			imports = append(imports, `_ "`+u+`"`)
		case 4:
			imports = append(imports, `"`+u+`" for `+call[:strings.Index(call, "(")])
			uses = append(uses, call)
		}
	}
	if f := foreign[fi]; f != "" {
		if f == "\x00empty" {
			f = ""
		}
		imports = append(imports, `_ "`+f+`"`)
		ok = false
		why = "import of a path outside the universe"
	}
	c := tcase{program: program, opts: cfg.opts(), wantOK: ok, why: why}
	var b strings.Builder
	if program {
		b.WriteString("package main\n")
		for _, im := range imports {
			b.WriteString("import " + im + "\n")
		}
		b.WriteString("func main() {\n")
		for _, u := range uses {
			b.WriteString("\t" + u + "\n")
		}
		b.WriteString("}\n")
		c.files = map[string]string{"main.go": b.String()}
	} else {
		for _, im := range imports {
			b.WriteString("{% import " + im + " %}\n")
		}
		for _, u := range uses {
			if strings.HasSuffix(u, "Exit()") {
				b.WriteString("{% " + u + " %}\n")
			} else {
				b.WriteString("{{ " + u + " }}\n")
			}
		}
		c.files = map[string]string{"index.html": b.String()}
		c.entry = "index.html"
	}
	c.describe = fmt.Sprintf("importer: %s", cfg.name)
	return c
}

func importSpace(program bool) kit.Space {
	cfgs := importerCfgs()
	forms := progForms
	name := "imports.program"
	if !program {
		forms = tmplForms
		name = "imports.template"
	}
	radices := []uint64{uint64(len(forms)), uint64(len(foreign)), 8, uint64(len(cfgs))}
	at := func(i uint64) tcase {
		d := kit.Mixed(i, radices...)
		return importCase(program, int(d[2]), int(d[1]), int(d[0]), cfgs[d[3]])
	}
	return kit.Space{
		Name: name, Size: kit.Product(radices...),
		Eval: func(i uint64) kit.Outcome { return runCase(at(i)) },
		Describe: func(i uint64) any {
			c := at(i)
			return map[string]any{"files": c.files, "config": c.describe, "want_build_ok": c.wantOK}
		},
	}
}

// ---- space: template globals ----

var globalNames = []string{"G1", "GV", "GT"}
var globalUses = []string{`{{ G1("x") }}`, `{{ GV }}`, `{% var t GT %}{{ t.Hello() }}`}
var placements = []string{"top", "macro", "block", "closure"}

func globalsCase(declared, referenced, placement int, nilOpts bool) tcase {
	gv := 7
	decls := native.Declarations{}
	all := []native.Declaration{G1, &gv, reflect.TypeOf(T{})}
	for i, n := range globalNames {
		if declared&(1<<i) != 0 {
			decls[n] = all[i]
		}
	}
	var body strings.Builder
	ok := true
	for i := range globalNames {
		if referenced&(1<<i) != 0 {
			u := globalUses[i]
			if placement >= 2 {
				// inside {%% %%}: statements
				u = []string{`_ = G1("x")`, `_ = GV`, "var t GT\n_ = t.Hello()"}[i]
			}
			body.WriteString(u + "\n")
			if declared&(1<<i) == 0 {
				ok = false
			}
		}
	}
	src := ""
	switch placement {
	case 0:
		src = body.String()
	case 1:
		src = "{% macro M %}" + body.String() + "{% end %}{{ M() }}"
	case 2:
		src = "{%%\n" + body.String() + "%%}"
	case 3:
		src = "{%%\nfunc() {\n" + body.String() + "}()\n%%}"
	}
	c := tcase{files: map[string]string{"index.html": src}, entry: "index.html", wantOK: ok, why: "reference to a global that is not declared",
		describe: fmt.Sprintf("declared globals mask=%03b referenced mask=%03b placement=%s nilOptions=%v", declared, referenced, placements[placement], nilOpts)}
	if nilOpts {
		if declared != 0 {
			panic("nilOpts requires declared=0")
		}
	} else {
		c.opts = &scriggo.BuildOptions{Globals: decls}
	}
	return c
}

func globalsSpace() kit.Space {
	radices := []uint64{uint64(len(placements)), 8, 9} // declared: 0..7, 8 = nil options
	at := func(i uint64) tcase {
		d := kit.Mixed(i, radices...)
		if d[2] == 8 {
			return globalsCase(0, int(d[1]), int(d[0]), true)
		}
		return globalsCase(int(d[2]), int(d[1]), int(d[0]), false)
	}
	return kit.Space{Name: "globals.template", Size: kit.Product(radices...),
		Eval: func(i uint64) kit.Outcome { return runCase(at(i)) },
		Describe: func(i uint64) any {
			c := at(i)
			return map[string]any{"files": c.files, "config": c.describe, "want_build_ok": c.wantOK}
		}}
}

// ---- space: ambient identifiers ----

var ambient = []string{"os.Exit(1)", "_ = unsafe.Pointer(nil)", "_ = unsafe.Sizeof(1)", "_ = reflect.TypeOf(1)", "syscall.Exit(0)", "runtime.GC()", "_ = fmt.Sprint(1)",
	"_ = C.int(1)", "Secret()", "_ = main.Secret", "_ = os.Args", "_ = exec.Command", "_ = http.Get", "_ = io.EOF", "_ = os.Stdout", "_ = scriggo.Build", "_ = native.Env(nil)"}

func ambientSpace() kit.Space {
	cfgs := importerCfgs()
	radices := []uint64{3, uint64(len(ambient)), uint64(len(cfgs))}
	at := func(i uint64) tcase {
		d := kit.Mixed(i, radices...)
		st := ambient[d[1]]
		cfg := cfgs[d[2]]
		c := tcase{opts: cfg.opts(), wantOK: false, why: "use of an identifier that was neither imported nor declared", describe: "importer: " + cfg.name}
		switch d[0] {
		case 0:
			c.program = true
			c.files = map[string]string{"main.go": "package main\nfunc main() {\n\t" + st + "\n}\n"}
		case 1:
			c.entry = "index.html"
			c.files = map[string]string{"index.html": "{%%\n" + st + "\n%%}"}
		case 2:
			c.entry = "index.txt"
			c.files = map[string]string{"index.txt": "{% macro M %}{%% " + st + " %%}{% end %}{{ M() }}"}
		}
		return c
	}
	return kit.Space{Name: "ambient-identifiers", Size: kit.Product(radices...),
		Eval:     func(i uint64) kit.Outcome { return runCase(at(i)) },
		Describe: func(i uint64) any { c := at(i); return map[string]any{"files": c.files, "config": c.describe} }}
}

// ---- host package for go statements and call paths ----

func hostPackage() native.Packages {
	fv := Tag
	v := 5
	var er error = hostErr{}
	tv := T{N: 1}
	return native.Packages{"host": native.Package{Name: "host", Declarations: native.Declarations{
		"Tag": Tag, "Var": Var, "Call": Call, "Get": Get, "Show": Show, "T": reflect.TypeOf(T{}), "Helloer": reflect.TypeOf((*Helloer)(nil)).Elem(),
		"FV": &fv, "V": &v, "Err": &er, "TV": &tv,
	}}}
}

func hostGlobals() native.Declarations {
	d := native.Declarations{}
	for k, v := range hostPackage()["host"].(native.Package).Declarations {
		d[k] = v
	}
	return d
}

// ---- space: go statements ----

var goForms = []string{
	"go f()",
	"go func() {\n\t\tH.Tag(\"go\")\n\t}()",
	"go H.Tag(\"go\")",
	"go print(\"go\")",
	"go fv(\"go\")",
}

var goWheres = []string{"program main", "program closure", "program callee", "template block", "template macro", "template closure"}

func goCase(form, where int, allow bool) tcase {
	st := goForms[form]
	c := tcase{wantOK: allow, why: "go statement with AllowGoStmt false", signals: 1,
		describe: fmt.Sprintf("AllowGoStmt=%v where=%s", allow, goWheres[where])}
	pre := "f := func() {\n\t\tH.Tag(\"go\")\n\t}\n\tfv := H.Tag\n\t_, _ = f, fv\n\t"
	if where < 3 {
		c.program = true
		st = strings.ReplaceAll(st, "H.", "host.")
		p := strings.ReplaceAll(pre, "H.", "host.")
		var src string
		switch where {
		case 0:
			src = "package main\nimport \"host\"\nfunc main() {\n\t" + p + st + "\n}\n"
		case 1:
			src = "package main\nimport \"host\"\nfunc main() {\n\tfunc() {\n\t" + p + st + "\n\t}()\n}\n"
		case 2:
			src = "package main\nimport \"host\"\nfunc g() {\n\t" + p + st + "\n}\nfunc main() {\n\tg()\n}\n"
		}
		c.files = map[string]string{"main.go": src}
		c.opts = &scriggo.BuildOptions{Packages: hostPackage(), AllowGoStmt: allow}
	} else {
		st = strings.ReplaceAll(st, "H.", "")
		p := strings.ReplaceAll(pre, "H.", "")
		var src string
		switch where {
		case 3:
			src = "{%%\n\t" + p + st + "\n%%}"
		case 4:
			src = "{% macro M %}{%%\n\t" + p + st + "\n%%}{% end %}{{ M() }}"
		case 5:
			src = "{%%\n\tfunc() {\n\t" + p + st + "\n\t}()\n%%}"
		}
		c.files = map[string]string{"index.html": src}
		c.entry = "index.html"
		c.opts = &scriggo.BuildOptions{Globals: hostGlobals(), AllowGoStmt: allow}
	}
	return c
}

func goSpace() kit.Space {
	radices := []uint64{2, uint64(len(goWheres)), uint64(len(goForms))}
	at := func(i uint64) tcase {
		d := kit.Mixed(i, radices...)
		return goCase(int(d[2]), int(d[1]), d[0] == 1)
	}
	return kit.Space{Name: "go-statement", Size: kit.Product(radices...),
		Eval: func(i uint64) kit.Outcome { return runCase(at(i)) },
		Describe: func(i uint64) any {
			c := at(i)
			return map[string]any{"files": c.files, "config": c.describe, "want_build_ok": c.wantOK}
		}}
}

// ---- space: call paths ----

// every form is a list of statements using H. as the host prefix.
var callForms = [][]string{
	{`H.Tag("a")`},
	{`f := H.Tag`, `f("b")`},
	{`var t H.T`, `t.Hello()`},
	{`var t H.T`, `m := t.Hello`, `m()`},
	{`var t H.T`, `g := H.T.Hello`, `g(t)`},
	{`var t H.T`, `t.Inc()`},
	{`t := &H.T{}`, `t.Inc()`, `m := t.Inc`, `m()`},
	{`var t H.T`, `var i H.Helloer = t`, `i.Hello()`},
	{`H.Var(1, 2, 3)`},
	{`s := []int{1}`, `H.Var(s...)`},
	{`H.Var()`},
	{`H.Call(func() {`, `H.Tag("cb")`, `})`},
	{`var t H.T`, `H.Call(t.Inc)`},
	{`h := H.Get()`, `h()`},
	{`H.FV("z")`},
	{`_ = H.Err.Error()`},
	{`var e error = H.Err`, `_ = e.Error()`},
	{`defer H.Tag("d")`},
	{`defer print("x")`},
	{`ch := make(chan int, 1)`, `defer close(ch)`},
	{`mm := map[string]int{"a": 1}`, `defer delete(mm, "a")`},
	{`s := []int{1}`, `defer copy(s, s)`},
	{`defer func() {`, `recover()`, `}()`},
	{`c := 1 + 2i`, `c = c * c`, `c = -c`, `c = c + c`, `c = c / (1 + 1i)`, `c = c - c`, `_ = c`},
	{`print("p")`, `println("q", 1)`},
	{`var a any = H.TV`, `_ = a.(H.T).Hello()`},
	{`fs := []func(string) string{H.Tag}`, `fs[0]("q")`},
	{`mf := map[string]func(string) string{"k": H.Tag}`, `mf["k"]("q")`},
	{`apply := func(f func(string) string) {`, `f("w")`, `}`, `apply(H.Tag)`},
	{`_ = H.Show(H.TV)`},
	{`_ = H.TV.String()`},
	{`pt := &H.TV`, `pt.Inc()`},
	{`H.Call(func() {`, `H.Call(func() {`, `H.Tag("cb2")`, `})`, `})`},
}

var callWheres = []string{"program main", "program callee", "program closure", "program deferred closure", "program goroutine", "template block", "template macro"}

func callSnippet(forms []int, host string, indent string) string {
	var b strings.Builder
	for k, fi := range forms {
		// every form in its own block so that names do not clash
		b.WriteString(indent + "{\n")
		for _, l := range callForms[fi] {
			b.WriteString(indent + "\t" + strings.ReplaceAll(l, "H.", host) + "\n")
		}
		b.WriteString(indent + "}\n")
		_ = k
	}
	return b.String()
}

func callCase(forms []int, where int) tcase {
	c := tcase{wantOK: true, describe: "call forms " + fmt.Sprint(forms) + " at " + callWheres[where]}
	// a defer inside a bare block is still function scoped: fine
	if where < 5 {
		c.program = true
		body := callSnippet(forms, "host.", "\t")
		var src string
		switch where {
		case 0:
			src = "package main\nimport \"host\"\nfunc main() {\n\t_ = host.V\n" + body + "}\n"
		case 1:
			src = "package main\nimport \"host\"\nfunc g() {\n" + body + "}\nfunc main() {\n\t_ = host.V\n\tg()\n}\n"
		case 2:
			src = "package main\nimport \"host\"\nfunc main() {\n\t_ = host.V\n\tfunc() {\n" + body + "\t}()\n}\n"
		case 3:
			src = "package main\nimport \"host\"\nfunc main() {\n\t_ = host.V\n\tdefer func() {\n" + body + "\t}()\n}\n"
		case 4:
			src = "package main\nimport \"host\"\nfunc main() {\n\t_ = host.V\n\tdone := make(chan bool)\n\tgo func() {\n\t\tdefer func() {\n\t\t\tdone <- true\n\t\t}()\n" + body + "\t}()\n\t<-done\n}\n"
		}
		c.files = map[string]string{"main.go": src}
		c.opts = &scriggo.BuildOptions{Packages: hostPackage(), AllowGoStmt: true}
	} else {
		body := callSnippet(forms, "", "\t")
		src := "{%%\n" + body + "%%}"
		if where == 6 {
			src = "{% macro M %}{%%\n" + body + "%%}{% end %}{{ M() }}"
		}
		c.files = map[string]string{"index.html": src}
		c.entry = "index.html"
		c.opts = &scriggo.BuildOptions{Globals: hostGlobals(), AllowGoStmt: true}
	}
	return c
}

func callSpaces(tier string) []kit.Space {
	nf := uint64(len(callForms))
	nw := uint64(len(callWheres))
	sps := []kit.Space{{
		Name: "call-paths.single", Size: nf * nw,
		Eval: func(i uint64) kit.Outcome { return runCase(callCase([]int{int(i % nf)}, int(i/nf))) },
		Describe: func(i uint64) any {
			c := callCase([]int{int(i % nf)}, int(i/nf))
			return map[string]any{"files": c.files, "config": c.describe}
		},
	}}
	if tier == "thorough" {
		sps = append(sps, kit.Space{
			Name: "call-paths.pairs", Size: nf * nf * nw,
			Eval: func(i uint64) kit.Outcome {
				return runCase(callCase([]int{int(i % nf), int(i / nf % nf)}, int(i/nf/nf)))
			},
			Describe: func(i uint64) any {
				c := callCase([]int{int(i % nf), int(i / nf % nf)}, int(i/nf/nf))
				return map[string]any{"files": c.files, "config": c.describe}
			},
		})
	}
	return sps
}

func spaces(tier string) []kit.Space {
	installHook()
	sps := []kit.Space{importSpace(true), importSpace(false), globalsSpace(), ambientSpace(), goSpace()}
	sps = append(sps, callSpaces(tier)...)
	sps = append(sps, historySpaces(tier)...)
	sps = append(sps, perRunSpace(), combinedImporterSpace(), combinedPackageSpace(), importGridSpace())
	return sps
}

func main() {
	kit.Main(&kit.Check{
		ID:       "C19",
		Level:    "model_checking",
		Isolated: true,
		Rule:     "imports: 8 subsets of {fmt,strings,os} (fake packages) × 7 foreign paths {none, unsafe, C, main, x/y, ../a, empty} × every import form (plain, alias, dot, blank; plus `for` in templates) × 15 importer configurations (8 Packages subsets, 4 CombinedImporter shapes, an importer that returns an error, nil importer, nil options), for programs and templates; globals: 9 declared sets × 8 referenced sets × 4 placements; 17 ambient identifiers × 3 source kinds × 15 configurations; go statement: 5 forms × 6 places × AllowGoStmt on/off; call paths: 33 ways to reach a supplied function × 7 places (pairs of ways in thorough); histories: every sequence of 2 and 3 builds that reuse the same Globals / Declarations / Packages map objects and the same BuildOptions, the map being edited in place between builds to each of its 12 contents over {A→FA|FA2, B→FB, C→FC}, × 7 referenced-name sets × 4 sharing modes (3-build histories for 2 modes in quick); per-run: 18 call forms of native functions taking an Env × 5 places × 6 sequences of 2–3 runs of ONE build with their own Print hook, Context (or none) and Run vars; combined-importer: 3 members × {package, not found, refusal} in 3 nestings, program and template; combined-package: names {absent, nil, declared} in {sandbox, real} × 6 access forms, with the Lookup/LookupFunc agreement; import-grid: 5 import forms × 20 names (exported/unexported func, var, const, type; names shadowing builtins; unicode first letters) × 5 kinds of file. Every case that builds is run with the native-call hook. Every case is non-trivial: it either must fail to build for a stated reason or runs at least one statement",
		Assumptions: []string{
			"the universe packages are fakes with marker functions; the check's own package plays the embedder",
			"a native call is attributed by the function name of its code pointer; calls of reflect method values are attributed by counting the supplied methods actually entered",
			"Scriggo's own helpers (scriggo.complex add/sub/mul/div/neg; the native stand-ins of close, copy, delete, panic, print, println, recover used by defer/go) are allowed: they give no access to host functionality",
			"per-run: what a native function sees through its Env (Context value, Print hook, CallPath) is recorded with the run in progress; the pairing must be the identity; an empty CallPath is accepted (some call forms do not set it)",
			"combined-package: a nil-valued declaration is not a valid native.Declaration; when Build panics on it the case is classed, not failed; by Lookup's contract a nil declaration of the first member does not hide the second member's",
			"import-grid: exported = first rune is a Unicode upper case letter (Go's rule)",
			"host methods invoked by the renderer (String, Error, HTML…) are not native calls and are not observed by the hook",
			"an import must fail with a *BuildError whenever the importer does not return the package; imports of unsafe and C have no special status (checker_statements.go: checkImport resolves every native import through the importer)",
		},
		Spaces: spaces,
	})
}
