package main

// Class (1): host functionality is PER RUN. One Program / Template is built
// once and run 2–3 times sequentially with DIFFERENT RunOptions (its own Print
// hook, its own Context value or no context) and different Run vars; the code
// reaches native functions that take a native.Env in every call form. What
// the native function sees through its Env — Print hook, Context, CallPath —
// must be that of the CURRENT run: the harness records (current run, run seen
// through the Env) pairs and demands the identity pairing.

import (
	"context"
	"fmt"
	"runtime/debug"
	"strings"
	"sync"
	"time"

	"verif/kit"

	"github.com/open2b/scriggo"
	"github.com/open2b/scriggo/native"
)

type runKey struct{}

type perRunState struct {
	mu      sync.Mutex
	current int      // the run in progress (0 = none)
	seen    []string // "say tag run=<current> ctx=<id seen> path=<callpath>"
	hooks   []string // "hook=<id> run=<current> value=<v>"
	wg      sync.WaitGroup
}

func (st *perRunState) say(env native.Env, tag string) {
	id := "nil"
	if ctx := env.Context(); ctx != nil {
		id = fmt.Sprint(ctx.Value(runKey{}))
	}
	path := env.CallPath()
	st.mu.Lock()
	st.seen = append(st.seen, fmt.Sprintf("say %s run=%d ctx=%s path=%s", tag, st.current, id, path))
	st.mu.Unlock()
	env.Print("said:" + tag)
	if strings.HasPrefix(tag, "go") {
		st.wg.Done()
	}
}

// Obj is a native type with a method that takes the Env.
type Obj struct{ st *perRunState }

func (o Obj) SayM(env native.Env, tag string) { o.st.say(env, "m-"+tag) }

// forms: statements using H. as the host prefix and W as the run's value
// (a string variable: a program constant, a template variable set by Run vars)
var perRunForms = []struct {
	name   string
	lines  []string
	goStmt int // goroutines started (the harness waits for them)
}{
	{"direct call", []string{`H.Say("a" + W)`}, 0},
	{"function value in a local variable", []string{`f := H.Say`, `f("b" + W)`}, 0},
	{"function value passed to host code", []string{`H.Apply(H.Say, "c" + W)`}, 0},
	{"function value passed to a Scriggo function", []string{`func(g func(string), s string) {`, `	g(s)`, `}(H.Say, "d" + W)`}, 0},
	{"function value in a struct field", []string{`st := struct{ F func(string) }{H.Say}`, `st.F("e" + W)`}, 0},
	{"function value in a slice", []string{`fs := []func(string){H.Say}`, `fs[0]("f" + W)`}, 0},
	{"deferred call", []string{`defer H.Say("g" + W)`}, 0},
	{"deferred function value", []string{`f := H.Say`, `defer f("h" + W)`}, 0},
	{"goroutine", []string{`go H.Say("go-i" + W)`}, 1},
	{"goroutine of a function value", []string{`f := H.Say`, `go f("go-j" + W)`}, 1},
	{"method call", []string{`H.O.SayM("k" + W)`}, 0},
	{"method value", []string{`m := H.O.SayM`, `m("l" + W)`}, 0},
	{"method value passed to host code", []string{`H.Apply(H.O.SayM, "n" + W)`}, 0},
	{"closure", []string{`func() {`, `	H.Say("o" + W)`, `}()`}, 0},
	{"closure called back by host code", []string{`H.Call(func() {`, `	H.Say("p" + W)`, `})`}, 0},
	{"builtin print", []string{`print("q" + W)`}, 0},
	{"deferred builtin print", []string{`defer print("r" + W)`}, 0},
	{"function value called twice in a loop", []string{`f := H.Say`, `for i := 0; i < 2; i++ {`, `	f("s" + W)`, `}`}, 0},
}

var perRunWheres = []string{"program", "program package-level function value", "template body", "template macro", "template imported macro"}

// run option patterns: for every run, context with its id (c) or nil context (n)
func perRunPatterns() []string { return []string{"cc", "cn", "nc", "ccc", "cnc", "ncc"} }

func perRunSpace() kit.Space {
	pats := perRunPatterns()
	radices := []uint64{uint64(len(pats)), uint64(len(perRunWheres)), uint64(len(perRunForms))}
	type pcase struct {
		form, where int
		pat         string
	}
	at := func(i uint64) pcase {
		d := kit.Mixed(i, radices...)
		return pcase{int(d[2]), int(d[1]), pats[d[0]]}
	}
	source := func(c pcase) (files map[string]string, entry string, program bool, na string) {
		f := perRunForms[c.form]
		var b strings.Builder
		switch c.where {
		case 0, 1:
			sub := func(l string) string { return strings.NewReplacer("H.", "host.", "W", "host.Who()").Replace(l) }
			b.WriteString("package main\nimport \"host\"\nvar _ = host.Who\n")
			if c.where == 1 {
				// the function value lives in a package-level variable, initialised once per run
				if !strings.Contains(strings.Join(f.lines, " "), "f := H.Say") {
					return nil, "", true, "the form has no function value variable"
				}
				b.WriteString("var f = host.Say\n")
			}
			b.WriteString("func main() {\n")
			for _, l := range f.lines {
				if c.where == 1 && l == "f := H.Say" {
					continue
				}
				b.WriteString("\t" + sub(l) + "\n")
			}
			b.WriteString("}\n")
			return map[string]string{"main.go": b.String()}, "", true, ""
		}
		sub := func(l string) string { return strings.NewReplacer("H.", "", "W", "who").Replace(l) }
		body := "{%%\n"
		for _, l := range f.lines {
			body += "\t" + sub(l) + "\n"
		}
		body += "%%}"
		switch c.where {
		case 2:
			return map[string]string{"index.html": body + "{{ who }}"}, "index.html", false, ""
		case 3:
			return map[string]string{"index.html": "{% macro M %}" + body + "{% end %}{{ M() }}{{ who }}"}, "index.html", false, ""
		}
		return map[string]string{"index.html": "{% import \"imp.html\" %}{{ M() }}{{ who }}", "imp.html": "{% macro M %}" + body + "{% end %}"}, "index.html", false, ""
	}
	return kit.Space{Name: "per-run", Size: kit.Product(radices...),
		Eval: func(i uint64) kit.Outcome {
			c := at(i)
			files, entry, program, na := source(c)
			if na != "" {
				return kit.Outcome{OK: true, Class: "n/a: " + na}
			}
			st := &perRunState{}
			whoVar := "?"
			decls := native.Declarations{
				"Say":   st.say,
				"Apply": func(f func(string), s string) { f(s) },
				"Call":  func(f func()) { f() },
				"O":     &Obj{st},
				"Who":   func() string { return fmt.Sprintf("@%d", st.current) },
				"who":   (*string)(nil),
			}
			_ = whoVar
			fsys := scriggo.Files{}
			var src string
			for n, s := range files {
				fsys[n] = []byte(s)
				src += "--- " + n + "\n" + s + "\n"
			}
			var run func(vars map[string]any, o *scriggo.RunOptions) (string, error)
			if program {
				delete(decls, "who")
				p, err := scriggo.Build(fsys, &scriggo.BuildOptions{Packages: native.Packages{"host": native.Package{Name: "host", Declarations: decls}}, AllowGoStmt: true})
				if err != nil {
					return kit.Outcome{Key: "harness|per-run source does not build|" + kit.NormMsg(stripPos(err.Error())), Detail: src + err.Error(), Class: "fail", Nontrivial: true}
				}
				run = func(_ map[string]any, o *scriggo.RunOptions) (string, error) { return "", p.Run(o) }
			} else {
				delete(decls, "Who")
				t, err := scriggo.BuildTemplate(fsys, entry, &scriggo.BuildOptions{Globals: decls, AllowGoStmt: true})
				if err != nil {
					return kit.Outcome{Key: "harness|per-run source does not build|" + kit.NormMsg(stripPos(err.Error())), Detail: src + err.Error(), Class: "fail", Nontrivial: true}
				}
				run = func(vars map[string]any, o *scriggo.RunOptions) (string, error) {
					var b strings.Builder
					err := t.Run(&b, vars, o)
					return b.String(), err
				}
			}
			detail := fmt.Sprintf("%s in a %s, run %d times sequentially (c = Context carrying the run's id, n = nil Context): %s; every run has its own Print hook\n%s", perRunForms[c.form].name, perRunWheres[c.where], len(c.pat), c.pat, src)
			var outs []string
			for r := 1; r <= len(c.pat); r++ {
				r := r
				st.mu.Lock()
				st.current = r
				st.mu.Unlock()
				st.wg.Add(perRunForms[c.form].goStmt)
				opts := &scriggo.RunOptions{Print: func(v any) {
					st.mu.Lock()
					st.hooks = append(st.hooks, fmt.Sprintf("hook=%d run=%d value=%v", r, st.current, v))
					st.mu.Unlock()
				}}
				if c.pat[r-1] == 'c' {
					opts.Context = context.WithValue(context.Background(), runKey{}, r)
				}
				who := fmt.Sprintf("@%d", r)
				var hostPanic any
				var stack string
				var out string
				var err error
				func() {
					defer func() {
						if hostPanic = recover(); hostPanic != nil {
							stack = string(debug.Stack())
						}
					}()
					out, err = run(map[string]any{"who": &who}, opts)
				}()
				if hostPanic != nil {
					return kit.Outcome{Key: "hostpanic|" + kit.FirstRepoFrame(stack) + "|" + kit.NormMsg(fmt.Sprint(hostPanic)) + "|in=per-run", Detail: detail + fmt.Sprintf("run %d panicked in the host: %v", r, hostPanic), Class: "host-panic", Nontrivial: true}
				}
				if err != nil {
					return kit.Outcome{Key: "per-run|run returned an error|" + kit.NormMsg(err.Error()), Detail: detail + fmt.Sprintf("run %d returned %v", r, err), Class: "fail", Nontrivial: true}
				}
				done := make(chan struct{})
				go func() { st.wg.Wait(); close(done) }()
				select {
				case <-done:
				case <-time.After(10 * time.Second):
					return kit.Outcome{Key: "per-run|goroutine never ran", Detail: detail, Class: "fail", Nontrivial: true}
				}
				outs = append(outs, out)
			}
			st.mu.Lock()
			st.current = 0
			seen, hooks := append([]string{}, st.seen...), append([]string{}, st.hooks...)
			st.mu.Unlock()
			report := fmt.Sprintf("%s\nnative function saw: %q\nPrint hooks received: %q\ntemplate outputs: %q", detail, seen, hooks, outs)
			fail := func(key string) kit.Outcome {
				return kit.Outcome{Key: "per-run|" + key + "|form=" + perRunForms[c.form].name, Detail: report, Class: "fail", Nontrivial: true}
			}
			perRun := map[int]int{}
			for _, s := range seen {
				var tag, ctxID, path string
				var r int
				fmt.Sscanf(strings.NewReplacer("run=", "", "ctx=", "", "path=", "").Replace(s), "say %s %d %s %s", &tag, &r, &ctxID, &path)
				perRun[r]++
				want := "nil"
				if r >= 1 && r <= len(c.pat) && c.pat[r-1] == 'c' {
					want = fmt.Sprint(r)
				}
				if r == 0 {
					return fail("native function executed outside any run")
				}
				if ctxID != want {
					return fail("env.Context() is not the context of the current run")
				}
				if !strings.HasSuffix(tag, fmt.Sprintf("@%d", r)) {
					return fail("the value of the current run did not reach the native function")
				}
				wantPath := map[int]string{0: "main.go", 1: "main.go", 2: "index.html", 3: "index.html", 4: "imp.html"}[c.where]
				if path != "" && path != wantPath {
					return fail("env.CallPath() is not a path of the current code")
				}
			}
			for _, h := range hooks {
				var hid, r int
				fmt.Sscanf(h, "hook=%d run=%d", &hid, &r)
				if hid != r {
					return fail("a Print hook of another run received the output")
				}
				if !strings.Contains(h, fmt.Sprintf("@%d", r)) {
					return fail("the value printed is not the current run's")
				}
			}
			for r := 1; r <= len(c.pat); r++ {
				if c.form < 15 && perRun[r] == 0 {
					return fail("the native function was not executed in a run")
				}
				if perRun[r] != perRun[1] {
					return fail("the runs executed the native function a different number of times")
				}
				if !program && !strings.Contains(outs[r-1], fmt.Sprintf("@%d", r)) {
					return fail("the template did not render the Run vars of the current run")
				}
			}
			if len(hooks) == 0 {
				return fail("no Print hook received anything")
			}
			return kit.Outcome{OK: true, Class: fmt.Sprintf("per-run: %d runs, Env of the current run everywhere", len(c.pat)), Nontrivial: true, Ops: len(seen) + len(hooks)}
		},
		Describe: func(i uint64) any {
			c := at(i)
			files, _, _, na := source(c)
			return map[string]any{"form": perRunForms[c.form].name, "where": perRunWheres[c.where], "runs": c.pat, "files": files, "na": na}
		}}
}
