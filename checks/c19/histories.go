package main

// Histories: the embedder REUSES the same native.Declarations / native.Packages
// map objects (and the same *BuildOptions) for several builds and edits them
// between builds: deletes a name, adds another, replaces the function under a
// name — same-size and different-size edits. After every build the oracle is
// applied to the CURRENT content of the maps: the build fails with a
// *BuildError iff something not currently supplied is referenced; when it
// builds, the code is run with the native-call hook and exactly the functions
// currently supplied under the referenced names are executed.

import (
	"errors"
	"fmt"
	"sort"
	"strings"

	"verif/kit"

	"github.com/open2b/scriggo"
	"github.com/open2b/scriggo/native"
)

func FA() string  { enter("FA"); return "a" }
func FA2() string { enter("FA2"); return "a2" }
func FB() string  { enter("FB"); return "b" }
func FC() string  { enter("FC"); return "c" }

func init() {
	for _, n := range []string{"FA", "FA2", "FB", "FC"} {
		suppliedNames["main."+n] = n
	}
}

// a content assigns to the three names A, B, C one of: absent, the function,
// (for A) the replacement function. There are 3*2*2 = 12 contents.
type content [3]int // 0 absent, 1 first function, 2 replacement (A only)

var histNames = []string{"A", "B", "C"}
var histFuncs = [3][3]any{{nil, FA, FA2}, {nil, FB, nil}, {nil, FC, nil}}
var histIDs = [3][3]string{{"", "FA", "FA2"}, {"", "FB", ""}, {"", "FC", ""}}

func contentAt(i uint64) content {
	return content{int(i % 3), int(i / 3 % 2), int(i / 6 % 2)}
}

const numContents = 12

func (c content) String() string {
	var p []string
	for k, v := range c {
		if v != 0 {
			p = append(p, histNames[k]+"→"+histIDs[k][v])
		}
	}
	return "{" + strings.Join(p, " ") + "}"
}

// modes: what is shared and edited
var histModes = []string{
	"template, Globals map edited",
	"template, Declarations map of an imported package edited",
	"program, Declarations map of an imported package edited",
	"program, Packages map edited (one package per name)",
}

type history struct {
	mode     int
	refs     int // mask of referenced names
	contents []content
}

func (h history) describe() string {
	var cs []string
	for _, c := range h.contents {
		cs = append(cs, c.String())
	}
	var rs []string
	for k, n := range histNames {
		if h.refs&(1<<k) != 0 {
			rs = append(rs, n)
		}
	}
	return fmt.Sprintf("%s; every build references %v; contents of the shared map before each build: %s", histModes[h.mode], rs, strings.Join(cs, " then "))
}

func (h history) source() (scriggo.Files, string, bool) {
	var b strings.Builder
	switch h.mode {
	case 0:
		for k, n := range histNames {
			if h.refs&(1<<k) != 0 {
				b.WriteString("{{ " + n + "() }}")
			}
		}
		return scriggo.Files{"index.html": []byte(b.String())}, "index.html", false
	case 1:
		b.WriteString("{% import \"p\" %}")
		for k, n := range histNames {
			if h.refs&(1<<k) != 0 {
				b.WriteString("{{ p." + n + "() }}")
			}
		}
		return scriggo.Files{"index.html": []byte(b.String())}, "index.html", false
	case 2:
		b.WriteString("package main\nimport \"p\"\nfunc main() {\n")
		for k, n := range histNames {
			if h.refs&(1<<k) != 0 {
				b.WriteString("\tp." + n + "()\n")
			}
		}
		b.WriteString("}\n")
	case 3:
		b.WriteString("package main\n")
		for k, n := range histNames {
			if h.refs&(1<<k) != 0 {
				b.WriteString("import \"p" + strings.ToLower(n) + "\"\n")
			}
		}
		b.WriteString("func main() {\n")
		for k, n := range histNames {
			if h.refs&(1<<k) != 0 {
				b.WriteString("\tp" + strings.ToLower(n) + ".F()\n")
			}
		}
		b.WriteString("}\n")
	}
	return scriggo.Files{"main.go": []byte(b.String())}, "", true
}

func runHistory(h history) kit.Outcome {
	files, entry, program := h.source()
	// the shared objects, created once for the whole history
	decls := native.Declarations{}
	pkgs := native.Packages{}
	opts := &scriggo.BuildOptions{}
	switch h.mode {
	case 0:
		opts.Globals = decls
	case 1, 2:
		pkgs["p"] = native.Package{Name: "p", Declarations: decls}
		opts.Packages = pkgs
	case 3:
		opts.Packages = pkgs
	}
	var src string
	for n, s := range files {
		src += "--- " + n + "\n" + string(s) + "\n"
	}
	ops := 0
	for step, c := range h.contents {
		// edit the shared map in place to reach the content
		for k, n := range histNames {
			if h.mode == 3 {
				path := "p" + strings.ToLower(n)
				if c[k] == 0 {
					delete(pkgs, path)
				} else {
					pkgs[path] = native.Package{Name: path, Declarations: native.Declarations{"F": histFuncs[k][c[k]]}}
				}
				continue
			}
			if c[k] == 0 {
				delete(decls, n)
			} else {
				decls[n] = histFuncs[k][c[k]]
			}
		}
		wantOK := true
		var wantEntered []string
		for k := range histNames {
			if h.refs&(1<<k) != 0 {
				if c[k] == 0 {
					wantOK = false
				} else {
					wantEntered = append(wantEntered, histIDs[k][c[k]])
				}
			}
		}
		detail := func(what string) string {
			return fmt.Sprintf("%s\n%sbuild #%d of the history (shared map now %s): %s", h.describe(), src, step+1, c, what)
		}
		edit := "first-build"
		if step > 0 {
			edit = editKind(h.contents[step-1], c)
		}
		var run func(*scriggo.RunOptions) error
		var err error
		if program {
			var p *scriggo.Program
			if p, err = scriggo.Build(files, opts); err == nil {
				run = p.Run
			}
		} else {
			var t *scriggo.Template
			if t, err = scriggo.BuildTemplate(files, entry, opts); err == nil {
				run = func(o *scriggo.RunOptions) error { return t.Run(&strings.Builder{}, nil, o) }
			}
		}
		if err != nil {
			var be *scriggo.BuildError
			if wantOK {
				return kit.Outcome{Key: "history|build-fails-although-currently-supplied|after=" + edit, Detail: detail("build error: " + err.Error()), Class: "fail", Nontrivial: true}
			}
			if !errors.As(err, &be) {
				return kit.Outcome{Key: "build-error-is-not-a-*BuildError|" + fmt.Sprintf("%T", err), Detail: detail(err.Error()), Class: "fail", Nontrivial: true}
			}
			continue
		}
		if !wantOK {
			return kit.Outcome{Key: "history|build-succeeds-although-withdrawn|after=" + edit, Detail: detail("Build returned no error although a referenced name is not in the map any more"), Class: "fail", Nontrivial: true}
		}
		mu.Lock()
		wlog, hlog, plog = nil, nil, nil
		mu.Unlock()
		if err := run(nil); err != nil {
			return kit.Outcome{Key: "run-error|" + kit.NormMsg(err.Error()), Detail: detail("Run returned " + err.Error()), Class: "fail", Nontrivial: true}
		}
		mu.Lock()
		entered := append([]string{}, wlog...)
		var hooked []string
		for _, e := range hlog {
			pc := strings.SplitN(e, "|", 2)[0]
			hooked = append(hooked, suppliedNames[pc])
		}
		mu.Unlock()
		ops += len(hooked)
		sort.Strings(entered)
		sort.Strings(hooked)
		sort.Strings(wantEntered)
		if fmt.Sprint(entered) != fmt.Sprint(wantEntered) || fmt.Sprint(hooked) != fmt.Sprint(wantEntered) {
			return kit.Outcome{Key: "history|executed-functions-are-not-the-currently-supplied-ones|after=" + edit,
				Detail: detail(fmt.Sprintf("functions currently supplied under the referenced names: %v\nfunctions entered: %v\nnative calls seen by the hook: %v", wantEntered, entered, hooked)), Class: "fail", Nontrivial: true}
		}
	}
	cl := "history of " + fmt.Sprint(len(h.contents)) + " builds"
	return kit.Outcome{OK: true, Class: cl, Nontrivial: true, Ops: ops + len(h.contents)}
}

// editKind classifies the edit between two contents.
func editKind(a, b content) string {
	na, nb, replaced, removed, added := 0, 0, false, false, false
	for k := range a {
		if a[k] != 0 {
			na++
		}
		if b[k] != 0 {
			nb++
		}
		switch {
		case a[k] != 0 && b[k] != 0 && a[k] != b[k]:
			replaced = true
		case a[k] != 0 && b[k] == 0:
			removed = true
		case a[k] == 0 && b[k] != 0:
			added = true
		}
	}
	var parts []string
	if removed {
		parts = append(parts, "delete")
	}
	if added {
		parts = append(parts, "add")
	}
	if replaced {
		parts = append(parts, "replace")
	}
	if len(parts) == 0 {
		parts = []string{"no-edit"}
	}
	size := "same-size"
	if na != nb {
		size = "different-size"
	}
	return strings.Join(parts, "+") + "," + size
}

func historySpaces(tier string) []kit.Space {
	mk := func(name string, length int, modes []int) kit.Space {
		radices := []uint64{7, uint64(len(modes))}
		for i := 0; i < length; i++ {
			radices = append(radices, numContents)
		}
		at := func(i uint64) history {
			d := kit.Mixed(i, radices...)
			h := history{mode: modes[d[1]], refs: int(d[0]) + 1}
			for k := 0; k < length; k++ {
				h.contents = append(h.contents, contentAt(d[2+k]))
			}
			return h
		}
		return kit.Space{Name: name, Size: kit.Product(radices...),
			Eval: func(i uint64) kit.Outcome { return runHistory(at(i)) },
			Describe: func(i uint64) any {
				h := at(i)
				files, _, _ := h.source()
				m := map[string]string{}
				for n, s := range files {
					m[n] = string(s)
				}
				return map[string]any{"history": h.describe(), "files": m}
			}}
	}
	all := []int{0, 1, 2, 3}
	sps := []kit.Space{mk("histories.2builds", 2, all)}
	if tier == "thorough" {
		sps = append(sps, mk("histories.3builds", 3, all))
	} else {
		sps = append(sps, mk("histories.3builds", 3, []int{0, 2}))
	}
	return sps
}
