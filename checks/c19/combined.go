package main

// Class (2): CombinedImporter / CombinedPackage precedence and refusals.
// Class (3): import form × name kind grid: an unexported name of a native
// package must never become reachable.

import (
	"errors"
	"fmt"
	"reflect"
	"runtime/debug"
	"sort"
	"strings"
	"unicode"
	"unicode/utf8"

	"verif/kit"

	"github.com/open2b/scriggo"
	"github.com/open2b/scriggo/native"
)

// buildAndRun builds and runs, returning the supplied functions entered.
func buildAndRun(program bool, files map[string]string, entry string, opts *scriggo.BuildOptions) (buildErr error, entered []string, out string, key string, detail string) {
	fsys := scriggo.Files{}
	var names []string
	for n, s := range files {
		fsys[n] = []byte(s)
		names = append(names, n)
	}
	sort.Strings(names)
	for _, n := range names {
		detail += "--- " + n + "\n" + files[n] + "\n"
	}
	var run func(*scriggo.RunOptions) error
	var wb strings.Builder
	var hostPanic any
	var stack string
	func() {
		defer func() {
			if hostPanic = recover(); hostPanic != nil {
				stack = string(debug.Stack())
			}
		}()
		if program {
			p, err := scriggo.Build(fsys, opts)
			if err != nil {
				buildErr = err
				return
			}
			run = p.Run
		} else {
			t, err := scriggo.BuildTemplate(fsys, entry, opts)
			if err != nil {
				buildErr = err
				return
			}
			run = func(o *scriggo.RunOptions) error { return t.Run(&wb, nil, o) }
		}
	}()
	if hostPanic != nil {
		return nil, nil, "", "hostpanic|" + kit.FirstRepoFrame(stack) + "|" + kit.NormMsg(fmt.Sprint(hostPanic)) + "|during Build", detail + fmt.Sprintf("Build panicked: %v", hostPanic)
	}
	if buildErr != nil {
		var be *scriggo.BuildError
		if !errors.As(buildErr, &be) {
			return buildErr, nil, "", "build-error-is-not-a-*BuildError|" + fmt.Sprintf("%T", buildErr), detail + buildErr.Error()
		}
		return buildErr, nil, "", "", detail
	}
	mu.Lock()
	wlog, hlog, plog = nil, nil, nil
	mu.Unlock()
	var pb strings.Builder
	var runErr error
	func() {
		defer func() {
			if hostPanic = recover(); hostPanic != nil {
				stack = string(debug.Stack())
			}
		}()
		runErr = run(&scriggo.RunOptions{Print: func(v any) { fmt.Fprint(&pb, v) }})
	}()
	if hostPanic != nil {
		return nil, nil, "", "hostpanic|" + kit.FirstRepoFrame(stack) + "|" + kit.NormMsg(fmt.Sprint(hostPanic)), detail + fmt.Sprintf("Run panicked: %v", hostPanic)
	}
	if runErr != nil {
		return nil, nil, "", "run-error|" + kit.NormMsg(runErr.Error()), detail + runErr.Error()
	}
	mu.Lock()
	entered = append([]string{}, wlog...)
	mu.Unlock()
	return nil, entered, pb.String() + wb.String(), "", detail
}

// ---- CombinedImporter ----

type memberImporter struct {
	id      int
	outcome int // 0 package, 1 not found, 2 refusal
}

func (m memberImporter) Import(path string) (native.ImportablePackage, error) {
	if path != "p" {
		return nil, nil
	}
	switch m.outcome {
	case 0:
		id := fmt.Sprintf("member%d.F", m.id)
		return native.Package{Name: "p", Declarations: native.Declarations{"F": func() string { enter(id); return id }}}, nil
	case 2:
		return nil, fmt.Errorf("member %d refuses p", m.id)
	}
	return nil, nil
}

var memberOutcomes = []string{"returns the package", "does not have it (nil, nil)", "refuses (nil, err)"}
var importerShapes = []string{"CombinedImporter{A, B, C}", "CombinedImporter{CombinedImporter{A, B}, C}", "CombinedImporter{A, CombinedImporter{B, C}}"}

func combinedImporterSpace() kit.Space {
	radices := []uint64{2, uint64(len(importerShapes)), 3, 3, 3}
	return kit.Space{Name: "combined-importer", Size: kit.Product(radices...),
		Eval: func(i uint64) kit.Outcome {
			d := kit.Mixed(i, radices...)
			program := d[0] == 0
			ms := []native.Importer{memberImporter{1, int(d[2])}, memberImporter{2, int(d[3])}, memberImporter{3, int(d[4])}}
			var imp native.Importer
			switch d[1] {
			case 0:
				imp = native.CombinedImporter{ms[0], ms[1], ms[2]}
			case 1:
				imp = native.CombinedImporter{native.CombinedImporter{ms[0], ms[1]}, ms[2]}
			default:
				imp = native.CombinedImporter{ms[0], native.CombinedImporter{ms[1], ms[2]}}
			}
			// expected: the first member that returns a package or an error decides
			want := "BuildError (no member has the package)"
			for k, o := range []int{int(d[2]), int(d[3]), int(d[4])} {
				if o == 0 {
					want = fmt.Sprintf("member%d.F", k+1)
					break
				}
				if o == 2 {
					want = fmt.Sprintf("BuildError (member %d refuses)", k+1)
					break
				}
			}
			files, entry := map[string]string{"main.go": "package main\nimport \"p\"\nfunc main() {\n\tprint(p.F())\n}\n"}, ""
			if !program {
				files, entry = map[string]string{"index.html": "{% import \"p\" %}{{ p.F() }}"}, "index.html"
			}
			what := fmt.Sprintf("%s with A %s, B %s, C %s\n", importerShapes[d[1]], memberOutcomes[d[2]], memberOutcomes[d[3]], memberOutcomes[d[4]])
			berr, entered, _, key, detail := buildAndRun(program, files, entry, &scriggo.BuildOptions{Packages: imp})
			detail = what + detail + fmt.Sprintf("expected: %s\nobserved: build error %v, functions entered %v", want, berr, entered)
			if key != "" {
				return kit.Outcome{Key: key, Detail: detail, Class: "fail", Nontrivial: true}
			}
			if strings.HasPrefix(want, "BuildError") {
				if berr == nil {
					k := "combined-importer|a later member overrides an earlier refusal"
					if strings.Contains(want, "no member") {
						k = "combined-importer|build succeeds although no member has the package"
					}
					return kit.Outcome{Key: k, Detail: detail, Class: "fail", Nontrivial: true}
				}
				return kit.Outcome{OK: true, Class: "combined importer: " + strings.SplitN(want, " (member", 2)[0], Nontrivial: true}
			}
			if berr != nil {
				return kit.Outcome{Key: "combined-importer|build fails although the deciding member returns the package", Detail: detail, Class: "fail", Nontrivial: true}
			}
			if len(entered) != 1 || entered[0] != want {
				return kit.Outcome{Key: "combined-importer|the package executed is not the first member's", Detail: detail, Class: "fail", Nontrivial: true}
			}
			return kit.Outcome{OK: true, Class: "combined importer: the first member's package runs", Nontrivial: true}
		},
		Describe: func(i uint64) any {
			d := kit.Mixed(i, radices...)
			return map[string]any{"shape": importerShapes[d[1]], "A": memberOutcomes[d[2]], "B": memberOutcomes[d[3]], "C": memberOutcomes[d[4]], "program": d[0] == 0}
		}}
}

// ---- CombinedPackage ----

// a name in a member: absent, declared with a nil value, declared as a function
var declStates = []string{"absent", "declared nil", "declared"}

var cpForms = []string{"program p.X()", "program dot import", "template import", "template dot import", "template Globals holding the package", "template import for X"}

func combinedPackageSpace() kit.Space {
	// two names X, Y; three members would square the space: two members, third optional
	radices := []uint64{uint64(len(cpForms)), 3, 3, 3, 3} // X in sandbox, X in real, Y in sandbox, Y in real
	mk := func(member string, x, y int) native.Package {
		d := native.Declarations{}
		for n, st := range map[string]int{"X": x, "Y": y} {
			switch st {
			case 1:
				d[n] = nil
			case 2:
				id := member + "." + n
				d[n] = func() string { enter(id); return id }
			}
		}
		return native.Package{Name: "p", Declarations: d}
	}
	resolve := func(a, b int) string { // which member's declaration must be bound
		if a == 2 {
			return "sandbox"
		}
		if b == 2 && a == 0 {
			return "real"
		}
		if b == 2 && a == 1 {
			return "real-or-refused" // a nil declaration in the first member: Lookup's contract says it does not exist
		}
		return ""
	}
	return kit.Space{Name: "combined-package", Size: kit.Product(radices...),
		Eval: func(i uint64) kit.Outcome {
			d := kit.Mixed(i, radices...)
			form := int(d[0])
			xs, xr, ys, yr := int(d[1]), int(d[2]), int(d[3]), int(d[4])
			cp := native.CombinedPackage{mk("sandbox", xs, ys), mk("real", xr, yr)}
			what := fmt.Sprintf("CombinedPackage{sandbox, real}: X %s in sandbox, %s in real; Y %s in sandbox, %s in real; form: %s\n", declStates[xs], declStates[xr], declStates[ys], declStates[yr], cpForms[form])
			// Lookup / LookupFunc agreement (public API of the combined package)
			listed := map[string]native.Declaration{}
			dup := false
			cp.LookupFunc(func(name string, decl native.Declaration) error {
				if _, ok := listed[name]; ok {
					dup = true
				}
				listed[name] = decl
				return nil
			})
			if dup {
				return kit.Outcome{Key: "combined-package|LookupFunc reports a name twice", Detail: what, Class: "fail", Nontrivial: true}
			}
			for _, n := range []string{"X", "Y"} {
				l := cp.Lookup(n)
				ld, isListed := listed[n]
				same := (l == nil && (!isListed || ld == nil)) || (l != nil && isListed && ld != nil && reflect.ValueOf(l).Pointer() == reflect.ValueOf(ld).Pointer())
				if !same {
					// A disagreement caused by a nil declaration (which the embedder should
					// not supply) is a contract question of the two lookup methods: C22's
					// business, observed here. Any other disagreement goes on to the build
					// below, where what is bound and executed decides.
					if l == nil || !isListed || ld == nil {
						return kit.Outcome{OK: true, Class: "observed: Lookup and LookupFunc disagree on a name whose first declaration is nil (see C22)", Nontrivial: true}
					}
				}
			}
			// the build: both names are used
			var files map[string]string
			entry := ""
			program := form < 2
			opts := &scriggo.BuildOptions{Packages: native.Packages{"p": cp}}
			switch form {
			case 0:
				files = map[string]string{"main.go": "package main\nimport \"p\"\nfunc main() {\n\tprint(p.X(), p.Y())\n}\n"}
			case 1:
				files = map[string]string{"main.go": "package main\nimport . \"p\"\nfunc main() {\n\tprint(X(), Y())\n}\n"}
			case 2:
				files, entry = map[string]string{"index.html": "{% import \"p\" %}{{ p.X() }}{{ p.Y() }}"}, "index.html"
			case 3:
				files, entry = map[string]string{"index.html": "{% import . \"p\" %}{{ X() }}{{ Y() }}"}, "index.html"
			case 4:
				files, entry = map[string]string{"index.html": "{{ p.X() }}{{ p.Y() }}"}, "index.html"
				opts = &scriggo.BuildOptions{Globals: native.Declarations{"p": cp}}
			case 5:
				files, entry = map[string]string{"index.html": "{% import \"p\" for X, Y %}{{ X() }}{{ Y() }}"}, "index.html"
			}
			rx, ry := resolve(xs, xr), resolve(ys, yr)
			berr, entered, _, key, detail := buildAndRun(program, files, entry, opts)
			detail = what + detail + fmt.Sprintf("expected binding: X → %q, Y → %q (\"\" = not declared: build error)\nobserved: build error %v, functions entered %v", rx, ry, berr, entered)
			if key != "" && strings.Contains(key, "cannot import p.") && (xs == 1 || xr == 1 || ys == 1 || yr == 1) {
				// a nil declaration is not a valid native.Declaration: Build panics on the embedder's mistake
				return kit.Outcome{OK: true, Class: "combined package: Build panics on a nil declaration (invalid input of the embedder)", Nontrivial: true}
			}
			if key != "" {
				return kit.Outcome{Key: key, Detail: detail, Class: "fail", Nontrivial: true}
			}
			if rx == "" || ry == "" {
				if berr == nil {
					return kit.Outcome{Key: "combined-package|build succeeds although a name is declared in no member", Detail: detail, Class: "fail", Nontrivial: true}
				}
				return kit.Outcome{OK: true, Class: "combined package: BuildError (a name is not declared)", Nontrivial: true}
			}
			if berr != nil {
				if rx == "real-or-refused" || ry == "real-or-refused" {
					return kit.Outcome{OK: true, Class: "combined package: BuildError (first declaration is nil)", Nontrivial: true}
				}
				return kit.Outcome{Key: "combined-package|build fails although every name is declared", Detail: detail, Class: "fail", Nontrivial: true}
			}
			sort.Strings(entered)
			for _, e := range entered {
				n := e[len(e)-1:]
				r := map[string]string{"X": rx, "Y": ry}[n]
				if r == "real-or-refused" {
					r = "real"
				}
				if !strings.HasPrefix(e, r+".") {
					return kit.Outcome{Key: "combined-package|the declaration executed is not the first member's", Detail: detail, Class: "fail", Nontrivial: true}
				}
			}
			if len(entered) != 2 {
				return kit.Outcome{Key: "combined-package|not both functions were executed", Detail: detail, Class: "fail", Nontrivial: true}
			}
			return kit.Outcome{OK: true, Class: "combined package: the first member's declarations run", Nontrivial: true}
		},
		Describe: func(i uint64) any {
			d := kit.Mixed(i, radices...)
			return map[string]any{"form": cpForms[d[0]], "X": []string{declStates[d[1]], declStates[d[2]]}, "Y": []string{declStates[d[3]], declStates[d[4]]}}
		}}
}

// ---- import form × name kind ----

type gridName struct {
	name  string
	kind  string // func, var, const, type
	class string
}

var gridNames = []gridName{
	{"F", "func", "exported"}, {"V", "var", "exported"}, {"C", "const", "exported"}, {"T", "type", "exported"},
	{"f", "func", "unexported"}, {"v", "var", "unexported"}, {"c", "const", "unexported"}, {"t", "type", "unexported"},
	{"hidden", "func", "unexported"}, {"_under", "func", "unexported"},
	{"len", "func", "shadows a builtin"}, {"print", "func", "shadows a builtin"}, {"new", "func", "shadows a builtin"}, {"string", "type", "shadows a builtin"}, {"true", "const", "shadows a builtin"},
	{"Élan", "func", "unicode upper case"}, {"Ωmega", "func", "unicode upper case"},
	{"élan", "func", "unicode lower case"}, {"ωmega", "func", "unicode lower case"}, {"日本", "func", "unicode without case"},
}

type GT struct{ N int }

func isExported(name string) bool {
	r, _ := utf8.DecodeRuneInString(name)
	return unicode.IsUpper(r)
}

var gridForms = []string{"plain", "alias", "dot", "blank", "for"}
var gridWheres = []string{"program", "template", "imported template file", "extended layout file", "rendered partial file"}

func gridDecls() native.Declarations {
	d := native.Declarations{}
	for _, g := range gridNames {
		id := "p." + g.name
		switch g.kind {
		case "func":
			switch g.name {
			case "len":
				d[g.name] = func(s string) int { enter(id); return 99 }
			case "print":
				d[g.name] = func(s string) { enter(id) }
			case "new":
				d[g.name] = func(s string) int { enter(id); return 99 }
			default:
				d[g.name] = func() string { enter(id); return id }
			}
		case "var":
			v := 7
			d[g.name] = &v
		case "const":
			if g.name == "true" {
				d[g.name] = false
			} else {
				d[g.name] = 7
			}
		case "type":
			d[g.name] = reflect.TypeOf(GT{})
		}
	}
	return d
}

// use returns the statement using the name through the qualifier q ("" for dot).
func (g gridName) use(q string, tmpl bool) string {
	n := q + g.name
	var st string
	switch g.kind {
	case "func":
		switch g.name {
		case "len", "new":
			st = "_ = " + n + `("ab")`
		case "print":
			st = n + `("ab")`
		default:
			st = "_ = " + n + "()"
		}
	case "var", "const":
		st = "_ = " + n
	case "type":
		st = "var x " + n + "\n_ = x"
	}
	return st
}

func importGridSpace() kit.Space {
	radices := []uint64{uint64(len(gridForms)), uint64(len(gridWheres)), uint64(len(gridNames))}
	type gcase struct {
		g           gridName
		form, where int
	}
	at := func(i uint64) gcase {
		d := kit.Mixed(i, radices...)
		return gcase{gridNames[d[2]], int(d[0]), int(d[1])}
	}
	source := func(c gcase) (files map[string]string, entry string, program bool, na string) {
		q := ""
		var imp string
		switch c.form {
		case 0:
			imp, q = `"p"`, "p."
		case 1:
			imp, q = `q "p"`, "q."
		case 2:
			imp = `. "p"`
		case 3:
			imp = `_ "p"`
		case 4:
			imp = `"p" for ` + c.g.name
		}
		use := c.g.use(q, c.where != 0)
		if c.where == 0 {
			if c.form == 4 {
				return nil, "", true, "programs have no import-for form"
			}
			return map[string]string{"main.go": "package main\nimport " + imp + "\nfunc main() {\n\t" + strings.ReplaceAll(use, "\n", "\n\t") + "\n}\n"}, "", true, ""
		}
		code := "{% import " + imp + " %}{%%\n" + use + "\n%%}"
		switch c.where {
		case 1:
			return map[string]string{"index.html": code + "ok"}, "index.html", false, ""
		case 2:
			return map[string]string{"index.html": "{% import \"imp.html\" %}{{ M() }}", "imp.html": "{% import " + imp + " %}{% macro M %}{%%\n" + use + "\n%%}m{% end %}"}, "index.html", false, ""
		case 3:
			return map[string]string{"index.html": "{% extends \"layout.html\" %}{% macro Body %}b{% end %}", "layout.html": code + "{{ Body() }}"}, "index.html", false, ""
		}
		return map[string]string{"index.html": "a{{ render \"part.html\" }}z", "part.html": code + "p"}, "index.html", false, ""
	}
	return kit.Space{Name: "import-grid", Size: kit.Product(radices...),
		Eval: func(i uint64) kit.Outcome {
			c := at(i)
			files, entry, program, na := source(c)
			if na != "" {
				return kit.Outcome{OK: true, Class: "n/a: " + na}
			}
			berr, entered, _, key, detail := buildAndRun(program, files, entry, &scriggo.BuildOptions{Packages: native.Packages{"p": native.Package{Name: "p", Declarations: gridDecls()}}})
			exported := isExported(c.g.name)
			what := fmt.Sprintf("name %q (%s, %s) of the native package p; import form %s; in a %s; exported by Go's rule: %v\n", c.g.name, c.g.kind, c.g.class, gridForms[c.form], gridWheres[c.where], exported)
			detail = what + detail + fmt.Sprintf("observed: build error %v; functions of p entered: %v", berr, entered)
			if key != "" {
				return kit.Outcome{Key: key + "|in=import-grid", Detail: detail, Class: "fail", Nontrivial: true}
			}
			ctx := "|form=" + gridForms[c.form] + "|" + c.g.class
			reached := false
			for _, e := range entered {
				if e == "p."+c.g.name {
					reached = true
				}
			}
			switch {
			case c.form == 3:
				// blank import: nothing of p is reachable; the name is undefined or a builtin
				if reached {
					return kit.Outcome{Key: "import-grid|a name of a blank-imported package was executed" + ctx, Detail: detail, Class: "fail", Nontrivial: true}
				}
				return kit.Outcome{OK: true, Class: "import grid: blank import, nothing reachable", Nontrivial: true}
			case exported:
				if berr != nil {
					return kit.Outcome{Key: "import-grid|an exported name is not reachable" + ctx, Detail: detail, Class: "fail", Nontrivial: true}
				}
				if c.g.kind == "func" && !reached {
					return kit.Outcome{Key: "import-grid|the exported function was not the one executed" + ctx, Detail: detail, Class: "fail", Nontrivial: true}
				}
				return kit.Outcome{OK: true, Class: "import grid: exported name reachable", Nontrivial: true}
			default:
				if reached {
					return kit.Outcome{Key: "import-grid|an unexported function of a native package was executed" + ctx, Detail: detail, Class: "fail", Nontrivial: true}
				}
				if berr == nil && c.g.class != "shadows a builtin" {
					return kit.Outcome{Key: "import-grid|the build accepts a reference to an unexported name" + ctx, Detail: detail, Class: "fail", Nontrivial: true}
				}
				if berr == nil && (c.form == 0 || c.form == 1 || c.form == 4) {
					// p.len, q.len, import "p" for len: the qualified / listed name is p's, never the builtin
					return kit.Outcome{Key: "import-grid|the build accepts a reference to an unexported name" + ctx, Detail: detail, Class: "fail", Nontrivial: true}
				}
				if berr == nil {
					return kit.Outcome{OK: true, Class: "import grid: the builtin, not the package's unexported name, is used", Nontrivial: true}
				}
				return kit.Outcome{OK: true, Class: "import grid: unexported name rejected", Nontrivial: true}
			}
		},
		Describe: func(i uint64) any {
			c := at(i)
			files, _, _, na := source(c)
			return map[string]any{"name": c.g.name, "kind": c.g.kind, "class": c.g.class, "form": gridForms[c.form], "where": gridWheres[c.where], "files": files, "na": na}
		}}
}
