package main

// Round 2 of C22:
//
//   - Package.direct: error propagation of callbacks directly on
//     native.Package (CombinedPackage wraps the callback and could hide a
//     defect): nil / StopLookup / a custom error value / a wrapped StopLookup
//     at every position.
//   - nilgrid: nil-valued declarations. Package.Lookup "returns the declaration
//     ... or nil if no such declaration exists", so an entry whose value is nil
//     does not exist for Lookup; LookupFunc "calls f for each package
//     declaration" must then agree with Lookup: the names it reports are the
//     names Lookup finds, with the same declaration. Complete lookups only
//     (with an interrupted lookup the random map order of native.Package
//     would make the verdict depend on the run).
//   - history: sequences of 2-3 operations on the same value, on two values,
//     and on two values sharing their members: every operation must behave as
//     on a fresh value (the reference model is stateless).
//   - CombinedImporter.typednil: importers that return a typed-nil package or
//     a nil interface stored in native.Packages.

import (
	"errors"
	"fmt"
	"strings"

	"verif/kit"

	"github.com/open2b/scriggo/native"
)

var names4 = []string{"a", "b", "c", "d"}

type customErr struct{ s string }

func (e *customErr) Error() string { return e.s }

const (
	actNil = iota
	actStop
	actCustom
	actWrappedStop
	numActs
)

var actNames = []string{"nil", "native.StopLookup", "a custom error value (&customErr{\"E\"})", "fmt.Errorf(\"w: %w\", native.StopLookup)"}

func makeAct(a int) error {
	switch a {
	case actStop:
		return native.StopLookup
	case actCustom:
		return &customErr{"E"}
	case actWrappedStop:
		return fmt.Errorf("w: %w", native.StopLookup)
	}
	return nil
}

// callbackKA returns act at call k and nil at every other call.
func callbackKA(k int, act error) (native.LookupFunc, *[]call) {
	calls := &[]call{}
	return func(name string, decl native.Declaration) error {
		*calls = append(*calls, call{name, decl})
		if act != nil && len(*calls) == k {
			return act
		}
		return nil
	}, calls
}

// triPkg builds a native.Package from a tri-state per name: 0 absent, 1 a
// value, 2 a nil value. The model has the non-nil entries only.
func triPkg(slot int, names []string, tri []uint64) (native.Package, modelPkg, []string) {
	name := fmt.Sprintf("p%d", slot)
	d := native.Declarations{}
	m := modelPkg{name: name, decls: map[string]string{}}
	var desc []string
	for i, n := range names {
		switch tri[i] {
		case 1:
			v := name + "." + n
			d[n] = v
			m.decls[n] = v
			m.names = append(m.names, n)
			desc = append(desc, fmt.Sprintf("%q: %q", n, v))
		case 2:
			d[n] = nil
			desc = append(desc, fmt.Sprintf("%q: nil", n))
		}
	}
	return native.Package{Name: name, Declarations: d}, m, []string{"native.Package{" + strings.Join(desc, ", ") + "}"}
}

// ---- Package.direct ----

func packageDirectSpace() kit.Space {
	const maxPos = 5
	radices := []uint64{numActs, maxPos, 16}
	return kit.Space{
		Name: "Package.direct",
		Size: kit.Product(radices...),
		Eval: func(i uint64) kit.Outcome {
			d := kit.Mixed(i, radices...)
			a, k, mask := int(d[0]), int(d[1])+1, d[2]
			if a == actNil && k > 1 {
				return kit.Outcome{OK: true, Class: "non-canonical(nil at every position is one behaviour)"}
			}
			tri := make([]uint64, 4)
			for j := range tri {
				tri[j] = mask >> j & 1
			}
			p, m, desc := triPkg(0, names4, tri)
			act := makeAct(a)
			f, calls := callbackKA(k, act)
			ret := p.LookupFunc(f)
			input := func() string {
				return fmt.Sprintf("%s.LookupFunc(callback returning %s at call %d, nil otherwise)", desc[0], actNames[a], k)
			}
			if c, det := checkLookupFuncKA([]modelPkg{m}, k, act, *calls, ret); c != "" {
				return fail("Package", "LookupFunc", c, input, det)
			}
			o := kit.Outcome{OK: true, Ops: len(*calls) + 1, Nontrivial: len(m.names) > 0}
			switch {
			case act == nil || k > len(m.names):
				o.Class = "direct:all-declarations-visited"
			default:
				o.Class = "direct:stopped-by-" + []string{"", "StopLookup", "custom-error", "wrapped-StopLookup"}[a]
			}
			return o
		},
		Describe: func(i uint64) any {
			d := kit.Mixed(i, radices...)
			return map[string]any{"callback_returns": actNames[d[0]], "at_call": d[1] + 1, "declared_names_mask(a,b,c,d)": d[2]}
		},
	}
}

// ---- nilgrid ----

// coherence checks a complete LookupFunc against Lookup and the model.
func coherence(typ string, p native.ImportablePackage, model []modelPkg, universe []string, input func() string) (kit.Outcome, bool) {
	f, calls := callbackKA(0, nil)
	ret := p.LookupFunc(f)
	reported := map[string]native.Declaration{}
	for _, c := range *calls {
		if _, dup := reported[c.name]; dup {
			return fail(typ, "LookupFunc", "callback-called-twice-for-one-name", input, c.name), false
		}
		reported[c.name] = c.decl
	}
	// the two methods against each other
	for _, n := range append(append([]string{}, universe...), "zz") {
		got := p.Lookup(n)
		rep, isRep := reported[n]
		if got != rep {
			return fail(typ, "Lookup", "and-LookupFunc-disagree-on-the-declaration-of-a-name", input,
				fmt.Sprintf("Lookup(%q) = %v, but a complete LookupFunc reports (%q, %v) [reported at all: %v]; Lookup: \"If the declaration does not exist, it returns nil\", LookupFunc: \"calls f for each package declaration\"", n, got, n, rep, isRep)), false
		}
	}
	for _, c := range *calls {
		if c.decl == nil {
			return fail(typ, "LookupFunc", "reports-a-nil-declaration-that-Lookup-defines-as-not-existing", input,
				fmt.Sprintf("LookupFunc called f(%q, nil) while Lookup(%q) = nil means that no such declaration exists", c.name, c.name)), false
		}
	}
	// both against the model (entries with a nil value are not declarations)
	if c, det := checkLookup(model, p); c != "" {
		return fail(typ, "Lookup", c, input, det), false
	}
	if c, det := checkLookupFuncKA(model, 0, nil, *calls, ret); c != "" {
		return fail(typ, "LookupFunc", c, input, det), false
	}
	return kit.Outcome{OK: true, Ops: len(*calls) + len(universe) + 1}, true
}

func pow(b uint64, e int) uint64 {
	r := uint64(1)
	for ; e > 0; e-- {
		r *= b
	}
	return r
}

// nilGridSpace: members native.Packages over names, every tri-state grid.
func nilGridSpace(name string, members int, names []string, wrap bool) kit.Space {
	per := pow(3, len(names))
	size := pow(per, members)
	build := func(i uint64) (native.ImportablePackage, []modelPkg, string, bool) {
		var pk []native.ImportablePackage
		var model []modelPkg
		var desc []string
		hasNil := false
		for j := 0; j < members; j++ {
			g := i % per
			i /= per
			tri := make([]uint64, len(names))
			for x := range tri {
				tri[x] = g % 3
				g /= 3
				if tri[x] == 2 {
					hasNil = true
				}
			}
			p, m, d := triPkg(j, names, tri)
			pk = append(pk, p)
			model = append(model, m)
			desc = append(desc, d[0])
		}
		if !wrap {
			return pk[0], model, desc[0], hasNil
		}
		return native.CombinedPackage(pk), model, "native.CombinedPackage{" + strings.Join(desc, ", ") + "}", hasNil
	}
	typ := "Package"
	if wrap {
		typ = "CombinedPackage"
	}
	return kit.Space{
		Name: name,
		Size: size,
		Eval: func(i uint64) kit.Outcome {
			p, model, desc, hasNil := build(i)
			o, okay := coherence(typ, p, model, names, func() string { return desc })
			if !okay {
				return o
			}
			o.Nontrivial = hasNil
			o.Class = "nilgrid:no-nil-entry"
			if hasNil {
				o.Class = "nilgrid:with-nil-entries"
			}
			return o
		},
		Describe: func(i uint64) any { _, _, desc, _ := build(i); return desc },
	}
}

// ---- history ----

var historySets = [][]string{{"a"}, {"a", "b"}, {"b", "c"}, {"a", "b", "c", "d"}, {"c", "d"}, {"d"}}

type hvalue struct {
	p       native.ImportablePackage
	model   []modelPkg
	desc    string
	typ     string
	members []native.ImportablePackage
}

func setPkg(slot int, set []string) (native.ImportablePackage, modelPkg) {
	tri := make([]uint64, 4)
	for j, n := range names4 {
		for _, s := range set {
			if s == n {
				tri[j] = 1
			}
		}
	}
	p, m, _ := triPkg(slot, names4, tri)
	return p, m
}

func ordMember(slot int, order []string) (native.ImportablePackage, modelPkg) {
	name := fmt.Sprintf("p%d", slot)
	p := &ordPkg{name: name, order: order, decls: map[string]native.Declaration{}}
	m := modelPkg{name: name, ordered: true, decls: map[string]string{}, names: append([]string{}, order...)}
	for _, n := range order {
		p.decls[n] = name + "." + n
		m.decls[n] = name + "." + n
	}
	return p, m
}

const numHistoryValues = 6 + 36 + 2

// historyValue builds value v afresh.
func historyValue(v int) hvalue {
	switch {
	case v < 6:
		p, m := setPkg(0, historySets[v])
		return hvalue{p, []modelPkg{m}, m.String(), "Package", []native.ImportablePackage{p}}
	case v < 42:
		x, y := (v-6)/6, (v-6)%6
		p0, m0 := setPkg(0, historySets[x])
		p1, m1 := setPkg(1, historySets[y])
		return hvalue{native.CombinedPackage{p0, p1}, []modelPkg{m0, m1}, "CombinedPackage" + describeModel([]modelPkg{m0, m1}), "CombinedPackage", []native.ImportablePackage{p0, p1}}
	case v == 42:
		p0, m0 := ordMember(0, []string{"c", "a"})
		p1, m1 := setPkg(1, historySets[3])
		return hvalue{native.CombinedPackage{p0, p1}, []modelPkg{m0, m1}, "CombinedPackage" + describeModel([]modelPkg{m0, m1}), "CombinedPackage", []native.ImportablePackage{p0, p1}}
	}
	p0, m0 := setPkg(0, historySets[1])
	p1, m1 := ordMember(1, []string{"d", "b"})
	return hvalue{native.CombinedPackage{p0, p1}, []modelPkg{m0, m1}, "CombinedPackage" + describeModel([]modelPkg{m0, m1}), "CombinedPackage", []native.ImportablePackage{p0, p1}}
}

// second value of a history: 0 none, 1 and 2 fixed other values, 3 another
// CombinedPackage made of the SAME member values in reverse order.
var otherNames = []string{"", "other-value", "other-value", "value-sharing-members"}

func otherValue(kind int, v0 hvalue) hvalue {
	switch kind {
	case 1:
		return historyValue(6 + 1*6 + 2) // CombinedPackage[{a,b};{b,c}]
	case 2:
		return historyValue(42)
	}
	var pk []native.ImportablePackage
	var model []modelPkg
	for j := len(v0.members) - 1; j >= 0; j-- {
		pk = append(pk, v0.members[j])
		m := v0.model[j]
		model = append(model, m)
	}
	return hvalue{native.CombinedPackage(pk), model, "CombinedPackage(same member values, reversed)" + describeModel(model), "CombinedPackage", pk}
}

// operation kinds: 0 complete; 1..4 StopLookup at call k; 5..8 custom error at call k; 9..13 Lookup(a,b,c,d,e)
const numHistoryOps = 14

func opClass(op int) string {
	switch {
	case op == 0:
		return "complete-LookupFunc"
	case op <= 4:
		return "LookupFunc-stopped-by-StopLookup"
	case op <= 8:
		return "LookupFunc-stopped-by-an-error"
	}
	return "Lookup"
}

func opString(op int) string {
	switch {
	case op == 0:
		return "LookupFunc(complete)"
	case op <= 4:
		return fmt.Sprintf("LookupFunc(StopLookup at call %d)", op)
	case op <= 8:
		return fmt.Sprintf("LookupFunc(custom error at call %d)", op-4)
	}
	return fmt.Sprintf("Lookup(%q)", append(append([]string{}, names4...), "e")[op-9])
}

// runOp executes one operation and checks it against the stateless model.
func runOp(v hvalue, op int) (class, detail string) {
	if op >= 9 {
		n := append(append([]string{}, names4...), "e")[op-9]
		var want native.Declaration
		for _, m := range v.model {
			if d, ok := m.decls[n]; ok {
				want = d
				break
			}
		}
		if got := v.p.Lookup(n); got != want {
			return "Lookup-returns-another-declaration", fmt.Sprintf("Lookup(%q) = %v, want %v", n, got, want)
		}
		return "", ""
	}
	k, act := 0, error(nil)
	switch {
	case op >= 5:
		k, act = op-4, &customErr{"E"}
	case op >= 1:
		k, act = op, native.StopLookup
	}
	f, calls := callbackKA(k, act)
	ret := v.p.LookupFunc(f)
	return checkLookupFuncKA(v.model, k, act, *calls, ret)
}

func historySpace(thorough bool) kit.Space {
	seqs := kit.NewStringsUpTo([]string{"0", "1", "2", "3", "4", "5", "6", "7", "8", "9", "a", "b", "c", "d"}, 3)
	first := uint64(1 + numHistoryOps) // sequences of length < 2 are skipped
	nSeq := seqs.Size() - first
	patterns := uint64(1) // quick: operations alternate between the two values (0,1,0)
	if thorough {
		patterns = 7 // every assignment of operations to the two values except "all on the first"
	}
	radices := []uint64{nSeq, patterns, 4, numHistoryValues}
	type hc struct {
		ops     []int
		targets []int
		kind    int
		v       int
		canon   bool
	}
	decode := func(i uint64) hc {
		d := kit.Mixed(i, radices...)
		c := hc{ops: seqs.Atoms(d[0] + first), kind: int(d[2]), v: int(d[3]), canon: true}
		bits := 0b010
		if thorough {
			bits = int(d[1]) + 1
		}
		for j := range c.ops {
			t := 0
			if c.kind != 0 {
				t = bits >> j & 1
			}
			c.targets = append(c.targets, t)
		}
		if c.kind == 0 && d[1] != 0 {
			c.canon = false // one value only: a single pattern
		}
		if thorough && c.kind != 0 && bits>>len(c.ops) != 0 {
			c.canon = false // pattern bits beyond the sequence
		}
		return c
	}
	describe := func(c hc) string {
		v0 := historyValue(c.v)
		s := "v0 := " + v0.desc
		if c.kind != 0 {
			s += "; v1 := " + otherValue(c.kind, v0).desc
		}
		for j, op := range c.ops {
			s += fmt.Sprintf("; v%d.%s", c.targets[j], opString(op))
		}
		return s
	}
	return kit.Space{
		Name: "history",
		Size: kit.Product(radices...),
		Eval: func(i uint64) kit.Outcome {
			c := decode(i)
			if !c.canon {
				return kit.Outcome{OK: true, Class: "non-canonical"}
			}
			input := func() string { return describe(c) }
			// baseline: every operation of the history on fresh values. A failure
			// here is not a matter of history and gets the plain key.
			for j, op := range c.ops {
				fresh := []hvalue{historyValue(c.v)}
				if c.kind != 0 {
					fresh = append(fresh, otherValue(c.kind, fresh[0]))
				}
				v := fresh[c.targets[j]]
				if class, det := runOp(v, op); class != "" {
					method := "LookupFunc"
					if op >= 9 {
						method = "Lookup"
					}
					return fail(v.typ, method, class, func() string { return v.desc + "." + opString(op) + " (on a fresh value)" }, det)
				}
			}
			vals := []hvalue{historyValue(c.v)}
			if c.kind != 0 {
				vals = append(vals, otherValue(c.kind, vals[0]))
			}
			earlier := "Lookup"
			for j, op := range c.ops {
				v := vals[c.targets[j]]
				class, det := runOp(v, op)
				if class != "" {
					what := "LookupFunc"
					if op >= 9 {
						what = "Lookup"
					}
					where := "the same value"
					if c.kind != 0 {
						where = "two values (" + otherNames[c.kind] + ")"
					}
					return kit.Outcome{Key: fmt.Sprintf("history|%s-behaves-differently-than-on-a-fresh-value-after-%s", what, earlier), Class: "fail", Nontrivial: true,
						Detail: "input " + input() + fmt.Sprintf("\noperation %d (on %s) passes on a fresh value but after the earlier operations: %s: %s", j+1, where, class, det)}
				}
				switch {
				case op >= 1 && op <= 8:
					earlier = "an-interrupted-LookupFunc"
				case op == 0 && earlier == "Lookup":
					earlier = "a-complete-LookupFunc"
				}
			}
			cl := "history:one-value"
			if c.kind != 0 {
				cl = "history:" + otherNames[c.kind]
			}
			return kit.Outcome{OK: true, Class: cl, Nontrivial: true, Ops: len(c.ops)}
		},
		Describe: func(i uint64) any { c := decode(i); return map[string]any{"history": describe(c), "canonical": c.canon} },
	}
}

// ---- importers returning typed-nil packages ----

func typedNilImporterSpace() kit.Space {
	names := []string{"custom→(nil,nil)", "custom→(pkg,nil)", "custom→(nil,err)", "custom→((*ordPkg)(nil),nil)", "Packages{p: nil interface}", "Packages{p: (*ordPkg)(nil)}", "Packages{p: pkg}"}
	nv := uint64(len(names))
	radices := []uint64{nv + 1, nv + 1, nv + 1}
	decode := func(i uint64) (vs []uint64, canon bool) {
		canon = true
		gap := false
		for _, v := range kit.Mixed(i, radices...) {
			if v == nv {
				gap = true
				continue
			}
			if gap {
				canon = false
			}
			vs = append(vs, v)
		}
		return
	}
	describe := func(vs []uint64) string {
		var s []string
		for _, v := range vs {
			s = append(s, names[v])
		}
		return "CombinedImporter{" + strings.Join(s, ", ") + `}.Import("p")`
	}
	return kit.Space{
		Name: "CombinedImporter.typednil",
		Size: kit.Product(radices...),
		Eval: func(i uint64) kit.Outcome {
			vs, canon := decode(i)
			if !canon {
				return kit.Outcome{OK: true, Class: "non-canonical(absent slot before an importer)"}
			}
			type res struct {
				p     native.ImportablePackage
				err   error
				typed bool // a typed-nil package: "does not exist" for the importer's contract, "a package" for p != nil
			}
			var log []string
			var imps native.CombinedImporter
			var model []res
			hasTyped := false
			for j, v := range vs {
				pkg := &ordPkg{name: fmt.Sprintf("pkg%d", j)}
				e := fmt.Errorf("err%d", j)
				var typedNil native.ImportablePackage = (*ordPkg)(nil)
				switch v {
				case 0:
					imps, model = append(imps, fnImporter{j, nil, nil, &log}), append(model, res{})
				case 1:
					imps, model = append(imps, fnImporter{j, pkg, nil, &log}), append(model, res{p: pkg})
				case 2:
					imps, model = append(imps, fnImporter{j, nil, e, &log}), append(model, res{err: e})
				case 3:
					imps, model = append(imps, fnImporter{j, typedNil, nil, &log}), append(model, res{p: typedNil, typed: true})
					hasTyped = true
				case 4:
					imps, model = append(imps, native.Packages{"p": nil}), append(model, res{})
				case 5:
					imps, model = append(imps, native.Packages{"p": typedNil}), append(model, res{p: typedNil, typed: true})
					hasTyped = true
				case 6:
					imps, model = append(imps, native.Packages{"p": pkg}), append(model, res{p: pkg})
				}
			}
			gotP, gotErr := imps.Import("p")
			// acceptable results: a typed nil is returned as the package, or skipped as "does not exist"
			var accepted []string
			matched := false
			for _, skipTyped := range []bool{false, true} {
				var wp native.ImportablePackage
				var werr error
				for _, r := range model {
					if r.typed && skipTyped {
						continue
					}
					if r.p != nil || r.err != nil {
						wp, werr = r.p, r.err
						break
					}
				}
				accepted = append(accepted, fmt.Sprintf("(%s, %v)", pkgNameSafe(wp), werr))
				if gotP == wp && gotErr == werr {
					matched = true
				}
			}
			if !matched {
				return fail("CombinedImporter", "Import", "not-the-first-package-or-error-in-order", func() string { return describe(vs) },
					fmt.Sprintf("got (%s, %v), want one of %v", pkgNameSafe(gotP), gotErr, accepted))
			}
			o := kit.Outcome{OK: true, Ops: len(vs) + 1, Nontrivial: hasTyped, Class: "typednil:none"}
			if hasTyped {
				o.Class = "typednil:typed-nil-skipped"
				if p, ok := gotP.(*ordPkg); ok && p == nil {
					o.Class = "typednil:typed-nil-returned-as-a-package"
				}
			}
			return o
		},
		Describe: func(i uint64) any { vs, c := decode(i); return map[string]any{"case": describe(vs), "canonical": c} },
	}
}

func pkgNameSafe(p native.ImportablePackage) string {
	if p == nil {
		return "nil"
	}
	if o, ok := p.(*ordPkg); ok && o == nil {
		return "(*ordPkg)(nil)"
	}
	return p.PackageName()
}

var _ = errors.Is
