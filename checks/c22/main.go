// C22 — native package and importer lookups follow their documented contracts.
//
// The contract is the set of doc comments of /repo/native/packages.go:
//
//   - LookupFunc (type): "If the function returns an error,
//     ImportablePackage.LookupFunc stops and returns the error or nil if the
//     error is StopLookup."
//   - ImportablePackage.LookupFunc: "calls f for each package declaration
//     stopping if f returns an error. Lookup order is undefined."
//   - Package.Lookup: "returns the declaration named name in the package or nil".
//   - CombinedPackage: name of the first package; Lookup "calls the Lookup
//     methods of each package in order and returns as soon as a package
//     returns a not nil value"; LookupFunc "calls the LookupFunc method of each
//     package in order ... If the same declaration name is in multiple
//     packages, f is only called with its first occurrence."
//   - CombinedImporter.Import: "calls the Import method of each importer and
//     returns as soon as an importer returns a package" (or an error: Importer
//     says "If an error occurs it returns the error").
//   - Packages.Import: the package of the map, or nil and nil.
//
// Every combination inside the bound is enumerated; the oracle is a reference
// list-of-maps model that is order-independent exactly where the contract
// says the order is undefined (inside one native.Package).
package main

import (
	"errors"
	"fmt"
	"sort"
	"strings"

	"verif/kit"

	"github.com/open2b/scriggo/native"
)

var declNames = []string{"a", "b", "c"}

// errE is the error the callback returns in the "error" behaviour.
var errE = errors.New("E")

// ---- callback behaviours ----

const maxK = 4 // call indexes 1..K+1 with K = 3 declarations at most per name universe

// behaviour b: 0 = always nil; 1..4 = errE at call k; 5..8 = StopLookup at call k.
const numBehaviours = 1 + 2*maxK

func behaviour(b uint64) (k int, act error) {
	switch {
	case b == 0:
		return 0, nil
	case b <= maxK:
		return int(b), errE
	default:
		return int(b) - maxK, native.StopLookup
	}
}

func behaviourString(b uint64) string {
	k, act := behaviour(b)
	switch act {
	case nil:
		return "callback always returns nil"
	case errE:
		return fmt.Sprintf("callback returns errors.New(\"E\") at call %d, nil otherwise", k)
	}
	return fmt.Sprintf("callback returns native.StopLookup at call %d, nil otherwise", k)
}

type call struct {
	name string
	decl native.Declaration
}

// recorder builds the callback for behaviour b.
func recorder(b uint64) (native.LookupFunc, *[]call) {
	k, act := behaviour(b)
	calls := &[]call{}
	return func(name string, decl native.Declaration) error {
		*calls = append(*calls, call{name, decl})
		if act != nil && len(*calls) == k {
			return act
		}
		return nil
	}, calls
}

// ---- package variants ----

// ordPkg is a custom ImportablePackage that iterates in a fixed order and
// honours the ImportablePackage contract.
type ordPkg struct {
	name  string
	order []string
	decls map[string]native.Declaration
}

func (p *ordPkg) PackageName() string { return p.name }
func (p *ordPkg) Lookup(name string) native.Declaration {
	if d, ok := p.decls[name]; ok {
		return d
	}
	return nil
}
func (p *ordPkg) LookupFunc(f native.LookupFunc) error {
	for _, n := range p.order {
		if err := f(n, p.decls[n]); err != nil {
			if err == native.StopLookup {
				return nil
			}
			return err
		}
	}
	return nil
}

// modelPkg is the reference model of one package.
type modelPkg struct {
	name    string
	names   []string // in iteration order when ordered, sorted otherwise
	ordered bool
	decls   map[string]string
}

// variant v of the package in slot j: 0..7 native.Package with declaration set
// mask v; 8..23 the 16 ordered subsets of {a,b,c} as a custom package.
const numVariants = 24

var orderedSubsets = func() [][]string {
	var out [][]string
	var rec func(cur []string, used int)
	rec = func(cur []string, used int) {
		out = append(out, append([]string{}, cur...))
		for i, n := range declNames {
			if used&(1<<i) == 0 {
				rec(append(cur, n), used|1<<i)
			}
		}
	}
	rec(nil, 0)
	sort.SliceStable(out, func(a, b int) bool { return len(out[a]) < len(out[b]) })
	return out
}()

func buildPkg(slot int, v uint64) (native.ImportablePackage, modelPkg) {
	name := fmt.Sprintf("p%d", slot)
	m := modelPkg{name: name, decls: map[string]string{}}
	if v < 8 {
		d := native.Declarations{}
		for i, n := range declNames {
			if v&(1<<i) != 0 {
				val := name + "." + n
				d[n] = val
				m.decls[n] = val
				m.names = append(m.names, n)
			}
		}
		return native.Package{Name: name, Declarations: d}, m
	}
	order := orderedSubsets[v-8]
	p := &ordPkg{name: name, order: order, decls: map[string]native.Declaration{}}
	for _, n := range order {
		val := name + "." + n
		p.decls[n] = val
		m.decls[n] = val
	}
	m.names = append([]string{}, order...)
	m.ordered = true
	return p, m
}

func (m modelPkg) String() string {
	kind := "native.Package"
	if m.ordered {
		kind = "custom(iterates in this order)"
	}
	return fmt.Sprintf("%s %s{%s}", m.name, kind, strings.Join(m.names, ","))
}

// ---- oracle ----

// checkLookupFunc compares an observed LookupFunc execution with the model.
// It returns "" or a discrepancy class.
func checkLookupFunc(model []modelPkg, b uint64, calls []call, ret error) (class, detail string) {
	k, act := behaviour(b)
	return checkLookupFuncKA(model, k, act, calls, ret)
}

// checkLookupFuncKA is checkLookupFunc for a callback that returns act (any
// error value) at call k and nil otherwise. A wrapped StopLookup may come back
// as itself or as nil: the contract says "nil if the error is StopLookup".
func checkLookupFuncKA(model []modelPkg, k int, act error, calls []call, ret error) (class, detail string) {
	// segments: names of package j that do not occur in earlier packages
	seen := map[string]bool{}
	type seg struct {
		names   []string
		ordered bool
		pkg     int
	}
	var segs []seg
	total := 0
	first := map[string]string{}
	for j, m := range model {
		var s seg
		s.ordered, s.pkg = m.ordered, j
		for _, n := range m.names {
			if !seen[n] {
				seen[n] = true
				first[n] = m.decls[n]
				s.names = append(s.names, n)
			}
		}
		total += len(s.names)
		segs = append(segs, s)
	}
	wantCalls := total
	var wantRet error
	if act != nil && k <= total {
		wantCalls = k
		if act != native.StopLookup {
			wantRet = act
		}
	}
	// walk the observed calls
	si, consumed := 0, 0
	called := map[string]bool{}
	for ci, c := range calls {
		if ci >= wantCalls {
			if act != nil && act != native.StopLookup && k <= total {
				return "callback-called-after-it-returned-an-error", fmt.Sprintf("call %d (%s) happened after the callback returned E at call %d", ci+1, c.name, k)
			}
			if act == native.StopLookup && k <= total {
				return "callback-called-after-StopLookup", fmt.Sprintf("call %d (%s) happened after the callback returned StopLookup at call %d", ci+1, c.name, k)
			}
			return "more-calls-than-distinct-names", fmt.Sprintf("call %d (%s): only %d distinct names exist", ci+1, c.name, total)
		}
		if called[c.name] {
			return "callback-called-twice-for-one-name", fmt.Sprintf("call %d repeats name %s", ci+1, c.name)
		}
		called[c.name] = true
		want, ok := first[c.name]
		if !ok {
			return "callback-called-with-unknown-name", fmt.Sprintf("call %d has name %q", ci+1, c.name)
		}
		if got, _ := c.decl.(string); got != want {
			return "callback-not-called-with-first-occurrence", fmt.Sprintf("call %d: name %s with declaration %v, first occurrence is %s", ci+1, c.name, c.decl, want)
		}
		for si < len(segs) && consumed == len(segs[si].names) {
			si++
			consumed = 0
		}
		inSeg := false
		if si < len(segs) {
			for _, n := range segs[si].names {
				if n == c.name {
					inSeg = true
				}
			}
		}
		if !inSeg {
			return "packages-not-visited-in-order", fmt.Sprintf("call %d: name %s does not belong to the package being visited", ci+1, c.name)
		}
		if segs[si].ordered && segs[si].names[consumed] != c.name {
			return "custom-package-order-not-followed", fmt.Sprintf("call %d: name %s, the package iterates %v", ci+1, c.name, segs[si].names)
		}
		consumed++
	}
	if len(calls) < wantCalls {
		return "callback-not-called-for-every-declaration", fmt.Sprintf("%d calls, want %d", len(calls), wantCalls)
	}
	if ret != wantRet {
		switch {
		case wantRet != nil && ret == nil && errors.Is(wantRet, native.StopLookup):
			return "", "" // a wrapped StopLookup read as StopLookup
		case wantRet != nil && ret == nil:
			return "returns-nil-instead-of-the-callback-error", "LookupFunc returned nil, want the error returned by the callback"
		case wantRet != nil && ret != nil && ret.Error() == wantRet.Error():
			return "returns-another-error-value-than-the-callback's", fmt.Sprintf("LookupFunc returned a different error value with the same text %q (errors are compared with ==)", ret)
		case wantRet == nil && ret == native.StopLookup:
			return "returns-StopLookup-instead-of-nil", "LookupFunc returned StopLookup, want nil"
		}
		return "wrong-return-value", fmt.Sprintf("LookupFunc returned %v, want %v", ret, wantRet)
	}
	return "", ""
}

func checkLookup(model []modelPkg, p native.ImportablePackage) (class, detail string) {
	for _, n := range append(append([]string{}, declNames...), "d", "") {
		var want native.Declaration
		for _, m := range model {
			if v, ok := m.decls[n]; ok {
				want = v
				break
			}
		}
		got := p.Lookup(n)
		if got != want {
			switch {
			case want == nil:
				return "Lookup-returns-a-declaration-that-does-not-exist", fmt.Sprintf("Lookup(%q) = %v, want nil", n, got)
			case got == nil:
				return "Lookup-misses-an-existing-declaration", fmt.Sprintf("Lookup(%q) = nil, want %v", n, want)
			}
			return "Lookup-not-the-first-package's-declaration", fmt.Sprintf("Lookup(%q) = %v, want %v", n, got, want)
		}
	}
	return "", ""
}

func describeModel(model []modelPkg) string {
	var s []string
	for _, m := range model {
		s = append(s, m.String())
	}
	return "[" + strings.Join(s, "; ") + "]"
}

func fail(typ, method, class string, input func() string, detail string) kit.Outcome {
	return kit.Outcome{OK: false, Key: typ + "." + method + "|" + class, Class: "fail", Nontrivial: true,
		Detail: "input " + input() + "\nobserved/expected: " + detail}
}

// ---- space 1: native.Package alone ----

func packageSpace() kit.Space {
	size := kit.Product(numBehaviours, 8, 2)
	decode := func(i uint64) (b, mask uint64, nilMap bool) {
		d := kit.Mixed(i, numBehaviours, 8, 2)
		return d[0], d[1], d[2] == 1
	}
	return kit.Space{
		Name: "Package",
		Size: size,
		Eval: func(i uint64) kit.Outcome {
			b, mask, nilMap := decode(i)
			if nilMap && mask != 0 {
				return kit.Outcome{OK: true, Class: "non-canonical(nil map with declarations)"}
			}
			p, m := buildPkg(0, mask)
			if nilMap {
				p = native.Package{Name: "p0"}
			}
			model := []modelPkg{m}
			input := func() string { return describeModel(model) + "; " + behaviourString(b) }
			if p.PackageName() != "p0" {
				return fail("Package", "PackageName", "wrong-name", input, p.PackageName())
			}
			if c, d := checkLookup(model, p); c != "" {
				return fail("Package", "Lookup", c, input, d)
			}
			f, calls := recorder(b)
			ret := p.LookupFunc(f)
			if c, d := checkLookupFunc(model, b, *calls, ret); c != "" {
				return fail("Package", "LookupFunc", c, input, d)
			}
			k, act := behaviour(b)
			o := kit.Outcome{OK: true, Ops: len(*calls) + 5, Nontrivial: len(m.names) > 0}
			switch {
			case act == nil || k > len(m.names):
				o.Class = "all-declarations-visited"
			case act == errE:
				o.Class = "stopped-by-error"
			default:
				o.Class = "stopped-by-StopLookup"
			}
			return o
		},
		Describe: func(i uint64) any {
			b, mask, nilMap := decode(i)
			_, m := buildPkg(0, mask)
			return map[string]any{"package": m.String(), "nil_declarations_map": nilMap, "callback": behaviourString(b)}
		},
	}
}

// ---- space 2: CombinedPackage ----

const absent = numVariants // variant index meaning "no package in this slot"

func combine(pk []native.ImportablePackage, shape uint64) native.ImportablePackage {
	n := len(pk)
	switch shape {
	case 1:
		if n >= 3 {
			out := native.CombinedPackage{native.CombinedPackage{pk[0], pk[1]}}
			for _, p := range pk[2:] {
				out = append(out, p)
			}
			return out
		}
		return native.CombinedPackage{native.CombinedPackage(pk)}
	case 2:
		if n >= 3 {
			var out native.CombinedPackage
			for _, p := range pk[:n-2] {
				out = append(out, p)
			}
			return append(out, native.CombinedPackage{pk[n-2], pk[n-1]})
		}
		var out native.CombinedPackage
		for _, p := range pk {
			out = append(out, native.CombinedPackage{p})
		}
		return out
	}
	return native.CombinedPackage(pk)
}

var shapeNames = []string{"flat", "first two grouped {{p0,p1},p2,..} (fewer than 3: all wrapped once {{..}})", "last two grouped {..,{pn-2,pn-1}} (fewer than 3: each wrapped {{p0},{p1}})"}

func combinedSpace(slots int) kit.Space {
	radices := []uint64{numBehaviours, 3}
	for j := 0; j < slots; j++ {
		radices = append(radices, numVariants+1)
	}
	type cs struct {
		b, shape uint64
		vs       []uint64
		canon    bool
	}
	decode := func(i uint64) cs {
		d := kit.Mixed(i, radices...)
		c := cs{b: d[0], shape: d[1], canon: true}
		gap := false
		for _, v := range d[2:] {
			if v == absent {
				gap = true
				continue
			}
			if gap {
				c.canon = false
			}
			c.vs = append(c.vs, v)
		}
		return c
	}
	build := func(c cs) ([]native.ImportablePackage, []modelPkg) {
		var pk []native.ImportablePackage
		var model []modelPkg
		for j, v := range c.vs {
			p, m := buildPkg(j, v)
			pk = append(pk, p)
			model = append(model, m)
		}
		return pk, model
	}
	return kit.Space{
		Name: "CombinedPackage",
		Size: kit.Product(radices...),
		Eval: func(i uint64) kit.Outcome {
			c := decode(i)
			if !c.canon {
				return kit.Outcome{OK: true, Class: "non-canonical(absent slot before a package)"}
			}
			pk, model := build(c)
			cp := combine(pk, c.shape)
			input := func() string {
				return "CombinedPackage " + shapeNames[c.shape] + " of " + describeModel(model) + "; " + behaviourString(c.b)
			}
			wantName := ""
			if len(model) > 0 {
				wantName = "p0"
			}
			if got := cp.PackageName(); got != wantName {
				return fail("CombinedPackage", "PackageName", "not-the-first-package's-name", input, fmt.Sprintf("PackageName() = %q, want %q", got, wantName))
			}
			if cl, d := checkLookup(model, cp); cl != "" {
				return fail("CombinedPackage", "Lookup", cl, input, d)
			}
			f, calls := recorder(c.b)
			ret := cp.LookupFunc(f)
			if cl, d := checkLookupFunc(model, c.b, *calls, ret); cl != "" {
				return fail("CombinedPackage", "LookupFunc", cl, input, d)
			}
			// non-trivial: at least one name occurs in two packages, or the callback stops the lookup
			dup := false
			cnt := map[string]int{}
			total := 0
			for _, m := range model {
				for _, n := range m.names {
					cnt[n]++
					if cnt[n] == 2 {
						dup = true
					}
					if cnt[n] == 1 {
						total++
					}
				}
			}
			k, act := behaviour(c.b)
			stopped := act != nil && k <= total
			o := kit.Outcome{OK: true, Ops: len(*calls) + 5, Nontrivial: dup || stopped}
			switch {
			case stopped && act == errE:
				o.Class = "stopped-by-error"
			case stopped:
				o.Class = "stopped-by-StopLookup"
			case dup:
				o.Class = "all-visited,duplicates-skipped"
			default:
				o.Class = "all-visited,no-duplicates"
			}
			return o
		},
		Describe: func(i uint64) any {
			c := decode(i)
			_, model := build(c)
			return map[string]any{"shape": shapeNames[c.shape], "packages": describeModel(model), "callback": behaviourString(c.b), "canonical": c.canon}
		},
	}
}

// ---- space 3: CombinedImporter / Packages ----

type fnImporter struct {
	idx int
	p   native.ImportablePackage
	err error
	log *[]string
}

func (f fnImporter) Import(path string) (native.ImportablePackage, error) {
	*f.log = append(*f.log, fmt.Sprintf("%d:%s", f.idx, path))
	return f.p, f.err
}

var importerVariantNames = []string{
	"custom→(nil,nil)", "custom→(pkg,nil)", "custom→(nil,err)",
	"Packages{}", "Packages{p:pkg}", "Packages{q:pkg}", "Packages(nil)", "Packages{p:pkg,q:pkg'}",
}

const numImpVariants = 8

var importPaths = []string{"p", "q", ""}

func importerSpace(slots int) kit.Space {
	radices := []uint64{3, 3}
	for j := 0; j < slots; j++ {
		radices = append(radices, numImpVariants+1)
	}
	type cs struct {
		path  string
		shape uint64
		vs    []uint64
		canon bool
	}
	decode := func(i uint64) cs {
		d := kit.Mixed(i, radices...)
		c := cs{path: importPaths[d[0]], shape: d[1], canon: true}
		gap := false
		for _, v := range d[2:] {
			if v == numImpVariants {
				gap = true
				continue
			}
			if gap {
				c.canon = false
			}
			c.vs = append(c.vs, v)
		}
		return c
	}
	describe := func(c cs) string {
		var s []string
		for _, v := range c.vs {
			s = append(s, importerVariantNames[v])
		}
		return fmt.Sprintf("CombinedImporter %s of [%s].Import(%q)", shapeNames[c.shape], strings.Join(s, ", "), c.path)
	}
	return kit.Space{
		Name: "CombinedImporter",
		Size: kit.Product(radices...),
		Eval: func(i uint64) kit.Outcome {
			c := decode(i)
			if !c.canon {
				return kit.Outcome{OK: true, Class: "non-canonical(absent slot before an importer)"}
			}
			var log []string
			var imps []native.Importer
			// reference model: per importer the result for the path
			type res struct {
				p      native.ImportablePackage
				err    error
				logged bool
			}
			var model []res
			for j, v := range c.vs {
				pkg := &ordPkg{name: fmt.Sprintf("pkg%d", j)}
				pkg2 := &ordPkg{name: fmt.Sprintf("pkg%d'", j)}
				e := fmt.Errorf("err%d", j)
				var imp native.Importer
				var r res
				switch v {
				case 0:
					imp, r = fnImporter{j, nil, nil, &log}, res{logged: true}
				case 1:
					imp, r = fnImporter{j, pkg, nil, &log}, res{p: pkg, logged: true}
				case 2:
					imp, r = fnImporter{j, nil, e, &log}, res{err: e, logged: true}
				case 3:
					imp = native.Packages{}
				case 4:
					imp = native.Packages{"p": pkg}
					if c.path == "p" {
						r.p = pkg
					}
				case 5:
					imp = native.Packages{"q": pkg}
					if c.path == "q" {
						r.p = pkg
					}
				case 6:
					imp = native.Packages(nil)
				case 7:
					imp = native.Packages{"p": pkg, "q": pkg2}
					if c.path == "p" {
						r.p = pkg
					}
					if c.path == "q" {
						r.p = pkg2
					}
				}
				imps = append(imps, imp)
				model = append(model, r)
			}
			var ci native.Importer
			n := len(imps)
			switch {
			case c.shape == 1 && n >= 3:
				out := native.CombinedImporter{native.CombinedImporter{imps[0], imps[1]}}
				ci = append(out, imps[2:]...)
			case c.shape == 1:
				ci = native.CombinedImporter{native.CombinedImporter(imps)}
			case c.shape == 2 && n >= 3:
				out := append(native.CombinedImporter{}, imps[:n-2]...)
				ci = append(out, native.CombinedImporter{imps[n-2], imps[n-1]})
			case c.shape == 2:
				var out native.CombinedImporter
				for _, im := range imps {
					out = append(out, native.CombinedImporter{im})
				}
				ci = out
			default:
				ci = native.CombinedImporter(imps)
			}
			gotP, gotErr := ci.Import(c.path)
			var wantP native.ImportablePackage
			var wantErr error
			var wantLog []string
			productive := -1
			for j, r := range model {
				if r.logged {
					wantLog = append(wantLog, fmt.Sprintf("%d:%s", j, c.path))
				}
				if r.p != nil || r.err != nil {
					wantP, wantErr, productive = r.p, r.err, j
					break
				}
			}
			input := func() string { return describe(c) }
			if gotP != wantP || gotErr != wantErr {
				class := "wrong-result"
				switch {
				case wantP != nil && gotP == nil && gotErr == nil:
					class = "package-not-returned"
				case wantErr != nil && gotErr == nil:
					class = "error-not-returned"
				case productive >= 0 && (gotP != nil || gotErr != nil):
					class = "not-the-first-package-or-error-in-order"
				case productive < 0:
					class = "result-out-of-nothing"
				}
				return fail("CombinedImporter", "Import", class, input, fmt.Sprintf("got (%v, %v), want (%v, %v)", pkgName(gotP), gotErr, pkgName(wantP), wantErr))
			}
			if strings.Join(log, ",") != strings.Join(wantLog, ",") {
				class := "importers-not-called-once-each-in-order-with-the-path"
				if len(log) > len(wantLog) {
					class = "importer-called-after-a-package-or-error-was-returned"
				}
				return fail("CombinedImporter", "Import", class, input, fmt.Sprintf("calls (importer:path) %v, want %v", log, wantLog))
			}
			o := kit.Outcome{OK: true, Ops: len(c.vs) + 1, Nontrivial: len(c.vs) >= 2}
			switch {
			case productive < 0:
				o.Class = "no-package(nil,nil)"
			case wantErr != nil:
				o.Class = "error-returned"
			default:
				o.Class = "package-returned"
			}
			return o
		},
		Describe: func(i uint64) any { c := decode(i); return map[string]any{"case": describe(c), "canonical": c.canon} },
	}
}

func pkgName(p native.ImportablePackage) string {
	if p == nil {
		return "nil"
	}
	return p.PackageName()
}

func main() {
	kit.Main(&kit.Check{
		ID:    "C22",
		Level: "model_checking",
		Rule: "space Package: every declaration set ⊆ {a,b,c} (and the nil map) × every callback behaviour (always nil; error E at call k; StopLookup at call k; k=1..4); " +
			"space CombinedPackage: every sequence of 0..3 (thorough: 0..4) packages, each a native.Package with a set ⊆ {a,b,c} or a contract-honouring custom package iterating one of the 16 ordered subsets of {a,b,c}, in 3 nesting shapes × the same 9 callback behaviours; " +
			"space CombinedImporter: every chain of 0..3 (thorough: 0..4) importers out of 8 variants (custom importers returning (nil,nil)/(pkg,nil)/(nil,err), native.Packages with/without the path, nil map) in 3 nesting shapes × 3 import paths. " +
			"Each canonical index is a distinct configuration (indices with an absent slot before a present one are classed non-canonical and not counted). Non-trivial: Package — at least one declaration; CombinedPackage — a name occurs in two packages or the callback stops the lookup; CombinedImporter — at least two importers. " +
			"Round 2: Package.direct = every set of names ⊆ {a,b,c,d} × callback returning nil / StopLookup / a custom error value / a wrapped StopLookup at call 1..5, directly on native.Package; " +
			"nilgrid = every grid {absent, value, nil value} per name for native.Package (4 names), CombinedPackage of 1 (4 names), 2 (3 names) and 3 (2 names) packages, complete LookupFunc and Lookup of every name checked against each other and against the model without the nil entries (non-trivial: at least one nil entry); " +
			"history = every sequence of 2..3 operations out of 14 (complete LookupFunc, StopLookup at call 1..4, custom error at call 1..4, Lookup of a..e) on one of 44 values (6 native.Package, 36 CombinedPackage of two packages over {a},{a,b},{b,c},{a,b,c,d},{c,d},{d}, 2 with a custom ordered member), either all on that value or alternating (thorough: every assignment) with a second value (two fixed ones, or a CombinedPackage of the same member values reversed), each operation checked against the stateless model; " +
			"CombinedImporter.typednil = every chain of 0..3 importers out of 7 including custom importers and native.Packages that return a typed-nil package or hold a nil interface",
		Assumptions: []string{
			"at most 3 (thorough 4) packages/importers and 3 declaration names; declarations are distinct string values",
			"custom packages honour the ImportablePackage contract (stop at the first error, return it, or nil for StopLookup)",
			"inside one native.Package any visiting order is accepted (order undefined by contract); across combined packages the order of packages is checked",
			"importers returning both a package and an error are not explored (contract does not define the result)",
			"a declaration whose value is nil does not exist (Package.Lookup: 'nil if no such declaration exists'); LookupFunc must agree with Lookup. Grids with nil entries are explored with complete lookups only, because an interrupted lookup over a Go map visits a random subset",
			"a wrapped StopLookup may be returned as itself or as nil; a typed-nil package may be returned as the package or skipped as 'does not exist'",
		},
		Spaces: func(tier string) []kit.Space {
			slots := 3
			if tier == "thorough" {
				slots = 4
			}
			return []kit.Space{packageSpace(), combinedSpace(slots), importerSpace(slots),
				packageDirectSpace(),
				nilGridSpace("nilgrid.Package", 1, names4, false),
				nilGridSpace("nilgrid.CombinedPackage{p0}", 1, names4, true),
				nilGridSpace("nilgrid.CombinedPackage{p0,p1}", 2, declNames, true),
				nilGridSpace("nilgrid.CombinedPackage{p0,p1,p2}", 3, []string{"a", "b"}, true),
				historySpace(tier == "thorough"),
				typedNilImporterSpace(),
			}
		},
	})
}
