// C24 — HTMLEscape escapes exactly the five HTML-significant characters.
// Literally exhaustive over all strings of length <= N over a 7-symbol alphabet.
package main

import (
	"html"
	"strings"

	"verif/kit"

	"github.com/open2b/scriggo"
	"github.com/open2b/scriggo/builtin"
)

var alphabet = []string{"<", ">", "&", "\"", "'", "a", "\xc3"}

var ref = strings.NewReplacer("<", "&lt;", ">", "&gt;", "&", "&amp;", "\"", "&#34;", "'", "&#39;")

func spaces(tier string) []kit.Space {
	n := 7
	if tier == "thorough" {
		n = 10
	}
	en := kit.NewStringsUpTo(alphabet, n)
	eval := func(f func(string) string, name string) func(i uint64) kit.Outcome {
		return func(i uint64) kit.Outcome {
			s := en.At(i)
			got := f(s)
			want := ref.Replace(s)
			o := kit.Outcome{OK: true, Nontrivial: strings.ContainsAny(s, "<>&\"'"), Ops: len(s) + 1}
			if o.Nontrivial {
				o.Class = "escaped"
			} else {
				o.Class = "unchanged"
			}
			if got != want {
				o.OK = false
				o.Key = name + "|differs-from-reference-replacer"
				o.Detail = "input " + strconvQ(s) + " got " + strconvQ(got) + " want " + strconvQ(want)
				return o
			}
			if html.UnescapeString(got) != s {
				o.OK = false
				o.Key = name + "|unescape-roundtrip"
				o.Detail = "input " + strconvQ(s) + " got " + strconvQ(got) + " unescapes to " + strconvQ(html.UnescapeString(got))
			}
			return o
		}
	}
	desc := func(i uint64) any { return en.At(i) }
	return []kit.Space{
		{Name: "scriggo.HTMLEscape", Size: en.Size(), Eval: eval(func(s string) string { return string(scriggo.HTMLEscape(s)) }, "HTMLEscape"), Describe: desc},
		{Name: "builtin.HtmlEscape", Size: en.Size(), Eval: eval(func(s string) string { return string(builtin.HtmlEscape(s)) }, "HtmlEscape"), Describe: desc},
	}
}

func strconvQ(s string) string { return "\"" + strings.ReplaceAll(s, "\xc3", "\\xc3") + "\"" }

func main() {
	kit.Main(&kit.Check{
		ID:    "C24",
		Level: "model_checking",
		Rule:  "every string over {< > & \" ' a 0xC3} up to the tier's length, for both exported entry points; a case is non-trivial when the input contains at least one of the five special characters; indices enumerate distinct strings (mixed radix is injective)",
		Assumptions: []string{
			"strings longer than the bound and bytes outside the 7-symbol alphabet are not explored",
			"reference = strings.NewReplacer over the five entities and html.UnescapeString",
		},
		Spaces: spaces,
	})
}
