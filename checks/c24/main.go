// C24 — HTMLEscape escapes exactly the five HTML-significant characters.
// Literally exhaustive over all strings of length <= N over a 7-symbol alphabet.
package main

import (
	"html"
	"strconv"
	"strings"

	"verif/kit"

	"github.com/open2b/scriggo"
	"github.com/open2b/scriggo/builtin"
)

var alphabet = []string{"<", ">", "&", "\"", "'", "a", "\xc3"}

var ref = strings.NewReplacer("<", "&lt;", ">", "&gt;", "&", "&amp;", "\"", "&#34;", "'", "&#39;")

func spaces(tier string) []kit.Space {
	n := 7
	if tier == "thorough" {
		n = 10
	}
	en := kit.NewStringsUpTo(alphabet, n)
	eval := func(f func(string) string, name string) func(i uint64) kit.Outcome {
		return func(i uint64) kit.Outcome {
			s := en.At(i)
			got := f(s)
			want := ref.Replace(s)
			o := kit.Outcome{OK: true, Nontrivial: strings.ContainsAny(s, "<>&\"'"), Ops: len(s) + 1}
			if o.Nontrivial {
				o.Class = "escaped"
			} else {
				o.Class = "unchanged"
			}
			if got != want {
				o.OK = false
				o.Key = name + "|differs-from-reference-replacer"
				o.Detail = "input " + strconvQ(s) + " got " + strconvQ(got) + " want " + strconvQ(want)
				return o
			}
			if html.UnescapeString(got) != s {
				o.OK = false
				o.Key = name + "|unescape-roundtrip"
				o.Detail = "input " + strconvQ(s) + " got " + strconvQ(got) + " unescapes to " + strconvQ(html.UnescapeString(got))
			}
			return o
		}
	}
	desc := func(i uint64) any { return en.At(i) }
	// retained results: every ordered triple of calls over inputs of sizes around
	// the sizes at which an implementation could change strategy (0 … 5000 bytes);
	// every result is kept and must still be what the reference gives after the
	// later calls have been made (a result must not alias a reused buffer).
	var inputs []string
	for _, l := range []int{0, 1, 7, 100, 1023, 1024, 1025, 2048, 5000} {
		for _, pat := range []string{"<p class=\"x\">Tom & 'Jerry'</p>", "plain text ", "&&&&"} {
			var b strings.Builder
			for b.Len() < l {
				b.WriteString(pat)
			}
			inputs = append(inputs, b.String()[:l])
		}
	}
	nin := uint64(len(inputs))
	retained := func(f func(string) string, name string) func(i uint64) kit.Outcome {
		return func(i uint64) kit.Outcome {
			idx := []uint64{i % nin, i / nin % nin, i / nin / nin}
			var got, snap []string
			for _, k := range idx {
				r := f(inputs[k])
				got = append(got, r)
				snap = append(snap, strings.Clone(r))
			}
			o := kit.Outcome{OK: true, Nontrivial: true, Class: "retained", Ops: 3}
			for k := range idx {
				want := ref.Replace(inputs[idx[k]])
				if snap[k] != want {
					return kit.Outcome{Key: name + "|differs-from-reference-replacer", Nontrivial: true, Detail: "call " + itoa(k) + " of the sequence: input of " + itoa(len(inputs[idx[k]])) + " bytes"}
				}
				if got[k] != want {
					return kit.Outcome{Key: name + "|result-changes-after-later-calls", Nontrivial: true,
						Detail: "sequence of 3 calls with inputs of " + itoa(len(inputs[idx[0]])) + ", " + itoa(len(inputs[idx[1]])) + ", " + itoa(len(inputs[idx[2]])) + " bytes: the result of call " + itoa(k) + " was right when returned and is different after the later calls:\nnow  " + strconvQ(trunc(got[k])) + "\nwant " + strconvQ(trunc(want))}
				}
			}
			return o
		}
	}
	descR := func(i uint64) any {
		return map[string]any{"input_lengths": []int{len(inputs[i%nin]), len(inputs[i/nin%nin]), len(inputs[i/nin/nin])}, "inputs": []uint64{i % nin, i / nin % nin, i / nin / nin}}
	}
	return []kit.Space{
		{Name: "scriggo.HTMLEscape.retained", Size: nin * nin * nin, Eval: retained(func(s string) string { return string(scriggo.HTMLEscape(s)) }, "HTMLEscape"), Describe: descR},
		{Name: "builtin.HtmlEscape.retained", Size: nin * nin * nin, Eval: retained(func(s string) string { return string(builtin.HtmlEscape(s)) }, "HtmlEscape"), Describe: descR},
		{Name: "scriggo.HTMLEscape", Size: en.Size(), Eval: eval(func(s string) string { return string(scriggo.HTMLEscape(s)) }, "HTMLEscape"), Describe: desc},
		{Name: "builtin.HtmlEscape", Size: en.Size(), Eval: eval(func(s string) string { return string(builtin.HtmlEscape(s)) }, "HtmlEscape"), Describe: desc},
	}
}

func itoa(n int) string { return strconv.Itoa(n) }

func trunc(s string) string {
	if len(s) > 120 {
		return s[:120] + "…"
	}
	return s
}

func strconvQ(s string) string { return "\"" + strings.ReplaceAll(s, "\xc3", "\\xc3") + "\"" }

func main() {
	kit.Main(&kit.Check{
		ID:    "C24",
		Level: "model_checking",
		Rule:  "every string over {< > & \" ' a 0xC3} up to the tier's length, for both exported entry points; a case is non-trivial when the input contains at least one of the five special characters; indices enumerate distinct strings (mixed radix is injective); plus every ordered triple of calls over 27 inputs of 0…5000 bytes whose results are all kept and compared again after the later calls",
		Assumptions: []string{
			"strings longer than the bound and bytes outside the 7-symbol alphabet are not explored",
			"reference = strings.NewReplacer over the five entities and html.UnescapeString",
		},
		Spaces: spaces,
	})
}
