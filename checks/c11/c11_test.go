// Package c11: cancelling the run context stops any execution promptly.
package c11

import (
	"context"
	"fmt"
	"sort"
	"strings"
	"sync"
	"testing"
	"time"

	"verif/sched"

	"github.com/open2b/scriggo"
	"github.com/open2b/scriggo/native"
)

type prog struct {
	name        string
	body        string // body of main (and optional extra declarations before "func main")
	decls       string
	terminating bool
	template    string // if not empty, the scenario runs this template source instead of a program
}

var programs = []prog{
	{name: "tight-loop", body: "for {\n}"},
	{name: "loop-call", decls: "func f(x int) int { return x + 1 }", body: "x := 0\nfor {\n x = f(x)\n}"},
	{name: "recursion", decls: "func r(n int) int { return r(n+1) + 1 }", body: "r(0)"},
	{name: "nested-loops", body: "for {\n for i := 0; i < 3; i++ {\n  for j := 0; j < 2; j++ {\n  }\n }\n}"},
	{name: "arith-loop", body: "x := 1\nfor x > 0 {\n x = x%7 + 1\n}"},
	{name: "send-no-partner", body: "c := make(chan int)\nc <- 1"},
	{name: "recv-no-partner", body: "c := make(chan int)\n<-c"},
	{name: "select-blocked-loop", body: "c := make(chan int)\nd := make(chan int)\nfor {\n select {\n case <-c:\n case d <- 1:\n }\n}"},
	{name: "select-default-spin", body: "c := make(chan int)\nfor {\n select {\n case <-c:\n default:\n }\n}"},
	{name: "range-chan", body: "c := make(chan int)\nfor range c {\n}"},
	{name: "go-loop-and-loop", body: "go func() {\n for {\n }\n}()\nfor {\n}"},
	{name: "go-blocked-and-loop", body: "c := make(chan int)\ngo func() {\n <-c\n}()\nfor {\n}"},
	{name: "go-pingpong", body: "a := make(chan int)\nb := make(chan int)\ngo func() {\n for v := range a {\n  b <- v + 1\n }\n}()\nv := 0\nfor {\n a <- v\n v = <-b\n}"},
	{name: "main-waits-looping-goroutine", body: "c := make(chan int)\ngo func() {\n for {\n }\n c <- 1\n}()\n<-c"},
	{name: "go-select-blocked", body: "c := make(chan int)\nd := make(chan int)\ngo func() {\n select {\n case <-c:\n case d <- 1:\n }\n}()\nfor {\n}"},
	{name: "native-callback-loop", body: "host.Call(func() {\n for {\n }\n})"},
	{name: "native-poll-callback-recv", body: "ch := make(chan bool)\nhost.Poll(func() bool {\n return <-ch\n})"},
	{name: "native-poll-callback-select", body: "in := make(chan bool)\nout := make(chan int)\nhost.Poll(func() bool {\n select {\n case ok := <-in:\n  return ok\n case out <- 1:\n  return true\n }\n})"},
	{name: "native-poll-callback-loop", body: "host.Poll(func() bool {\n for {\n }\n return true\n})"},
	{name: "native-poll-in-goroutine", body: "done := make(chan bool)\nch := make(chan int)\ngo func() {\n host.Poll(func() bool {\n  ch <- 1\n  return true\n })\n done <- true\n}()\nhost.Poll(func() bool {\n return <-done\n})"},
	{name: "buffered-producer-consumer", body: "c := make(chan int, 2)\ngo func() {\n for i := 0; ; i++ {\n  c <- i\n }\n}()\nfor {\n <-c\n}"},
	// two goroutines contending for the one value (or the one free slot) of a buffered
	// channel, with no further partner: whoever loses blocks until the cancellation.
	// With the intra-instruction points of the reflect overlay (sched/intra_on.go) a
	// window between two channel primitives of ONE instruction is explored here.
	{name: "buffered-two-receivers", body: "c := make(chan int, 1)\nc <- 1\ngo func() {\n <-c\n}()\n<-c\nfor {\n}"},
	{name: "buffered-two-senders", body: "c := make(chan int, 1)\ngo func() {\n c <- 1\n}()\nc <- 2\nfor {\n}"},
	{name: "buffered-range-and-receive", body: "c := make(chan int, 1)\nc <- 1\ngo func() {\n for range c {\n }\n}()\n<-c\nfor {\n}"},
	// two-step histories: an earlier construct leaves state behind (a select flag, a
	// stopped watcher, a recovered panic) and the code that must be cancellable comes later
	{name: "select-default-then-empty-select", body: "c := make(chan int)\nselect {\ncase <-c:\ndefault:\n}\nselect {\n}"},
	{name: "select-default-then-recv", body: "c := make(chan int)\nselect {\ncase <-c:\ndefault:\n}\n<-c"},
	{name: "select-default-then-select", body: "c := make(chan int)\nd := make(chan int)\nselect {\ncase c <- 1:\ndefault:\n}\nselect {\ncase <-c:\ncase d <- 1:\n}"},
	{name: "empty-select", body: "select {\n}"},
	{name: "recovered-panic-then-loop", body: "func() {\n defer func() {\n  recover()\n }()\n panic(1)\n}()\nfor {\n}"},
	{name: "recovered-panic-then-recv", body: "c := make(chan int)\nfunc() {\n defer func() {\n  recover()\n }()\n panic(1)\n}()\n<-c"},
	{name: "recovered-runtime-fault-then-loop", body: "var m map[string]int\nfunc() {\n defer func() {\n  recover()\n }()\n m[\"a\"] = 1\n}()\nfor {\n}"},
	{name: "recovered-panic-in-range-body-then-loop", body: "for range []int{1} {\n func() {\n  defer func() {\n   recover()\n  }()\n  panic(1)\n }()\n}\nfor {\n}"},
	{name: "loop-in-deferred-call-while-panicking", body: "defer func() {\n for {\n }\n}()\npanic(1)"},
	{name: "closed-range-then-recv", body: "c := make(chan int, 1)\nd := make(chan int)\nc <- 1\nclose(c)\nfor range c {\n}\n<-d"},
	{name: "goroutine-recovered-panic-then-loop", body: "go func() {\n func() {\n  defer func() {\n   recover()\n  }()\n  panic(1)\n }()\n for {\n }\n}()\nselect {\n}"},
	// loops made only of jumps
	{name: "continue-loop", body: "for {\n continue\n}"},
	{name: "goto-cycle", body: "A:\n goto B\nB:\n goto A"},
	{name: "goto-cycle3", body: "x := 0\nA:\n goto B\nC:\n goto A\nB:\n if x == 0 {\n  goto C\n }"},
	{name: "cond-continue-loop", body: "x := 1\nfor x > 0 {\n if x > 0 {\n  continue\n }\n x++\n}"},
	{name: "range-continue-loop", body: "c := make(chan int)\ngo func() {\n for {\n  select {\n  case c <- 1:\n  default:\n   continue\n  }\n }\n}()\nfor range c {\n continue\n}"},
	{name: "switch-break-loop", body: "for {\n switch {\n default:\n  break\n }\n}"},
	{name: "tmpl-for-continue", template: "{% for %}{% continue %}{% end %}"},
	{name: "tmpl-for-show", template: "{% for %}{{ 1 }}{% end %}"},
	{name: "tmpl-macro-recursion", template: "{% macro M %}{{ M() }}{% end %}{{ M() }}"},
	// terminating programs
	{name: "t-print", body: "println(1)", terminating: true},
	{name: "t-loop10", body: "s := 0\nfor i := 0; i < 10; i++ {\n s += i\n}\nprintln(s)", terminating: true},
	{name: "t-go-join", body: "d := make(chan int)\ngo func() {\n d <- 7\n}()\nprintln(<-d)", terminating: true},
	{name: "t-select-default", body: "c := make(chan int)\nselect {\ncase <-c:\n println(1)\ndefault:\n println(2)\n}", terminating: true},
	{name: "t-recursion5", decls: "func r(n int) int {\n if n == 0 {\n  return 0\n }\n return r(n-1) + 1\n}", body: "println(r(5))", terminating: true},
	{name: "t-buffered", body: "c := make(chan int, 1)\nc <- 3\nprintln(<-c)", terminating: true},
	{name: "t-select-ready", body: "c := make(chan int, 1)\nd := make(chan int, 1)\nc <- 1\nd <- 2\ns := 0\nfor i := 0; i < 2; i++ {\n select {\n case v := <-c:\n  s += v\n case w := <-d:\n  s += w\n }\n}\nprintln(s)", terminating: true},
}

func source(p prog) string {
	imp := ""
	if strings.Contains(p.body, "host.") {
		imp = "import \"host\"\n\n"
	}
	return "package main\n\n" + imp + p.decls + "\n\nfunc main() {\n" + p.body + "\n}\n"
}

var hostPkg = native.Packages{"host": native.Package{Name: "host", Declarations: native.Declarations{
	"Call": func(f func()) { f() },
	// Poll calls ready until it reports success (a native helper that keeps calling back).
	"Poll": func(ready func() bool) {
		for !ready() {
		}
	},
}}}

type state struct {
	mu            sync.Mutex
	out           strings.Builder
	runErr        error
	status        string
	mainReturned  bool
	cancelledLive bool // cancel() was called before Run returned
	cancelled     bool
}

// deadlineCtx is a cancellable context that also reports a deadline one hour
// away (as context.WithTimeout does) without arming any timer of its own.
type deadlineCtx struct {
	context.Context
	deadline time.Time
}

func (c deadlineCtx) Deadline() (time.Time, bool) { return c.deadline, true }

type discard struct{}

func (discard) Write(p []byte) (int, error) { return len(p), nil }

// scenario: ctxKind is "cancel" (context.WithCancel) or "deadline" (a
// cancellable context with a far deadline, cancelled explicitly).
func scenario(p prog, horizon, bound int, ctxKind string) *sched.Scenario {
	var once sync.Once
	var sp *scriggo.Program
	var tp *scriggo.Template
	var buildErr error
	src := source(p)
	if p.template != "" {
		src = p.template
	}
	name := p.name
	if ctxKind != "cancel" {
		name += "+" + ctxKind
	}
	return &sched.Scenario{
		Name:       name,
		Bound:      bound,
		MaxPoints:  horizon + 400,
		DoneOracle: true,
		CapKey: func(x *sched.Exec) string {
			if x.Cancelled {
				return "not-stopped-after-cancel|still-running-at-the-horizon"
			}
			return ""
		},
		Visible: func(ev *scriggo.VerifEvent) bool { return true },
		Prepare: func() {
			once.Do(func() {
				if p.template != "" {
					tp, buildErr = scriggo.BuildTemplate(scriggo.Files{"index.html": []byte(src)}, "index.html", nil)
					return
				}
				sp, buildErr = scriggo.Build(scriggo.Files{"main.go": []byte(src)}, &scriggo.BuildOptions{AllowGoStmt: true, Packages: hostPkg})
			})
		},
		Setup: func(x *sched.Exec) ([]sched.Driver, func(*sched.Exec) string) {
			st := &state{status: "not run"}
			x.User = st
			ctx, cancel := context.WithCancel(context.Background())
			if ctxKind == "deadline" {
				ctx = deadlineCtx{ctx, time.Now().Add(time.Hour)}
			}
			mainBody := func() {
				if buildErr != nil {
					st.status = "build error: " + buildErr.Error()
					return
				}
				defer func() {
					if r := recover(); r != nil {
						st.mu.Lock()
						st.status = fmt.Sprintf("host panic: %v", r)
						st.mainReturned = true
						st.mu.Unlock()
					}
				}()
				opts := &scriggo.RunOptions{Context: ctx, Print: func(v any) {
					st.mu.Lock()
					fmt.Fprint(&st.out, v)
					st.mu.Unlock()
				}}
				var err error
				if tp != nil {
					err = tp.Run(discard{}, nil, opts)
				} else {
					err = sp.Run(opts)
				}
				st.mu.Lock()
				st.runErr = err
				st.status = "returned"
				st.mainReturned = true
				st.mu.Unlock()
			}
			canceller := func() {
				st.mu.Lock()
				st.cancelledLive = !st.mainReturned
				st.cancelled = true
				st.mu.Unlock()
				x.Cancelled = true
				cancel()
			}
			return []sched.Driver{{Name: "main", Body: mainBody}, {Name: "cancel", Body: canceller, Free: true}},
				func(*sched.Exec) string {
					st.mu.Lock()
					defer st.mu.Unlock()
					return fmt.Sprintf("status=%s err=%v live=%v out=%q", st.status, st.runErr, st.cancelledLive, st.out.String())
				}
		},
		Policy: func(x *sched.Exec, enabled []*sched.Thread, cur *sched.Thread, idx int) ([]*sched.Thread, []int) {
			// environment events first: a pending watcher is the default next step
			// (delaying it is a deviation); the cancel event is free at every point
			// and forced once the horizon is reached.
			var watchers, others []*sched.Thread
			var canc *sched.Thread
			curParked := false
			for _, t := range enabled {
				switch {
				case t.Watcher:
					watchers = append(watchers, t)
				case t.Free:
					canc = t
				default:
					if t == cur {
						curParked = true
					} else {
						others = append(others, t)
					}
				}
			}
			if canc != nil && idx >= horizon {
				return []*sched.Thread{canc}, []int{0}
			}
			sort.Slice(watchers, func(a, b int) bool { return watchers[a].ID < watchers[b].ID })
			sort.Slice(others, func(a, b int) bool { return others[a].ID < others[b].ID })
			var ord []*sched.Thread
			var costs []int
			ord = append(ord, watchers...)
			if curParked {
				ord = append(ord, cur)
			}
			ord = append(ord, others...)
			for i := range ord {
				c := 0
				if i > 0 && (len(watchers) > 0 || curParked) {
					c = 1
				}
				costs = append(costs, c)
			}
			if canc != nil {
				ord = append(ord, canc)
				costs = append(costs, 0)
			}
			return ord, costs
		},
		Check: func(x *sched.Exec, obs string) (bool, string, string) {
			st := x.User.(*state)
			st.mu.Lock()
			defer st.mu.Unlock()
			detail := "program " + p.name + ":\n" + src + "\nobservation: " + obs
			if strings.HasPrefix(obs, "DEADLOCK") || strings.HasPrefix(obs, "LEAK") {
				return false, "not-stopped-after-cancel|" + strings.Fields(obs)[0], detail
			}
			if strings.HasPrefix(st.status, "host panic") {
				return false, "host-panic", detail
			}
			if strings.HasPrefix(st.status, "build error") {
				return false, "harness|build-error", detail
			}
			if st.status != "returned" {
				return false, "run-did-not-return", detail
			}
			switch {
			case !p.terminating:
				if st.runErr != context.Canceled {
					return false, "wrong-error-after-cancel", detail
				}
			case st.cancelledLive:
				// cancel raced with completion: the context's error or the program's own outcome
				if st.runErr != nil && st.runErr != context.Canceled {
					return false, "wrong-error-after-cancel", detail
				}
			default:
				// finished before cancellation: the program's own outcome
				if st.runErr != nil {
					return false, "late-cancel-changed-outcome", detail
				}
			}
			return true, "", ""
		},
	}
}

func TestVerif(t *testing.T) {
	sched.RunCheck(t, &sched.CheckSpec{
		ID:    "C11",
		Level: "model_checking",
		Rule:  "for each of 30 non-terminating/blocking programs and templates (loops, loops made only of jumps — continue, goto cycles, break in switch —, recursion, blocked channel operations and selects, goroutines, native callbacks, native helpers that poll a callback, template for/continue/macro recursion) and 7 terminating ones, with a context.WithCancel context and (10 of them) with a cancellable context that also reports a far deadline, run on the real VM under the controlled scheduler with EVERY instruction a scheduling point: the cancel event is fired at every global step k = 0..horizon and once everything is blocked; the context watcher goroutine (the step between ctx.Done firing and the done flag being stored) is delayed by every j <= deviation_bound further steps; goroutine interleavings and ready-vs-done choices of channel operations are enumerated within the same deviation bound. Oracles: Run returns exactly context.Canceled (or the program's own outcome if it finished first), every thread stops (no deadlock, no leaked goroutine in the bubble), and no thread starts an instruction after being resumed with the done flag visible",
		Assumptions: []string{
			"'bounded delay' is measured in VM instructions under the controlled scheduler, never in wall-clock time",
			"native host functions that block outside the VM are not modelled (the only native used is a callback trampoline)",
			"cancellation later than the horizon and more than deviation_bound delays/preemptions are not explored",
		},
		Scenarios: func(tier string) []*sched.Scenario {
			h, b := 40, 2
			if tier == "thorough" {
				h, b = 120, 3
			}
			var scs []*sched.Scenario
			for _, p := range programs {
				scs = append(scs, scenario(p, h, b, "cancel"))
			}
			// the same with a context that also has a (far) deadline, cancelled explicitly
			for _, p := range programs {
				switch p.name {
				case "tight-loop", "loop-call", "send-no-partner", "select-blocked-loop", "go-loop-and-loop", "native-callback-loop", "native-poll-callback-recv", "tmpl-for-show", "t-loop10", "t-go-join":
					scs = append(scs, scenario(p, h, b, "deadline"))
				}
			}
			return scs
		},
		MaxExec: func(tier string) int {
			if tier == "thorough" {
				return 600000
			}
			return 40000
		},
	})
}
