#!/bin/bash
exec /verif/bin/schedcheck.sh C11 ./checks/c11 0 "$@"
