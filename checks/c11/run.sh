#!/bin/bash
# C11 is built with go1.26.8 and the reflect overlay so that the scheduler also
# has points between two channel primitives of one VM instruction (DESIGN §3.2).
VERIF_INTRA=1 exec /verif/bin/schedcheck.sh C11 ./checks/c11 0 "$@"
