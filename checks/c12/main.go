// C12 — Run reports Stop, Fatal and unrecovered panics exactly as documented.
//
// Every program/template of a small family is generated: a chain of frames
// (main, f1, f2 / template body, macro), every frame with a list of deferred
// calls taken from 7 kinds, an action (panic of 8 value kinds, 3 runtime
// faults, host.Stop, host.Fatal) placed at one of 6 sites of the innermost
// frame. One statement per source line, so that the line of every panic is
// known by construction. The expected behaviour is computed by a small model
// of Go's defer/panic/recover semantics (validated against the gc toolchain at
// development time, see gccheck.go) and compared with what Run reports
// through the PUBLIC API only. Four aspects are checked in separate spaces so
// that one defect does not hide another:
//
//	outcome   result kind (nil / *PanicError / Stop error identity / Fatal value identity) and markers
//	chainend  the Next() chain terminates with nil (bounded at 50)
//	chain     messages in order and recovered flags
//	location  Path() and Position().Line of every panic of the chain
package main

import (
	"errors"
	"fmt"
	"os"
	"reflect"
	"runtime"
	"strings"

	nc "verif/gen/nativecalls"
	"verif/kit"

	"github.com/open2b/scriggo"
	"github.com/open2b/scriggo/native"
)

// ---- shape ----

// defer kinds
const (
	dMarker = iota
	dRecover
	dNewPanic
	dRecoverNewPanic
	dNativeMark
	dNativeStop
	dNativeFatal
	numDeferKinds // the kinds of the base families
	dAction       // internal: the action deferred by the site
	// kinds of the "pending" families: Stop/Fatal called by a deferred closure,
	// possibly while a panic is pending or right after recover()
	dClosureStop
	dClosureFatal
	dRecoverStop
	dRecoverFatal
)

var deferNames = []string{"marker", "recover", "newpanic", "recover+newpanic", "native-mark", "native-stop", "native-fatal", "", "(action)",
	"closure-stop", "closure-fatal", "recover+stop", "recover+fatal"}

var baseKinds = []int{dMarker, dRecover, dNewPanic, dRecoverNewPanic, dNativeMark, dNativeStop, dNativeFatal}
var pendingKinds = []int{dRecover, dNewPanic, dNativeStop, dNativeFatal, dClosureStop, dClosureFatal, dRecoverStop, dRecoverFatal}

// sites
const (
	sBody = iota
	sDeferredClosure
	sClosure
	sCallee
	sCallback
	sDeferredDirect
	numSites
)

var siteNames = []string{"body", "deferred-closure", "closure", "callee", "callback", "deferred-direct"}

// actions
const (
	aPanicString = iota
	aPanicInt
	aPanicHostErr
	aPanicCustomErr
	aPanicNilAny
	aPanicStruct
	aPanicFloat
	aPanicStringer
	aFaultNilMap
	aFaultIndex
	aFaultDivide
	aStop
	aFatal
	numActions                  // the actions of the base families
	aShowStop  = numActions     // templates: {{ v }} of a native.EnvStringer that calls env.Stop
	aShowFatal = numActions + 1 // the same calling env.Fatal
	aExtra     = numActions + 2 // first of the extra runtime faults (extraFaults)
)

// templates: the output writer fails on the write of a shown value / of a text
var aWriteFailShow, aWriteFailText int

func init() {
	aWriteFailShow = aExtra + len(extraFaults)
	aWriteFailText = aWriteFailShow + 1
}

func isWriteFail(a int) bool { return a == aWriteFailShow || a == aWriteFailText }

// extraFault is a runtime fault with variable (non-constant) operands. H. is
// the prefix of host names. msg is a phrase of gc's message that the message
// of the PanicError must contain.
type extraFault struct {
	name string
	pre  []string
	stmt string
	msg  string
}

const nilDeref = "nil pointer dereference"

var extraFaults = []extraFault{
	{"index string", []string{`s := "abc"`, `i := 5`}, `_ = s[i]`, "index out of range [5] with length 3"},
	{"index string (negative)", []string{`s := "abc"`, `i := -1`}, `_ = s[i]`, "index out of range [-1]"},
	{"index slice read", []string{`a := []int{1, 2, 3}`, `i := 5`}, `_ = a[i]`, "index out of range [5] with length 3"},
	{"index slice write", []string{`a := []int{1, 2, 3}`, `i := 5`}, `a[i] = 1`, "index out of range [5] with length 3"},
	{"index slice of strings read", []string{`a := []string{"x"}`, `i := 1`}, `_ = a[i]`, "index out of range [1] with length 1"},
	{"index slice of any write", []string{`a := []any{1}`, `i := 1`}, `a[i] = nil`, "index out of range [1] with length 1"},
	{"index array read", []string{`var arr [3]int`, `i := 3`}, `_ = arr[i]`, "index out of range [3] with length 3"},
	{"index array write", []string{`var arr [3]int`, `i := 3`}, `arr[i] = 1`, "index out of range [3] with length 3"},
	{"index pointer to array read", []string{`pa := &[3]int{}`, `i := 3`}, `_ = pa[i]`, "index out of range [3] with length 3"},
	{"index pointer to array write", []string{`pa := &[3]int{}`, `i := 3`}, `pa[i] = 1`, "index out of range [3] with length 3"},
	{"address of slice element", []string{`a := []int{1, 2, 3}`, `i := 3`}, `_ = &a[i]`, "index out of range [3] with length 3"},
	{"slice string", []string{`s := "abc"`, `j := 10`}, `_ = s[:j]`, "slice bounds out of range"},
	{"slice string inverted", []string{`s := "abc"`, `i := 2`, `j := 1`}, `_ = s[i:j]`, "slice bounds out of range"},
	{"slice slice", []string{`a := []int{1, 2, 3}`, `j := 10`}, `_ = a[:j]`, "slice bounds out of range"},
	{"slice3 slice", []string{`a := []int{1, 2, 3}`, `k := 10`}, `_ = a[0:1:k]`, "slice bounds out of range"},
	{"slice array", []string{`var arr [3]int`, `j := 10`}, `_ = arr[:j]`, "slice bounds out of range"},
	{"slice3 array", []string{`var arr [3]int`, `k := 10`}, `_ = arr[0:1:k]`, "slice bounds out of range"},
	{"slice pointer to array", []string{`pa := &[3]int{}`, `j := 10`}, `_ = pa[:j]`, "slice bounds out of range"},
	{"assertion to concrete type", []string{`var x any = "s"`}, `_ = x.(int)`, "interface conversion"},
	{"assertion to interface", []string{`var x any = 1`}, `_ = x.(error)`, "interface conversion"},
	{"assertion on nil", []string{`var x any`}, `_ = x.(int)`, "interface conversion"},
	{"assertion to host type", []string{`var x any = 1`}, `_ = x.(H.S)`, "interface conversion"},
	{"nil map write (variable key)", []string{`var m map[string]int`, `k := "a"`}, `m[k] = 1`, "nil map"},
	{"nil pointer read", []string{`var p *int`}, `_ = *p`, nilDeref},
	{"nil pointer write", []string{`var p *int`, `v := 1`}, `*p = v`, nilDeref},
	{"nil pointer field read", []string{`var p *H.S`}, `_ = p.X`, nilDeref},
	{"nil pointer field write", []string{`var p *H.S`, `v := 1`}, `p.X = v`, nilDeref},
	{"nil pointer nested field", []string{`p := &H.S{}`}, `_ = p.P.X`, nilDeref},
	{"nil pointer to array index", []string{`var pa *[3]int`, `i := 0`}, `_ = pa[i]`, nilDeref},
	{"nil func call", []string{`var f func()`}, `f()`, nilDeref},
	{"nil interface method call", []string{`var e error`}, `_ = e.Error()`, nilDeref},
	{"divide int", []string{`x := 7`, `z := 0`}, `_ = x / z`, "divide by zero"},
	{"modulo int", []string{`x := 7`, `z := 0`}, `_ = x % z`, "divide by zero"},
	{"divide uint8", []string{`var x uint8 = 7`, `var z uint8`}, `_ = x / z`, "divide by zero"},
	{"modulo uint8", []string{`var x uint8 = 7`, `var z uint8`}, `_ = x % z`, "divide by zero"},
	{"divide-assign int64", []string{`var x int64 = 7`, `var z int64`}, `x /= z`, "divide by zero"},
	{"modulo-assign int16", []string{`var x int16 = 7`, `var z int16`}, `x %= z`, "divide by zero"},
	{"close nil channel", []string{`var c chan int`}, `close(c)`, "close of nil channel"},
	{"close closed channel", []string{`c := make(chan int)`, `close(c)`}, `close(c)`, "close of closed channel"},
	{"send on closed channel", []string{`c := make(chan int, 1)`, `close(c)`, `v := 1`}, `c <- v`, "send on closed channel"},
	{"make negative len", []string{`n := -1`}, `_ = make([]int, n)`, "len out of range"},
	{"make negative cap", []string{`n := -1`}, `_ = make([]int, 0, n)`, "cap out of range"},
	{"make chan negative", []string{`n := -1`}, `_ = make(chan int, n)`, "size out of range"},
	{"unhashable key write", []string{`m := map[any]int{}`, `var k any = []int{1}`}, `m[k] = 1`, "unhashable type"},
	{"unhashable key read", []string{`m := map[any]int{}`, `var k any = []int{1}`}, `_ = m[k]`, "unhashable type"},
	{"unhashable key delete", []string{`m := map[any]int{}`, `var k any = []int{1}`}, `delete(m, k)`, "unhashable type"},
	{"uncomparable ==", []string{`var a any = []int{1}`, `var b any = []int{1}`}, `_ = a == b`, "uncomparable type"},
	{"slice to array pointer conversion", []string{`a := []int{1, 2}`}, `_ = (*[4]int)(a)`, "cannot convert slice with length 2"},
}

// faultCategory groups the extra faults by the instruction that faults.
func faultCategory(a int) string {
	n := extraFaults[a-aExtra].name
	for _, c := range [][2]string{{"index", "index"}, {"address", "index"}, {"slice3", "slicing"}, {"slice to", "conversion"}, {"slice", "slicing"}, {"assertion", "type assertion"},
		{"nil map", "map assignment"}, {"nil func", "nil func call"}, {"nil interface", "nil interface method"}, {"nil pointer field", "nil pointer field access"}, {"nil pointer nested", "nil pointer field access"}, {"nil pointer to array", "index through a nil pointer to array"}, {"nil pointer", "nil pointer dereference"}, {"divide", "integer division"}, {"modulo", "integer division"},
		{"close", "channel"}, {"send", "channel"}, {"make", "make"}, {"unhashable key delete", "map delete"}, {"unhashable", "map key hashing"}, {"uncomparable", "comparison"}} {
		if strings.HasPrefix(n, c[0]) {
			return c[1]
		}
	}
	return n
}

func actionName(a int) string {
	switch {
	case a == aWriteFailShow:
		return "out.Write fails on a shown value"
	case a == aWriteFailText:
		return "out.Write fails on a text"
	case a < numActions:
		return actionNames[a]
	case a == aShowStop:
		return "show of an EnvStringer calling Stop"
	case a == aShowFatal:
		return "show of an EnvStringer calling Fatal"
	}
	return "fault: " + extraFaults[a-aExtra].name
}

var actionNames = []string{"panic(string)", "panic(int)", "panic(host error)", "panic(custom error)", "panic(nil any)", "panic(struct)", "panic(float)", "panic(Stringer)",
	"nil map write", "index out of range", "divide by zero", "Stop", "Fatal"}

func actionClass(a int) string {
	switch {
	case isWriteFail(a):
		return "write"
	case a >= aExtra:
		return "fault"
	case a == aShowStop:
		return "stop"
	case a == aShowFatal:
		return "fatal"
	case a <= aPanicStringer:
		return "panic"
	case a <= aFaultDivide:
		return "fault"
	case a == aStop:
		return "stop"
	}
	return "fatal"
}

// layouts
const (
	lProgram        = iota
	lTemplate       // frames: template body [+ macro M of the same file]
	lTemplateImport // frames: template body + macro M of imp.html
)

type shape struct {
	layout int
	frames [][]int // defer kinds of every frame; frames[0] is main / the template body
	site   int
	action int
}

func (s shape) String() string {
	var fr []string
	for _, f := range s.frames {
		var ds []string
		for _, d := range f {
			ds = append(ds, deferNames[d])
		}
		fr = append(fr, "["+strings.Join(ds, ",")+"]")
	}
	return fmt.Sprintf("layout=%d frames=%s site=%s action=%s", s.layout, strings.Join(fr, ""), siteNames[s.site], actionName(s.action))
}

// applicable reports whether the combination exists.
func (s shape) applicable() bool {
	if s.site == sDeferredDirect && actionClass(s.action) == "fault" {
		return false // a fault has no deferrable call form
	}
	if (s.action == aShowStop || s.action == aShowFatal || isWriteFail(s.action)) && (s.layout == lProgram || s.site != sBody) {
		return false // the show statement exists in template bodies and macro bodies only
	}
	if s.layout != lProgram && s.site == sCallee {
		return false // templates cannot declare package-level functions
	}
	return true
}

// ---- plan: the generated source plus what the model needs ----

type deferItem struct {
	kind      int
	tag       string
	panicLine int
	file      string
}

type framePlan struct {
	defers  []deferItem
	in, out string
}

type plan struct {
	sh         shape
	files      map[string]string
	entry      string
	frames     []framePlan
	actionLine int
	actionFile string
}

type srcWriter struct {
	b    strings.Builder
	line int
}

func (w *srcWriter) ln(s string) int {
	w.line++
	w.b.WriteString(s)
	w.b.WriteByte('\n')
	return w.line
}

// gen generates the source of a shape. h is the prefix of host functions
// ("host." in programs, "" in templates), sfx a suffix for top level names
// (used by the gc validation only).
type gen struct {
	p    *plan
	h    string
	sfx  string
	tmpl bool
}

func (g *gen) emitDefers(w *srcWriter, fi int, file string) {
	fp := &g.p.frames[fi]
	for k, kind := range g.p.sh.frames[fi] {
		tag := fmt.Sprintf("%d.%d", fi, k)
		it := deferItem{kind: kind, tag: tag, file: file}
		switch kind {
		case dMarker:
			w.ln("\tdefer func() {")
			w.ln("\t\t" + g.h + "Mark(\"d" + tag + "\")")
			w.ln("\t}()")
		case dRecover:
			w.ln("\tdefer func() {")
			w.ln("\t\tr := recover()")
			w.ln("\t\tif s, ok := r.(string); ok {")
			w.ln("\t\t\t" + g.h + "Mark(\"r" + tag + "=\" + s)")
			w.ln("\t\t} else if r != nil {")
			w.ln("\t\t\t" + g.h + "Mark(\"r" + tag + "+\")")
			w.ln("\t\t} else {")
			w.ln("\t\t\t" + g.h + "Mark(\"r" + tag + "-\")")
			w.ln("\t\t}")
			w.ln("\t}()")
		case dNewPanic:
			w.ln("\tdefer func() {")
			it.panicLine = w.ln("\t\tpanic(\"N" + tag + "\")")
			w.ln("\t}()")
		case dRecoverNewPanic:
			w.ln("\tdefer func() {")
			w.ln("\t\trecover()")
			it.panicLine = w.ln("\t\tpanic(\"N" + tag + "\")")
			w.ln("\t}()")
		case dNativeMark:
			w.ln("\tdefer " + g.h + "Mark(\"n" + tag + "\")")
		case dNativeStop:
			w.ln("\tdefer " + g.h + "Stop()")
		case dNativeFatal:
			w.ln("\tdefer " + g.h + "Fatal()")
		case dClosureStop, dClosureFatal, dRecoverStop, dRecoverFatal:
			w.ln("\tdefer func() {")
			if kind == dRecoverStop || kind == dRecoverFatal {
				w.ln("\t\trecover()")
			}
			if kind == dClosureStop || kind == dRecoverStop {
				w.ln("\t\t" + g.h + "Stop()")
			} else {
				w.ln("\t\t" + g.h + "Fatal()")
			}
			w.ln("\t}()")
		}
		fp.defers = append(fp.defers, it)
	}
}

// actionLines returns the preamble lines and the statement of the action;
// direct means the form usable after "defer ".
func (g *gen) actionLines() (pre []string, stmt string) {
	switch g.p.sh.action {
	case aPanicString:
		return nil, `panic("A")`
	case aPanicInt:
		return nil, `panic(7)`
	case aPanicHostErr:
		return nil, "panic(" + g.h + "Err)"
	case aPanicCustomErr:
		return nil, "panic(" + g.h + "MyErr{})"
	case aPanicNilAny:
		return []string{"var x any"}, "panic(x)"
	case aPanicStruct:
		return nil, "panic(struct{ A int }{3})"
	case aPanicFloat:
		return nil, "panic(1.5)"
	case aPanicStringer:
		return nil, "panic(" + g.h + "MyStr{})"
	case aFaultNilMap:
		return []string{"var m map[string]int"}, `m["a"] = 1`
	case aFaultIndex:
		return []string{"s := []int{1}", "i := 5"}, "_ = s[i]"
	case aFaultDivide:
		return []string{"z := 0"}, "_ = 1 / z"
	case aStop:
		return nil, g.h + "Stop()"
	case aFatal:
		return nil, g.h + "Fatal()"
	case aShowStop:
		return nil, "show StopStr"
	case aShowFatal:
		return nil, "show FatalStr"
	}
	if g.p.sh.action == aWriteFailShow {
		return nil, "show \"WRITE-FAILS\""
	}
	if g.p.sh.action == aWriteFailText {
		return nil, "%%}WRITE-FAILS{%%"
	}
	if a := g.p.sh.action; a >= aExtra {
		f := extraFaults[a-aExtra]
		for _, l := range f.pre {
			pre = append(pre, strings.ReplaceAll(l, "H.", g.h))
		}
		return pre, strings.ReplaceAll(f.stmt, "H.", g.h)
	}
	panic("bad action")
}

func (g *gen) emitAction(w *srcWriter, indent, file string) {
	pre, stmt := g.actionLines()
	for _, l := range pre {
		w.ln(indent + l)
	}
	g.p.actionLine = w.ln(indent + stmt)
	g.p.actionFile = file
}

// emitSite emits the site in the innermost frame.
func (g *gen) emitSite(w *srcWriter, file string) {
	switch g.p.sh.site {
	case sBody:
		g.emitAction(w, "\t", file)
	case sDeferredClosure:
		w.ln("\tdefer func() {")
		g.emitAction(w, "\t\t", file)
		w.ln("\t}()")
	case sClosure:
		w.ln("\tfunc() {")
		g.emitAction(w, "\t\t", file)
		w.ln("\t}()")
	case sCallee:
		w.ln("\tcallee" + g.sfx + "()")
	case sCallback:
		w.ln("\t" + g.h + "Call(func() {")
		g.emitAction(w, "\t\t", file)
		w.ln("\t})")
	case sDeferredDirect:
		pre, stmt := g.actionLines()
		for _, l := range pre {
			w.ln("\t" + l)
		}
		g.p.actionLine = w.ln("\tdefer " + stmt)
		g.p.actionFile = file
	}
}

func (g *gen) emitFrameBody(w *srcWriter, fi int, file string, call string) {
	fp := &g.p.frames[fi]
	fp.in = fmt.Sprintf("%d-in", fi)
	fp.out = fmt.Sprintf("%d-out", fi)
	g.emitDefers(w, fi, file)
	w.ln("\t" + g.h + "Mark(\"" + fp.in + "\")")
	if fi == len(g.p.frames)-1 {
		g.emitSite(w, file)
	} else if call != "" {
		w.ln("\t" + call)
	}
}

func frameName(i int, sfx string) string {
	if i == 0 {
		return "main" + sfx
	}
	return fmt.Sprintf("f%d%s", i, sfx)
}

// program generates a Go program. withHeader is false for the gc validation
// where many cases share one file.
func genProgram(sh shape, sfx string, w *srcWriter, withHeader bool) *plan {
	p := &plan{sh: sh, frames: make([]framePlan, len(sh.frames)), entry: "main.go"}
	g := &gen{p: p, h: "host.", sfx: sfx}
	if withHeader {
		w.ln("package main")
		w.ln("import \"host\"")
	}
	// Scriggo has no method declarations: the custom error and Stringer
	// types are host types; the "callee" site is a package-level function.
	w.ln("func callee" + sfx + "() {")
	if sh.site == sCallee {
		g.emitAction(w, "\t", "main.go")
	}
	w.ln("}")
	for fi := len(sh.frames) - 1; fi >= 0; fi-- {
		w.ln("func " + frameName(fi, sfx) + "() {")
		call := ""
		if fi < len(sh.frames)-1 {
			call = frameName(fi+1, sfx) + "()"
		}
		g.emitFrameBody(w, fi, "main.go", call)
		w.ln("\thost.Mark(\"" + p.frames[fi].out + "\")")
		w.ln("}")
	}
	if withHeader {
		p.files = map[string]string{"main.go": w.b.String()}
	}
	return p
}

func genTemplate(sh shape) *plan {
	p := &plan{sh: sh, frames: make([]framePlan, len(sh.frames)), entry: "index.html", files: map[string]string{}}
	g := &gen{p: p, h: "", tmpl: true}
	w := &srcWriter{}
	two := len(sh.frames) == 2
	emitMacro := func(w *srcWriter, file string) {
		w.ln("{% macro M %}")
		w.ln("{%%")
		g.emitFrameBody(w, 1, file, "")
		w.ln("\tMark(\"" + p.frames[1].out + "\")")
		w.ln("%%}")
		w.ln("{% end %}")
	}
	if two {
		if sh.layout == lTemplateImport {
			iw := &srcWriter{}
			emitMacro(iw, "imp.html")
			p.files["imp.html"] = iw.b.String()
			w.ln("{% import \"imp.html\" %}")
		} else {
			emitMacro(w, "index.html")
		}
	}
	w.ln("{%%")
	g.emitFrameBody(w, 0, "index.html", "")
	w.ln("%%}")
	if two {
		w.ln("{{ M() }}")
	}
	w.ln("{%%")
	w.ln("\tMark(\"" + p.frames[0].out + "\")")
	w.ln("%%}")
	p.files["index.html"] = w.b.String()
	return p
}

func makePlan(sh shape) *plan {
	if sh.layout == lProgram {
		return genProgram(sh, "", &srcWriter{}, true)
	}
	return genTemplate(sh)
}

// ---- model of Go's defer / panic / recover ----

type rec struct {
	write     bool   // the panic of a failed out.Write
	val       string // identifies the value: "A" for the action, "N<tag>" for new panics
	action    bool
	line      int
	file      string
	noLine    bool // position not determined by construction (deferred builtin panic)
	recovered bool
}

const (
	rNil = iota
	rPanic
	rStop
	rFatal
	rWrite // Run returns the error of out.Write
)

type expectation struct {
	nativeDeferredWhilePanicking bool // a deferred native/builtin call ran while a panic was active

	kind  int
	marks []string
	chain []*rec // newest first, as walked with Next()
}

type modelStop struct{ kind int }

type model struct {
	nativeWhilePanicking bool

	p     *plan
	marks []string
	stack []*rec
}

func (m *model) mark(s string) { m.marks = append(m.marks, s) }

func (m *model) push(r *rec) *rec {
	m.stack = append(m.stack, r)
	return r
}

// doAction performs the action; it returns the new panic, if any.
func (m *model) doAction(direct bool) *rec {
	switch actionClass(m.p.sh.action) {
	case "stop":
		panic(modelStop{rStop})
	case "fatal":
		panic(modelStop{rFatal})
	}
	if isWriteFail(m.p.sh.action) {
		// the write error is raised as a panic by the Show/Text instruction
		return m.push(&rec{val: "W", action: true, write: true, noLine: true})
	}
	return m.push(&rec{val: "A", action: true, line: m.p.actionLine, file: m.p.actionFile, noLine: direct})
}

func (m *model) runDeferred(it deferItem, cur *rec) *rec {
	if cur != nil {
		switch {
		case it.kind == dNativeMark, it.kind == dNativeStop, it.kind == dNativeFatal, it.kind == dAction && m.p.sh.site == sDeferredDirect:
			m.nativeWhilePanicking = true
		}
	}
	switch it.kind {
	case dMarker:
		m.mark("d" + it.tag)
	case dNativeMark:
		m.mark("n" + it.tag)
	case dRecover:
		if cur != nil && !cur.recovered {
			cur.recovered = true
			if !cur.action || m.p.sh.action == aPanicString {
				m.mark("r" + it.tag + "=" + cur.val)
			} else {
				m.mark("r" + it.tag + "+")
			}
			// the deferred call returns: the recovered panic and every panic
			// it aborted leave the list (all of them started in deeper frames)
			m.stack = m.stack[:0]
			return nil
		}
		m.mark("r" + it.tag + "-")
	case dNewPanic:
		return m.push(&rec{val: "N" + it.tag, line: it.panicLine, file: it.file})
	case dRecoverNewPanic:
		if cur != nil {
			cur.recovered = true
		}
		return m.push(&rec{val: "N" + it.tag, line: it.panicLine, file: it.file})
	case dNativeStop, dClosureStop:
		panic(modelStop{rStop})
	case dNativeFatal, dClosureFatal:
		panic(modelStop{rFatal})
	case dRecoverStop, dRecoverFatal:
		if cur != nil {
			cur.recovered = true
		}
		if it.kind == dRecoverStop {
			panic(modelStop{rStop})
		}
		panic(modelStop{rFatal})
	case dAction:
		if r := m.doAction(m.p.sh.site == sDeferredDirect); r != nil {
			return r
		}
	}
	return cur
}

func (m *model) runFrame(i int) *rec {
	f := m.p.frames[i]
	var cur *rec
	items := append([]deferItem{}, f.defers...)
	m.mark(f.in)
	if i < len(m.p.frames)-1 {
		cur = m.runFrame(i + 1)
	} else {
		switch m.p.sh.site {
		case sDeferredClosure, sDeferredDirect:
			items = append(items, deferItem{kind: dAction})
		default:
			cur = m.doAction(false)
		}
	}
	if cur == nil {
		m.mark(f.out)
	}
	for k := len(items) - 1; k >= 0; k-- {
		cur = m.runDeferred(items[k], cur)
	}
	return cur
}

func expect(p *plan) (e expectation) {
	m := &model{p: p}
	defer func() {
		if r := recover(); r != nil {
			st, ok := r.(modelStop)
			if !ok {
				panic(r)
			}
			e = expectation{kind: st.kind, marks: m.marks, nativeDeferredWhilePanicking: m.nativeWhilePanicking}
		}
	}()
	cur := m.runFrame(0)
	if len(p.frames) == 2 && p.sh.layout != lProgram && cur == nil {
		// template: the body continues after {{ M() }} — the out marker of
		// frame 0 is emitted by the last block; runFrame already recorded it
		// in the right order because nothing else is printed in between.
	}
	e = expectation{kind: rNil, marks: m.marks, nativeDeferredWhilePanicking: m.nativeWhilePanicking}
	if cur != nil && cur.write {
		// Run returns the error of out.Write when the write failure is what ends the run
		e.kind = rWrite
	} else if cur != nil {
		e.kind = rPanic
		for k := len(m.stack) - 1; k >= 0; k-- {
			e.chain = append(e.chain, m.stack[k])
		}
	}
	return e
}

// ---- running the real thing ----

type hostErrT struct{ s string }

func (e *hostErrT) Error() string { return e.s }

// MyErr and MyStr are the host types used by templates.
type MyErr struct{}

func (MyErr) Error() string { return "myErr-msg" }

type MyStr struct{}

func (MyStr) String() string { return "myStr-msg" }

type fatalValue struct{ n int }

// failingWriter fails on the write that carries the text WRITE-FAILS.
type failingWriter struct{ err error }

func (w failingWriter) Write(p []byte) (int, error) {
	if strings.Contains(string(p), "WRITE-FAILS") {
		return 0, w.err
	}
	return len(p), nil
}

// S is a host struct type used by the nil pointer faults.
type S struct {
	X int
	P *S
}

// envStringer is a native.EnvStringer whose String method ends the execution.
type envStringer struct{ do func(native.Env) }

func (e envStringer) String(env native.Env) string { e.do(env); return "" }

type elem struct {
	msg       any
	str       string
	recovered bool
	path      string
	line      int
}

type observation struct {
	buildErr  error
	kind      int
	err       error
	hostPanic any
	hostStack string
	marks     []string
	elems     []elem
	walkEnd   string // "nil" when the chain terminated properly
	errorText string
}

func walk(pe *scriggo.PanicError) (elems []elem, end string) {
	for i := 0; i < 50; i++ {
		var e elem
		ok := func() (ok bool) {
			defer func() {
				if r := recover(); r != nil {
					end = fmt.Sprintf("element %d: non-nil *PanicError whose accessors panic: %v", i, r)
				}
			}()
			e.msg = pe.Message()
			e.str = pe.String()
			e.recovered = pe.Recovered()
			e.path = pe.Path()
			e.line = pe.Position().Line
			return true
		}()
		if !ok {
			return
		}
		elems = append(elems, e)
		var next *scriggo.PanicError
		ok = func() (ok bool) {
			defer func() {
				if r := recover(); r != nil {
					end = fmt.Sprintf("element %d: Next() panics: %v", i, r)
				}
			}()
			next = pe.Next()
			return true
		}()
		if !ok {
			return
		}
		if next == nil {
			return elems, "nil"
		}
		pe = next
	}
	return elems, "no nil Next() within 50 elements (cycle?)"
}

func observe(p *plan) (o observation) {
	stopErr := &hostErrT{"E-stop"}
	writeErr := &hostErrT{"E-write"}
	hostErr := &hostErrT{"host-err"}
	fatalV := &fatalValue{1}
	var marks []string
	var hostErrVar error = hostErr
	stopStr := envStringer{func(env native.Env) { env.Stop(stopErr) }}
	fatalStr := envStringer{func(env native.Env) { env.Fatal(fatalV) }}
	decls := native.Declarations{
		"Mark":     func(s string) { marks = append(marks, s) },
		"Stop":     func(env native.Env) { env.Stop(stopErr) },
		"Fatal":    func(env native.Env) { env.Fatal(fatalV) },
		"Call":     func(f func()) { f() },
		"Err":      &hostErrVar,
		"S":        reflect.TypeOf(S{}),
		"StopStr":  &stopStr,
		"FatalStr": &fatalStr,
		"MyErr":    reflect.TypeOf(MyErr{}),
		"MyStr":    reflect.TypeOf(MyStr{}),
	}
	files := scriggo.Files{}
	for n, s := range p.files {
		files[n] = []byte(s)
	}
	var run func() error
	if p.sh.layout == lProgram {
		prog, err := scriggo.Build(files, &scriggo.BuildOptions{Packages: native.Packages{"host": native.Package{Name: "host", Declarations: decls}}})
		if err != nil {
			o.buildErr = err
			return
		}
		run = func() error { return prog.Run(nil) }
	} else {
		t, err := scriggo.BuildTemplate(files, p.entry, &scriggo.BuildOptions{Globals: decls})
		if err != nil {
			o.buildErr = err
			return
		}
		run = func() error { return t.Run(&strings.Builder{}, nil, nil) }
		if isWriteFail(p.sh.action) {
			run = func() error { return t.Run(failingWriter{writeErr}, nil, nil) }
		}
	}
	func() {
		defer func() {
			if r := recover(); r != nil {
				o.hostPanic = r
				buf := make([]byte, 1<<14)
				o.hostStack = string(buf[:runtime.Stack(buf, false)])
			}
		}()
		o.err = run()
	}()
	o.marks = marks
	switch {
	case o.hostPanic != nil:
		o.kind = rFatal
		if o.hostPanic != any(fatalV) {
			o.kind = -1 // a host panic that is not the Fatal value
		}
	case o.err == nil:
		o.kind = rNil
	case o.err == error(stopErr):
		o.kind = rStop
	case o.err == error(writeErr):
		o.kind = rWrite
	default:
		if pe, ok := o.err.(*scriggo.PanicError); ok && pe != nil {
			o.kind = rPanic
			o.elems, o.walkEnd = walk(pe)
			func() {
				defer func() {
					if r := recover(); r != nil {
						o.errorText = fmt.Sprintf("<Error() panics: %v>", r)
					}
				}()
				o.errorText = pe.Error()
			}()
		} else {
			o.kind = -2 // some other error
		}
	}
	// identity of the host error value, checked by the chain aspect
	for i := range o.elems {
		if o.elems[i].msg == any(hostErr) {
			o.elems[i].str = "\x00hosterr:" + o.elems[i].str
		}
	}
	return
}

func kindName(k int) string {
	switch k {
	case rNil:
		return "nil"
	case rPanic:
		return "*PanicError"
	case rStop:
		return "Stop-error"
	case rFatal:
		return "Fatal-value-panic"
	case rWrite:
		return "the-writer's-error"
	case -1:
		return "other-host-panic"
	}
	return "other-error"
}

func (o observation) describe() string {
	var b strings.Builder
	fmt.Fprintf(&b, "result=%s", kindName(o.kind))
	if o.hostPanic != nil {
		fmt.Fprintf(&b, " hostpanic=(%T) %v", o.hostPanic, o.hostPanic)
	}
	if o.err != nil {
		fmt.Fprintf(&b, " err=(%T) %q", o.err, o.errorOrErr())
	}
	fmt.Fprintf(&b, " marks=%v", o.marks)
	for i, e := range o.elems {
		fmt.Fprintf(&b, "\n  chain[%d]: msg=(%T)%q recovered=%v path=%q line=%d", i, e.msg, strings.TrimPrefix(e.str, "\x00hosterr:"), e.recovered, e.path, e.line)
	}
	if o.kind == rPanic {
		fmt.Fprintf(&b, "\n  walk end: %s", o.walkEnd)
	}
	return b.String()
}

func (o observation) errorOrErr() string {
	if o.errorText != "" {
		return o.errorText
	}
	return o.err.Error()
}

func (e expectation) describe() string {
	var b strings.Builder
	fmt.Fprintf(&b, "result=%s marks=%v", kindName(e.kind), e.marks)
	for i, r := range e.chain {
		fmt.Fprintf(&b, "\n  chain[%d]: value=%s recovered=%v file=%s line=%d", i, r.val, r.recovered, r.file, r.line)
	}
	return b.String()
}

// messageOK checks that the message of a chain element identifies the
// panicking value.
func messageOK(sh shape, r *rec, e elem) (bool, string) {
	if r.write {
		return e.msg != nil, "write-error-element-without-message"
	}
	if !r.action {
		if s, ok := e.msg.(string); !ok || s != r.val {
			return false, "new-panic-string"
		}
		return true, ""
	}
	str := strings.TrimPrefix(e.str, "\x00hosterr:")
	switch sh.action {
	case aPanicString:
		if s, ok := e.msg.(string); !ok || s != "A" {
			return false, "string"
		}
	case aPanicInt:
		if n, ok := e.msg.(int); !ok || n != 7 {
			return false, "int"
		}
	case aPanicFloat:
		if f, ok := e.msg.(float64); !ok || f != 1.5 {
			return false, "float"
		}
	case aPanicHostErr:
		if !strings.HasPrefix(e.str, "\x00hosterr:") {
			return false, "host-error-identity"
		}
	case aPanicCustomErr:
		if !strings.Contains(str, "myErr-msg") {
			return false, "custom-error-text"
		}
	case aPanicStringer:
		if !strings.Contains(str, "myStr-msg") {
			return false, "stringer-text"
		}
	case aPanicNilAny:
		if _, ok := e.msg.(*runtime.PanicNilError); !ok {
			return false, "PanicNilError"
		}
	case aPanicStruct:
		if e.msg == nil || fmt.Sprint(e.msg) != "{3}" {
			return false, "struct-value"
		}
	case aFaultNilMap, aFaultIndex, aFaultDivide:
		want := map[int]string{aFaultNilMap: "assignment to entry in nil map", aFaultIndex: "runtime error: index out of range [5] with length 1", aFaultDivide: "runtime error: integer divide by zero"}[sh.action]
		err, ok := e.msg.(error)
		if !ok || err.Error() != want {
			return false, "runtime-error-text"
		}
		if _, ok := e.msg.(runtime.Error); !ok {
			return false, "not-a-runtime.Error"
		}
	}
	if sh.action >= aExtra {
		want := extraFaults[sh.action-aExtra].msg
		err, ok := e.msg.(error)
		if !ok {
			return false, "runtime-error-text"
		}
		if !strings.Contains(err.Error(), want) {
			return false, "runtime-error-text"
		}
		if _, ok := e.msg.(runtime.Error); !ok {
			return false, "not-a-runtime.Error"
		}
	}
	if str == "" {
		return false, "empty-String()"
	}
	return true, ""
}

// defectContext names the mechanism a defect may depend on: the two sites
// that put a native frame between the action and the interpreted callers, and
// whether the expected Stop/Fatal comes from a deferred native call.
func defectContext(p *plan, e expectation) string {
	sh := p.sh
	ctx := "site=interpreted"
	switch sh.site {
	case sCallback:
		ctx = "site=native-callback"
	case sDeferredDirect:
		ctx = "site=deferred-builtin-or-native"
	}
	if (e.kind == rStop || e.kind == rFatal) && actionClass(sh.action) != "stop" && actionClass(sh.action) != "fatal" {
		ctx += " exit=from-deferred-native"
	}
	if e.nativeDeferredWhilePanicking {
		ctx += " native-deferred-call-ran-while-panicking"
	}
	if isWriteFail(sh.action) {
		ctx += " write-failure"
	}
	return ctx
}

// describeHostPanic classifies a host panic that is not the Fatal value.
func describeHostPanic(o observation) string {
	cat := fmt.Sprintf("%T", o.hostPanic)
	switch v := o.hostPanic.(type) {
	case runtime.Error:
		cat = kit.NormMsg(v.Error())
		if _, ok := v.(*runtime.PanicNilError); ok {
			cat = "value of an interpreted panic"
		}
	case string:
		if strings.HasSuffix(v, "\n") {
			cat = "string: text of the interpreted panic chain"
		} else {
			cat = "value of an interpreted panic"
		}
	case int, float64, MyErr, MyStr, *hostErrT:
		cat = "value of an interpreted panic"
	case error:
		if strings.HasPrefix(cat, "*runtime.") { // internal/runtime type, e.g. *runtime.fatalError
			cat += " wrapper"
		}
	default:
		if reflect.TypeOf(v).Kind() == reflect.Struct {
			cat = "value of an interpreted panic"
		}
	}
	fr := kit.FirstRepoFrame(o.hostStack)
	return "host-panic(" + cat + ") at " + fr
}

const (
	aspOutcome = iota
	aspChainEnd
	aspChain
	aspLocation
	aspLine
)

var aspectNames = []string{"outcome", "chainend", "chain", "location", "line"}

func evalShape(sh shape, aspect int) kit.Outcome {
	if !sh.applicable() {
		return kit.Outcome{OK: true, Class: "n/a combination"}
	}
	p := makePlan(sh)
	e := expect(p)
	o := observe(p)
	detail := func() string {
		var b strings.Builder
		fmt.Fprintf(&b, "shape: %s\n", sh)
		for n, s := range p.files {
			fmt.Fprintf(&b, "--- %s\n%s", n, s)
		}
		fmt.Fprintf(&b, "expected (Go semantics + doc comments): %s\nobserved: %s", e.describe(), o.describe())
		return b.String()
	}
	if o.buildErr != nil {
		return kit.Outcome{Key: "harness|generated source does not build|" + kit.NormMsg(o.buildErr.Error()), Detail: detail() + "\nbuild error: " + o.buildErr.Error(), Class: "fail", Nontrivial: true}
	}
	out := kit.Outcome{OK: true, Nontrivial: true, Class: "want " + kindName(e.kind)}
	fail := func(key string) kit.Outcome {
		return kit.Outcome{Key: aspectNames[aspect] + "|" + key, Detail: detail(), Class: "fail", Nontrivial: true}
	}
	switch aspect {
	case aspOutcome:
		if o.kind != e.kind {
			if o.kind == -1 {
				return fail(describeHostPanic(o))
			}
			got := kindName(o.kind)
			if o.kind == -2 {
				got += fmt.Sprintf("(%T)", o.err)
			}
			return fail("want=" + kindName(e.kind) + " got=" + got + " | " + defectContext(p, e))
		}
		if !reflect.DeepEqual(o.marks, e.marks) && !(len(o.marks) == 0 && len(e.marks) == 0) {
			why := "markers-differ"
			if len(o.marks) > len(e.marks) && reflect.DeepEqual(o.marks[:len(e.marks)], e.marks) {
				why = "code-ran-after-the-end"
			} else if len(o.marks) < len(e.marks) && reflect.DeepEqual(e.marks[:len(o.marks)], o.marks) {
				why = "code-did-not-run"
			}
			return fail("result=" + kindName(e.kind) + " " + why + " | " + defectContext(p, e))
		}
	case aspChainEnd:
		if o.kind != rPanic {
			out.Nontrivial = false
			out.Class = "no PanicError returned"
			return out
		}
		if o.walkEnd != "nil" {
			return fail(kit.NormMsg(o.walkEnd))
		}
		if o.errorText == "" || strings.HasPrefix(o.errorText, "<Error() panics") {
			return fail("Error() empty or panics")
		}
	case aspChain:
		if o.kind != rPanic || e.kind != rPanic {
			out.Nontrivial = false
			out.Class = "no PanicError returned/expected"
			return out
		}
		if len(o.elems) != len(e.chain) {
			rel := "longer than expected (finished panics still listed)"
			if len(o.elems) < len(e.chain) {
				rel = "shorter than expected"
			}
			return fail("chain-length " + rel + " | " + defectContext(p, e))
		}
		for i, r := range e.chain {
			if ok, why := messageOK(sh, r, o.elems[i]); !ok {
				return fail("message|" + why + " | " + defectContext(p, e))
			}
			if r.recovered != o.elems[i].recovered {
				return fail(fmt.Sprintf("recovered-flag want=%v got=%v | %s", r.recovered, o.elems[i].recovered, defectContext(p, e)))
			}
			if !strings.Contains(o.errorText, strings.TrimPrefix(o.elems[i].str, "\x00hosterr:")) {
				return fail("Error() does not contain String() of a chain element")
			}
		}
		if got, want := strings.Count(o.errorText, "[recovered]"), countRecovered(e.chain); got != want {
			return fail("Error() [recovered] count differs from flags")
		}
		out.Class = fmt.Sprintf("chain of %d", len(e.chain))
	case aspLocation, aspLine:
		// Path() and Position().Line are judged in separate spaces so that a
		// wrong path does not hide a wrong line
		if o.kind != rPanic || e.kind != rPanic {
			out.Nontrivial = false
			out.Class = "no PanicError returned/expected"
			return out
		}
		n := len(e.chain)
		if len(o.elems) < n {
			n = len(o.elems)
		}
		checked := 0
		for i := 0; i < n; i++ {
			r, el := e.chain[i], o.elems[i]
			if r.noLine {
				continue
			}
			checked++
			what := "new-panic-in-deferred"
			if r.action {
				what = "action:" + actionClass(sh.action)
				if sh.action >= aExtra {
					what += "(" + faultCategory(sh.action) + ")"
				}
			}
			if aspect == aspLocation && el.path != r.file {
				if el.path == "" && r.action && sh.action >= aExtra {
					return fail("Path want=file-of-statement got=empty | " + what)
				}
				if el.path == "" {
					return fail("Path want=file-of-statement got=empty")
				}
				if k := strings.IndexByte(what, '('); k > 0 {
					what = what[:k] // a path that is set does not depend on the kind of fault
				}
				return fail("Path want=file-of-statement got=other | " + what)
			}
			if aspect == aspLine && el.line != r.line {
				got := "other-line"
				if el.line == 0 {
					got = "0"
				}
				return fail("Position.Line want=line-of-statement got=" + got + " | " + what)
			}
		}
		if checked == 0 {
			out.Nontrivial = false
			out.Class = "position not determined by construction"
			return out
		}
		out.Class = "located"
	}
	return out
}

func countRecovered(c []*rec) int {
	n := 0
	for _, r := range c {
		if r.recovered {
			n++
		}
	}
	return n
}

// ---- spaces ----

// deferLists returns every list of defer kinds of length 0..n.
func deferLists(n int, kinds []int) [][]int {
	out := [][]int{{}}
	prev := [][]int{{}}
	for l := 1; l <= n; l++ {
		var cur [][]int
		for _, p := range prev {
			for _, k := range kinds {
				cur = append(cur, append(append([]int{}, p...), k))
			}
		}
		out = append(out, cur...)
		prev = cur
	}
	return out
}

// frameConfigs returns every assignment of defer lists to the frames, frame f
// having lists of length up to maxLens[f].
func frameConfigs(maxLens ...int) [][][]int { return frameConfigsOf(baseKinds, maxLens...) }

func frameConfigsOf(kinds []int, maxLens ...int) [][][]int {
	out := [][][]int{{}}
	for _, ml := range maxLens {
		lists := deferLists(ml, kinds)
		var cur [][][]int
		for _, c := range out {
			for _, l := range lists {
				cur = append(cur, append(append([][]int{}, c...), l))
			}
		}
		out = cur
	}
	return out
}

// union concatenates configuration lists, dropping duplicates.
func union(cs ...[][][]int) [][][]int {
	seen := map[string]bool{}
	var out [][][]int
	for _, c := range cs {
		for _, x := range c {
			k := fmt.Sprint(x)
			if !seen[k] {
				seen[k] = true
				out = append(out, x)
			}
		}
	}
	return out
}

type family struct {
	name    string
	layout  int
	cfgs    [][][]int
	actions []int // nil: the base actions
	aspects []int // nil: every aspect
}

func (f family) aspectList() []int {
	if f.aspects != nil {
		return f.aspects
	}
	return []int{aspOutcome, aspChainEnd, aspChain, aspLocation, aspLine}
}

func (f family) actionList() []int {
	if f.actions != nil {
		return f.actions
	}
	return baseActions
}

var baseActions, faultActions, pendingActions, writerActions []int

var writerKinds = []int{dMarker, dRecover, dNewPanic, dRecoverNewPanic, dNativeMark}

func init() {
	for a := 0; a < numActions; a++ {
		baseActions = append(baseActions, a)
	}
	for i := range extraFaults {
		faultActions = append(faultActions, aExtra+i)
	}
	pendingActions = append(append([]int{}, baseActions...), aShowStop, aShowFatal)
	writerActions = []int{aExtra + len(extraFaults), aExtra + len(extraFaults) + 1}
}

func families(tier string) []family {
	var fs []family
	if tier == "thorough" {
		two := union(frameConfigs(2, 1), frameConfigs(1, 2))
		fs = []family{
			{"program.frames1", lProgram, frameConfigs(3), nil, nil},
			{"program.frames2", lProgram, two, nil, nil},
			{"program.frames3", lProgram, frameConfigs(1, 1, 1), nil, nil},
			{"template.frames1", lTemplate, frameConfigs(3), nil, nil},
			{"template.frames2", lTemplate, two, nil, nil},
			{"template.import.frames2", lTemplateImport, frameConfigs(1, 1), nil, []int{aspOutcome, aspChainEnd, aspChain, aspLocation}},
		}
	} else {
		fs = []family{
			{"program.frames1", lProgram, frameConfigs(2), nil, nil},
			{"program.frames2", lProgram, frameConfigs(1, 1), nil, nil},
			{"template.frames1", lTemplate, frameConfigs(2), nil, nil},
			{"template.frames2", lTemplate, frameConfigs(1, 1), nil, nil},
			{"template.import.frames2", lTemplateImport, frameConfigs(1, 1), nil, []int{aspOutcome, aspChainEnd, aspChain, aspLocation}},
		}
	}
	// every runtime-fault kind with variable operands, under few defers
	few := []int{dMarker, dRecover, dNativeMark}
	faultCfgs := union(frameConfigsOf(baseKinds, 1), frameConfigsOf(few, 1, 1))
	// Stop/Fatal while a panic is pending or after recover()
	pend1, pend2 := frameConfigsOf(pendingKinds, 2), frameConfigsOf([]int{dRecover, dNativeStop, dClosureStop, dClosureFatal, dRecoverStop, dRecoverFatal}, 1, 1)
	if tier == "thorough" {
		faultCfgs = union(frameConfigsOf(baseKinds, 2), frameConfigsOf(baseKinds, 1, 1))
	}
	fs = append(fs,
		family{"program.faults", lProgram, faultCfgs, faultActions, []int{aspOutcome, aspChain, aspLocation, aspLine}},
		family{"template.faults", lTemplate, faultCfgs, faultActions, []int{aspOutcome, aspChain, aspLocation, aspLine}},
		family{"template.import.faults", lTemplateImport, frameConfigsOf(few, 1, 1), faultActions, []int{aspLocation, aspLine}},
		family{"template.writer1", lTemplate, frameConfigsOf(writerKinds, 3), writerActions, []int{aspOutcome, aspChain, aspLocation, aspLine}},
		family{"template.writer2", lTemplate, frameConfigsOf(writerKinds, 2, 2), writerActions, []int{aspOutcome, aspChain, aspLocation, aspLine}},
		family{"template.import.writer2", lTemplateImport, frameConfigsOf(writerKinds, 1, 2), writerActions, []int{aspOutcome, aspChain}},
		family{"program.pending1", lProgram, pend1, pendingActions, []int{aspOutcome}},
		family{"program.pending2", lProgram, pend2, pendingActions, []int{aspOutcome}},
		family{"template.pending1", lTemplate, pend1, pendingActions, []int{aspOutcome}},
		family{"template.pending2", lTemplate, pend2, pendingActions, []int{aspOutcome}},
	)
	return fs
}

func shapeAt(f family, i uint64) shape {
	al := f.actionList()
	d := kit.Mixed(i, uint64(len(al)), numSites, uint64(len(f.cfgs)))
	return shape{layout: f.layout, frames: f.cfgs[d[2]], site: int(d[1]), action: al[d[0]]}
}

// nativeCallSpace: call form × failure kind for native callees (shared with
// C05, package verif/gen/nativecalls): documented result kinds and the
// direct-call twin.
func nativeCallSpace() kit.Space {
	cs := nc.Cases()
	return kit.Space{
		Name: "native-calls.outcome", Size: uint64(len(cs)),
		Eval: func(i uint64) kit.Outcome {
			c := cs[i]
			if !c.Applicable() {
				return kit.Outcome{OK: true, Class: "n/a combination"}
			}
			r := nc.Run(c)
			src, _ := c.Source()
			var b strings.Builder
			b.WriteString(c.String() + "\n")
			for n, s := range src {
				fmt.Fprintf(&b, "--- %s\n%s", n, s)
			}
			if r.BuildErr != nil || r.BuildPanic != nil {
				return kit.Outcome{Key: "harness|generated source does not build|native-calls", Detail: fmt.Sprintf("%s\n%v %v", b.String(), r.BuildErr, r.BuildPanic), Class: "fail", Nontrivial: true}
			}
			wantKind, wantLog := nc.Want(c)
			fmt.Fprintf(&b, "expected (doc comments of Run, Env.Stop, Env.Fatal): result=%s log=%v\nobserved: %s", wantKind, wantLog, r.Summary())
			fail := func(key string) kit.Outcome {
				return kit.Outcome{Key: "outcome|" + key, Detail: b.String(), Class: "fail", Nontrivial: true}
			}
			if r.Kind == "host panic" {
				switch {
				case nc.IsHostRuntimeError(c.Kind, r.HostPanic):
					// the native function's own runtime error (host code)
				case c.Kind == nc.KCallbackPanics && fmt.Sprint(r.HostPanic) == "cb-boom\n":
					return fail("host-panic(string: text of the interpreted panic chain) at " + kit.FirstRepoFrame(r.Stack))
				case nc.EnvValueDefect(r.HostPanic):
					return fail("host-panic(reflect.Set: native function with an Env parameter used as a function value) at " + kit.FirstRepoFrame(r.Stack))
				default:
					return fail("native callee: host-panic(" + kit.NormMsg(fmt.Sprintf("%T: %v", r.HostPanic, r.HostPanic)) + ") at " + kit.FirstRepoFrame(r.Stack))
				}
			}
			if wantKind != "" {
				if r.Kind != wantKind {
					return fail("native callee: want=" + wantKind + " got=" + r.Kind + " | callee " + nc.KindNames[c.Kind])
				}
				if fmt.Sprint(r.Log) != fmt.Sprint(wantLog) {
					return fail("native callee: result=" + wantKind + " but the program printed other lines (frame not intact or code ran after the end) | callee " + nc.KindNames[c.Kind])
				}
				if r.Kind == "*PanicError" && !r.MsgOK {
					return fail("native callee: the message of the PanicError is not the value the native function panicked with")
				}
			}
			if t := c.Twin(); t != c {
				tr := nc.Run(t)
				if tr.Summary() != r.Summary() {
					b.WriteString("\ndirect-call twin: " + tr.Summary())
					return fail("native callee: outcome differs from the direct-call twin | callee " + nc.KindNames[c.Kind])
				}
			}
			cl := "native callee: " + r.Kind
			if r.Kind == "host panic" {
				cl = "native callee: host-code panic propagated"
			}
			return kit.Outcome{OK: true, Class: cl, Nontrivial: true}
		},
		Describe: func(i uint64) any { return cs[i].Describe() },
	}
}

func spaces(tier string) []kit.Space {
	sps := []kit.Space{nativeCallSpace()}
	for _, f := range families(tier) {
		f := f
		size := kit.Product(uint64(len(f.actionList())), numSites, uint64(len(f.cfgs)))
		for _, asp := range f.aspectList() {
			asp := asp
			sps = append(sps, kit.Space{
				Name: f.name + "." + aspectNames[asp],
				Size: size,
				Eval: func(i uint64) kit.Outcome { return evalShape(shapeAt(f, i), asp) },
				Describe: func(i uint64) any {
					sh := shapeAt(f, i)
					m := map[string]any{"shape": sh.String()}
					if sh.applicable() {
						m["files"] = makePlan(sh).files
					}
					return m
				},
			})
		}
	}
	sps = append(sps, faultFormsSpace(), chainSpace())
	if os.Getenv("C12_DEV_NEWSPACES") != "" { // development only
		return sps[len(sps)-2:]
	}
	return sps
}

var _ = errors.New

func main() {
	if dir := os.Getenv("C12_GCCHECK"); dir != "" {
		gcCheck(dir)
		return
	}
	kit.Main(&kit.Check{
		ID:    "C12",
		Level: "model_checking",
		Rule:  "every (frame configuration × site × action) of the family: 1..3 frames (main/f1/f2, or template body + macro of the same or of an imported file), every frame with every list (bounded length) of 7 deferred-call kinds {marker closure, recover, new panic, recover then new panic, native Mark, native Stop, native Fatal}; 6 sites {body, deferred closure, closure, method, native callback, deferred call of the builtin/native itself}; 13 actions {panic of 8 value kinds, 3 runtime faults, Stop, Fatal}. Every case is evaluated under 4 aspects (outcome, chain termination, chain content, location). Non-trivial = the combination exists (faults have no deferred-direct form; templates have no methods) and, for the chain aspects, a *PanicError is involved",
		Assumptions: []string{
			"expected behaviour = a 60-line model of Go defer/panic/recover restricted to this family (panics are raised only directly in deferred closures or at the site), validated against gc for every quick-tier program at development time (C12_GCCHECK)",
			"a panic raised in a Scriggo closure called back from native code is expected to behave as in Go (propagates through the native frame to the interpreted callers), because Program.Run documents that an unrecovered panic is returned as *PanicError",
			"the position of a deferred builtin call `defer panic(v)` is not checked (it is not determined by the documentation)",
			"only single-goroutine programs; nesting depth and defer-list length are bounded per tier",
		},
		Spaces: spaces,
	})
}
