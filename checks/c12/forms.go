package main

// Two further spaces (programs and templates):
//
//	fault-position-forms  statement form × fault kind × placement: the Path()
//	                      and Position().Line of the *PanicError of a runtime
//	                      fault raised by a COMPOUND statement (op=, ++/--,
//	                      loads emitted on behalf of a store) at every place a
//	                      simple statement can stand, compared with the twin
//	                      program that has panic("x") at the same place
//	chain-in-range-body   (where the first panic is recovered) × (where the
//	                      second panic is raised: range bodies, plain for body,
//	                      no loop, functions called from a range body) ×
//	                      (second panic kind): chain, flags, Error() text,
//	                      position of the second panic

import (
	"fmt"
	"runtime"
	"strings"

	"verif/kit"
)

// ---- fault-position-forms ----

type faultForm struct {
	kind  string // fault kind
	class string // form class (names the defect in keys)
	pre   []string
	stmt  string
	msg   string
}

const (
	fkNil   = "nil pointer dereference"
	fkIndex = "index out of range"
	fkMap   = "nil map write"
	fkDiv   = "division by zero"
	fkShift = "negative shift"
)

var faultForms = []faultForm{
	// nil pointer dereference
	{fkNil, "plain store through pointer", []string{`var p *int`, `v := 1`}, `*p = v`, nilDeref},
	{fkNil, "op= through pointer", []string{`var p *int`, `v := 1`}, `*p += v`, nilDeref},
	{fkNil, "op= through pointer", []string{`var p *int`, `v := 1`}, `*p -= v`, nilDeref},
	{fkNil, "op= through pointer", []string{`var p *int`, `v := 2`}, `*p *= v`, nilDeref},
	{fkNil, "op= through pointer", []string{`var p *string`, `v := "a"`}, `*p += v`, nilDeref},
	{fkNil, "incdec through pointer", []string{`var p *int`}, `(*p)++`, nilDeref},
	{fkNil, "incdec through pointer", []string{`var p *int`}, `(*p)--`, nilDeref},
	{fkNil, "incdec through pointer", []string{`var p *int`}, `*p++`, nilDeref},
	{fkNil, "load and store through pointer", []string{`var p *int`, `v := 1`}, `*p = *p + v`, nilDeref},
	{fkNil, "op= on field through pointer", []string{`var p *H.S`, `v := 1`}, `p.X += v`, nilDeref},
	{fkNil, "op= on field through pointer", []string{`var p *H.S`, `v := 1`}, `p.X -= v`, nilDeref},
	{fkNil, "incdec on field through pointer", []string{`var p *H.S`}, `p.X++`, nilDeref},
	{fkNil, "incdec on field through pointer", []string{`var p *H.S`}, `p.X--`, nilDeref},
	{fkNil, "plain store on nested field through pointer", []string{`q := &H.S{}`, `v := 1`}, `q.P.X = v`, nilDeref},
	{fkNil, "op= on nested field through pointer", []string{`q := &H.S{}`, `v := 1`}, `q.P.X += v`, nilDeref},
	{fkNil, "incdec on nested field through pointer", []string{`q := &H.S{}`}, `q.P.X++`, nilDeref},
	{fkNil, "op= on nested field through pointer", []string{`q := &H.S{}`, `v := 1`}, `q.P.P.X += v`, nilDeref},
	{fkNil, "field load of map element", []string{`mp := map[string]*H.S{}`, `k := "a"`}, `_ = mp[k].X`, nilDeref},
	{fkNil, "field store of map element", []string{`mp := map[string]*H.S{}`, `k := "a"`, `v := 1`}, `mp[k].X = v`, nilDeref},
	{fkNil, "op= on field of map element", []string{`mp := map[string]*H.S{}`, `k := "a"`, `v := 1`}, `mp[k].X += v`, nilDeref},
	{fkNil, "incdec on field of map element", []string{`mp := map[string]*H.S{}`, `k := "a"`}, `mp[k].X++`, nilDeref},
	{fkNil, "field load of slice element", []string{`sp := []*H.S{nil}`, `i := 0`}, `_ = sp[i].X`, nilDeref},
	{fkNil, "op= on field of slice element", []string{`sp := []*H.S{nil}`, `i := 0`, `v := 1`}, `sp[i].X += v`, nilDeref},
	{fkNil, "op= on element through pointer to array", []string{`var pa *[3]int`, `i := 0`, `v := 1`}, `pa[i] += v`, nilDeref},
	{fkNil, "incdec on element through pointer to array", []string{`var pa *[3]int`, `i := 0`}, `pa[i]++`, nilDeref},
	// index out of range
	{fkIndex, "plain store to slice element", []string{`a := []int{1, 2, 3}`, `i := 5`, `v := 1`}, `a[i] = v`, "index out of range [5] with length 3"},
	{fkIndex, "op= on slice element", []string{`a := []int{1, 2, 3}`, `i := 5`, `v := 1`}, `a[i] += v`, "index out of range [5] with length 3"},
	{fkIndex, "op= on slice element", []string{`a := []int{1, 2, 3}`, `i := 5`, `v := 1`}, `a[i] -= v`, "index out of range [5] with length 3"},
	{fkIndex, "op= on slice element", []string{`a := []string{"x"}`, `i := 1`, `v := "y"`}, `a[i] += v`, "index out of range [1] with length 1"},
	{fkIndex, "incdec on slice element", []string{`a := []int{1, 2, 3}`, `i := 5`}, `a[i]++`, "index out of range [5] with length 3"},
	{fkIndex, "incdec on slice element", []string{`a := []int{1, 2, 3}`, `i := -1`}, `a[i]--`, "index out of range [-1]"},
	{fkIndex, "op= on array element", []string{`var arr [3]int`, `i := 3`, `v := 1`}, `arr[i] += v`, "index out of range [3] with length 3"},
	{fkIndex, "incdec on array element", []string{`var arr [3]int`, `i := 3`}, `arr[i]++`, "index out of range [3] with length 3"},
	{fkIndex, "incdec on array element", []string{`var arr [3]int`, `i := 3`}, `arr[i]--`, "index out of range [3] with length 3"},
	{fkIndex, "op= on element through pointer to array", []string{`pa := &[3]int{}`, `i := 3`, `v := 1`}, `pa[i] += v`, "index out of range [3] with length 3"},
	{fkIndex, "incdec on element through pointer to array", []string{`pa := &[3]int{}`, `i := 3`}, `pa[i]++`, "index out of range [3] with length 3"},
	{fkIndex, "op= on element of map element", []string{`ms := map[string][]int{"a": {1}}`, `k := "a"`, `i := 1`, `v := 1`}, `ms[k][i] += v`, "index out of range [1] with length 1"},
	{fkIndex, "op= on field of slice element", []string{`ss := []H.S{{}}`, `i := 1`, `v := 1`}, `ss[i].X += v`, "index out of range [1] with length 1"},
	{fkIndex, "incdec on field of slice element", []string{`ss := []H.S{{}}`, `i := 1`}, `ss[i].X++`, "index out of range [1] with length 1"},
	{fkIndex, "op= on nested slice element", []string{`aa := [][]int{{1}}`, `i := 0`, `j := 1`, `v := 1`}, `aa[i][j] += v`, "index out of range [1] with length 1"},
	// nil map write
	{fkMap, "plain store to map element", []string{`var m map[string]int`, `k := "a"`, `v := 1`}, `m[k] = v`, "nil map"},
	{fkMap, "op= on map element", []string{`var m map[string]int`, `k := "a"`, `v := 1`}, `m[k] += v`, "nil map"},
	{fkMap, "op= on map element", []string{`var m map[string]string`, `k := "a"`, `v := "b"`}, `m[k] += v`, "nil map"},
	{fkMap, "incdec on map element", []string{`var m map[string]int`, `k := "a"`}, `m[k]++`, "nil map"},
	{fkMap, "incdec on map element", []string{`var m map[int]int`, `k := 1`}, `m[k]--`, "nil map"},
	{fkMap, "plain store to element of map element", []string{`mm := map[string]map[string]int{}`, `k := "a"`, `v := 1`}, `mm[k][k] = v`, "nil map"},
	{fkMap, "op= on element of map element", []string{`mm := map[string]map[string]int{}`, `k := "a"`, `v := 1`}, `mm[k][k] += v`, "nil map"},
	{fkMap, "incdec on element of map element", []string{`mm := map[string]map[string]int{}`, `k := "a"`}, `mm[k][k]++`, "nil map"},
	// division by zero
	{fkDiv, "op= on variable", []string{`x := 7`, `z := 0`}, `x /= z`, "divide by zero"},
	{fkDiv, "op= on variable", []string{`x := 7`, `z := 0`}, `x %= z`, "divide by zero"},
	{fkDiv, "op= on variable", []string{`var x uint8 = 7`, `var z uint8`}, `x /= z`, "divide by zero"},
	{fkDiv, "op= through pointer", []string{`q := new(int)`, `z := 0`}, `*q /= z`, "divide by zero"},
	{fkDiv, "op= through pointer", []string{`q := new(int)`, `z := 0`}, `*q %= z`, "divide by zero"},
	{fkDiv, "op= on slice element", []string{`a := []int{1, 2, 3}`, `i := 1`, `z := 0`}, `a[i] /= z`, "divide by zero"},
	{fkDiv, "op= on slice element", []string{`a := []int{1, 2, 3}`, `i := 1`, `z := 0`}, `a[i] %= z`, "divide by zero"},
	{fkDiv, "op= on map element", []string{`m := map[string]int{"a": 1}`, `k := "a"`, `z := 0`}, `m[k] /= z`, "divide by zero"},
	{fkDiv, "op= on field through pointer", []string{`q := &H.S{}`, `z := 0`}, `q.X /= z`, "divide by zero"},
	{fkDiv, "op= on field through pointer", []string{`q := &H.S{}`, `z := 0`}, `q.X %= z`, "divide by zero"},
	{fkDiv, "op= on array element", []string{`var arr [3]int`, `i := 1`, `z := 0`}, `arr[i] /= z`, "divide by zero"},
	// negative shift counts (x <<= n, n < 0) are not in the space: on the
	// reference tree Scriggo does not raise a panic for them at all (a breach
	// of another property, reported to C01), so there is no position to judge
}

// placements of the faulting statement
const (
	plBody = iota
	plForPost
	plIfInit
	plElseIfInit
	plSwitchInit
	plDeferredClosure
	plFuncLit
	plFuncLitVar
	plCapturing // function literal that captures the operands
	plDeferredCapturing
	plForBody
	plRangeBody
	plCaseBody
	plCallee // programs: package-level function; templates: macro
	plForPostInFuncLit
	plIfInitInDeferred
	numPlacements
)

var placementNames = []string{"body", "for-post", "if-init", "else-if-init", "switch-init", "deferred-closure", "func-literal", "func-literal-variable",
	"capturing-func-literal", "capturing-deferred-closure", "for-body", "range-body", "case-body", "callee-or-macro", "for-post-in-func-literal", "if-init-in-deferred-closure"}

// genForm generates the source; stmt is the statement standing at the place.
// It returns the files, the entry, the file and the line of the statement.
func genForm(layout int, pl int, pre []string, stmt string) (files map[string]string, entry, file string, line int) {
	h := "host."
	if layout != lProgram {
		h = ""
	}
	fix := func(s string) string { return strings.ReplaceAll(s, "H.", h) }
	w := &srcWriter{}
	emitPre := func(ind string) {
		for _, l := range pre {
			w.ln(ind + fix(l))
		}
	}
	stmt = fix(stmt)
	// place emits the placement with indentation ind
	place := func(ind string) {
		switch pl {
		case plBody, plCallee:
			emitPre(ind)
			line = w.ln(ind + stmt)
		case plForPost:
			emitPre(ind)
			line = w.ln(ind + "for lv := 0; lv < 1; " + stmt + " {")
			w.ln(ind + "\tlv++")
			w.ln(ind + "}")
		case plIfInit:
			emitPre(ind)
			line = w.ln(ind + "if " + stmt + "; true {")
			w.ln(ind + "}")
		case plElseIfInit:
			emitPre(ind)
			w.ln(ind + "if len(\"\") == 1 {")
			line = w.ln(ind + "} else if " + stmt + "; true {")
			w.ln(ind + "}")
		case plSwitchInit:
			emitPre(ind)
			line = w.ln(ind + "switch " + stmt + "; {")
			w.ln(ind + "}")
		case plDeferredClosure:
			w.ln(ind + "defer func() {")
			emitPre(ind + "\t")
			line = w.ln(ind + "\t" + stmt)
			w.ln(ind + "}()")
		case plFuncLit:
			w.ln(ind + "func() {")
			emitPre(ind + "\t")
			line = w.ln(ind + "\t" + stmt)
			w.ln(ind + "}()")
		case plFuncLitVar:
			w.ln(ind + "g := func() {")
			emitPre(ind + "\t")
			line = w.ln(ind + "\t" + stmt)
			w.ln(ind + "}")
			w.ln(ind + "g()")
		case plCapturing:
			emitPre(ind)
			w.ln(ind + "func() {")
			line = w.ln(ind + "\t" + stmt)
			w.ln(ind + "}()")
		case plDeferredCapturing:
			emitPre(ind)
			w.ln(ind + "defer func() {")
			line = w.ln(ind + "\t" + stmt)
			w.ln(ind + "}()")
		case plForBody:
			w.ln(ind + "for j := 0; j < 2; j++ {")
			emitPre(ind + "\t")
			line = w.ln(ind + "\t" + stmt)
			w.ln(ind + "}")
		case plRangeBody:
			w.ln(ind + "for range []int{1, 2} {")
			emitPre(ind + "\t")
			line = w.ln(ind + "\t" + stmt)
			w.ln(ind + "}")
		case plCaseBody:
			emitPre(ind)
			w.ln(ind + "switch len(\"a\") {")
			w.ln(ind + "case 1:")
			line = w.ln(ind + "\t" + stmt)
			w.ln(ind + "}")
		case plForPostInFuncLit:
			w.ln(ind + "func() {")
			emitPre(ind + "\t")
			line = w.ln(ind + "\tfor lv := 0; lv < 1; " + stmt + " {")
			w.ln(ind + "\t\tlv++")
			w.ln(ind + "\t}")
			w.ln(ind + "}()")
		case plIfInitInDeferred:
			w.ln(ind + "defer func() {")
			emitPre(ind + "\t")
			line = w.ln(ind + "\tif " + stmt + "; true {")
			w.ln(ind + "\t}")
			w.ln(ind + "}()")
		}
	}
	if layout == lProgram {
		w.ln("package main")
		w.ln("import \"host\"")
		w.ln("func callee() {")
		if pl == plCallee {
			place("\t")
		}
		w.ln("}")
		w.ln("func main() {")
		w.ln("\thost.Mark(\"in\")")
		if pl == plCallee {
			w.ln("\tcallee()")
		} else {
			place("\t")
		}
		w.ln("\thost.Mark(\"out\")")
		w.ln("}")
		return map[string]string{"main.go": w.b.String()}, "main.go", "main.go", line
	}
	if pl == plCallee {
		w.ln("{% macro M %}")
		w.ln("{%%")
		place("\t")
		w.ln("%%}")
		w.ln("{% end %}")
		w.ln("{%% Mark(\"in\") %%}")
		w.ln("{{ M() }}")
	} else {
		w.ln("{%%")
		w.ln("\tMark(\"in\")")
		place("\t")
		w.ln("%%}")
	}
	w.ln("{%% Mark(\"out\") %%}")
	return map[string]string{"index.html": w.b.String()}, "index.html", "index.html", line
}

func runFiles(layout int, files map[string]string, entry string) observation {
	return observe(&plan{sh: shape{layout: layout}, files: files, entry: entry})
}

func filesText(files map[string]string) string {
	var b strings.Builder
	for n, s := range files {
		fmt.Fprintf(&b, "--- %s\n%s", n, s)
	}
	return b.String()
}

var formLayouts = []int{lProgram, lTemplate}

func formCase(i uint64) (layout, pl int, f faultForm) {
	d := kit.Mixed(i, uint64(len(faultForms)), numPlacements, uint64(len(formLayouts)))
	return formLayouts[d[2]], int(d[1]), faultForms[d[0]]
}

func faultFormsSpace() kit.Space {
	size := kit.Product(uint64(len(faultForms)), numPlacements, uint64(len(formLayouts)))
	return kit.Space{
		Name: "fault-position-forms", Size: size,
		Describe: func(i uint64) any {
			layout, pl, f := formCase(i)
			files, _, _, line := genForm(layout, pl, f.pre, f.stmt)
			return map[string]any{"fault": f.kind, "form": f.class, "statement": f.stmt, "placement": placementNames[pl], "files": files, "line": line}
		},
		Eval: func(i uint64) kit.Outcome {
			layout, pl, f := formCase(i)
			files, entry, file, line := genForm(layout, pl, f.pre, f.stmt)
			tfiles, _, _, tline := genForm(layout, pl, f.pre, `panic("x")`)
			// the operands of the twin are unused: keep them alive
			_ = tline
			o := runFiles(layout, files, entry)
			what := f.kind + " in " + f.class
			detail := func(t *observation) string {
				s := fmt.Sprintf("fault=%s form=%s placement=%s\n%sexpected: *PanicError of one element, message containing %q, Path = the Path of the twin with panic(\"x\") (non-empty), Position().Line=%d\nobserved: %s",
					f.kind, f.class, placementNames[pl], filesText(files), f.msg, line, o.describe())
				if t != nil {
					s += "\ntwin:\n" + filesText(tfiles) + "observed (twin): " + t.describe()
				}
				return s
			}
			fail := func(key string, t *observation) kit.Outcome {
				return kit.Outcome{Key: "forms|" + key, Detail: detail(t), Class: "fail", Nontrivial: true}
			}
			if o.buildErr != nil {
				return kit.Outcome{Key: "harness|generated source does not build|forms|" + kit.NormMsg(o.buildErr.Error()), Detail: detail(nil) + "\nbuild error: " + o.buildErr.Error(), Class: "fail", Nontrivial: true}
			}
			if o.kind == -1 {
				return fail(describeHostPanic(o), nil)
			}
			if o.kind != rPanic {
				return fail("want=*PanicError got="+kindName(o.kind)+" | "+what, nil)
			}
			if o.walkEnd != "nil" || len(o.elems) != 1 {
				return fail("chain of an unrecovered fault is not one element | "+what, nil)
			}
			el := o.elems[0]
			if el.recovered {
				return fail("recovered flag set on an unrecovered fault | "+what, nil)
			}
			err, ok := el.msg.(error)
			if !ok || !strings.Contains(err.Error(), f.msg) {
				return fail("message|runtime-error-text | "+what, nil)
			}
			if _, ok := el.msg.(runtime.Error); !ok {
				return fail("message|not-a-runtime.Error | "+what, nil)
			}
			t := runFiles(layout, placeTwin(tfiles, f.pre), entry)
			if t.buildErr != nil {
				return kit.Outcome{Key: "harness|generated source does not build|forms twin|" + kit.NormMsg(t.buildErr.Error()), Detail: detail(&t) + "\nbuild error: " + t.buildErr.Error(), Class: "fail", Nontrivial: true}
			}
			if t.kind != rPanic || len(t.elems) != 1 {
				return fail("twin panic(\"x\") does not return a *PanicError of one element | placement="+placementNames[pl], &t)
			}
			tw := t.elems[0]
			if tw.path != file || tw.line != line {
				// the plain panic at this place is itself mislocated: a defect of the placement, not of the form
				return fail("twin panic(\"x\") mislocated | placement="+placementNames[pl], &t)
			}
			if el.path == "" {
				return fail("Path want=path-of-panic(\"x\")-at-the-same-place got=empty | "+what, &t)
			}
			if el.path != tw.path {
				return fail("Path want=path-of-panic(\"x\")-at-the-same-place got=other | "+what, &t)
			}
			if el.line != line {
				got := "other-line"
				if el.line == 0 {
					got = "0"
				}
				return fail("Position.Line want=line-of-statement got="+got+" | "+what, &t)
			}
			if fmt.Sprint(o.marks) != fmt.Sprint(t.marks) {
				return fail("markers differ from the twin with panic(\"x\") | "+what, &t)
			}
			return kit.Outcome{OK: true, Nontrivial: true, Class: "located: " + f.kind}
		},
	}
}

// placeTwin keeps the source of the twin unchanged: Scriggo, as gc, reports
// unused variables, so every operand declared by pre gets a blank use right
// after its declaration line (on the same line, so that lines do not move).
func placeTwin(files map[string]string, pre []string) map[string]string {
	out := map[string]string{}
	for n, s := range files {
		lines := strings.Split(s, "\n")
		for li, l := range lines {
			t := strings.TrimSpace(l)
			for _, p := range pre {
				p = strings.ReplaceAll(p, "H.", "host.")
				p2 := strings.ReplaceAll(p, "host.", "")
				if t == p || t == p2 {
					name := strings.Fields(strings.TrimPrefix(t, "var "))[0]
					lines[li] = l + "; _ = " + name
				}
			}
		}
		out[n] = strings.Join(lines, "\n")
	}
	return out
}

// ---- chain-in-range-body ----

// where the first panic is recovered
const (
	rwSameFrame   = iota // deferred closure of the function that panics; recover() before the place of the second panic
	rwOuterFrame         // deferred closure of the caller of the function that panics
	rwInsidePlace        // recover() called in the place of the second panic (e.g. inside the range body)
	rwReturned           // the recovering deferred call has returned: the second panic is a fresh one
	numRecWhere
)

var recWhereNames = []string{"deferred-closure-of-the-panicking-function", "deferred-closure-of-the-caller", "recover-inside-the-place-of-the-second-panic", "recovering-call-already-returned"}

// where the second panic is raised
const (
	swNoLoop = iota
	swForBody
	swRangeSlice
	swRangeSliceKV
	swRangeMap
	swRangeString
	swRangeChan
	swRangeArray
	swRangeNested
	swFuncFromRange    // package-level function (programs) called from a range body
	swFuncLitFromRange // function literal called from a range body
	swDeferredInFuncLitFromRange
	swRangeInFuncLit // range body inside a function literal
	numSecWhere
)

var secWhereNames = []string{"no-loop", "for-body", "range-slice-body", "range-slice-kv-body", "range-map-body", "range-string-body", "range-channel-body", "range-array-body",
	"nested-range-body", "function-called-from-range-body", "func-literal-called-from-range-body", "deferred-call-in-func-literal-called-from-range-body", "range-body-in-func-literal"}

// second panic kinds
const (
	skPanic = iota
	skIndex
	skDivide
	skRepanic
	numSecKinds
)

var secKindNames = []string{"panic(v)", "runtime fault (index)", "runtime fault (divide)", "re-panic of the recovered value"}

type chainCase struct {
	layout, rw, sw, sk int
	outerMarker        bool
}

func chainCaseAt(i uint64) chainCase {
	d := kit.Mixed(i, numSecKinds, numSecWhere, numRecWhere, 2, uint64(len(formLayouts)))
	return chainCase{layout: formLayouts[d[4]], rw: int(d[2]), sw: int(d[1]), sk: int(d[0]), outerMarker: d[3] == 1}
}

func (c chainCase) applicable() bool {
	if c.layout != lProgram && c.sw == swFuncFromRange {
		return false // templates cannot declare package-level functions
	}
	if c.rw == rwInsidePlace && c.sw == swRangeInFuncLit {
		return false // recover() must be called directly by the deferred function
	}
	return true
}

type chainSrc struct {
	files      map[string]string
	entry      string
	file       string
	secondLine int
	marks      []string
}

func genChain(c chainCase) chainSrc {
	h := "host."
	if c.layout != lProgram {
		h = ""
	}
	w := &srcWriter{}
	res := chainSrc{}
	inside := c.rw == rwInsidePlace
	// second emits the second panic with indentation ind
	second := func(ind string) {
		switch c.sk {
		case skPanic:
			res.secondLine = w.ln(ind + `panic("second")`)
		case skIndex:
			w.ln(ind + "ix := []int{1}")
			w.ln(ind + "iy := 5")
			res.secondLine = w.ln(ind + "_ = ix[iy]")
		case skDivide:
			w.ln(ind + "dz := 0")
			res.secondLine = w.ln(ind + "_ = 1 / dz")
		case skRepanic:
			res.secondLine = w.ln(ind + "panic(r)")
		}
	}
	rec := func(ind string) {
		if inside {
			w.ln(ind + "r = recover()")
		}
	}
	// place emits the place of the second panic
	place := func(ind string) {
		loop := func(head string, body func(ind string)) {
			w.ln(ind + head + " {")
			body(ind + "\t")
			w.ln(ind + "}")
		}
		direct := func(ind string) { rec(ind); second(ind) }
		switch c.sw {
		case swNoLoop:
			direct(ind)
		case swForBody:
			loop("for j := 0; j < 2; j++", direct)
		case swRangeSlice:
			loop("for range []int{1, 2}", direct)
		case swRangeSliceKV:
			loop("for j, e := range []int{1, 2}", func(ind string) { w.ln(ind + "_, _ = j, e"); direct(ind) })
		case swRangeMap:
			loop("for range map[string]int{\"a\": 1, \"b\": 2}", direct)
		case swRangeString:
			loop("for range \"ab\"", direct)
		case swRangeChan:
			w.ln(ind + "ch := make(chan int, 2)")
			w.ln(ind + "ch <- 1")
			w.ln(ind + "ch <- 2")
			w.ln(ind + "close(ch)")
			loop("for range ch", direct)
		case swRangeArray:
			loop("for range [2]int{}", direct)
		case swRangeNested:
			loop("for range []int{1, 2}", func(ind string) {
				w.ln(ind + "for range \"ab\" {")
				direct(ind + "\t")
				w.ln(ind + "}")
			})
		case swFuncFromRange:
			loop("for range []int{1, 2}", func(ind string) { rec(ind); w.ln(ind + "raise(r)") })
		case swFuncLitFromRange:
			loop("for range []int{1, 2}", func(ind string) {
				rec(ind)
				w.ln(ind + "func() {")
				second(ind + "\t")
				w.ln(ind + "}()")
			})
		case swDeferredInFuncLitFromRange:
			loop("for range []int{1, 2}", func(ind string) {
				rec(ind)
				w.ln(ind + "func() {")
				w.ln(ind + "\tdefer func() {")
				second(ind + "\t\t")
				w.ln(ind + "\t}()")
				w.ln(ind + "}()")
			})
		case swRangeInFuncLit:
			w.ln(ind + "func() {")
			w.ln(ind + "\tfor range []int{1, 2} {")
			second(ind + "\t\t")
			w.ln(ind + "\t}")
			w.ln(ind + "}()")
		}
	}
	// body of the entry function
	body := func(ind string) {
		if c.outerMarker {
			w.ln(ind + "defer func() {")
			w.ln(ind + "\t" + h + "Mark(\"outer\")")
			w.ln(ind + "}()")
		}
		w.ln(ind + h + "Mark(\"in\")")
		w.ln(ind + "var r any")
		w.ln(ind + "_ = r")
		first := `panic("first")`
		switch c.rw {
		case rwSameFrame, rwInsidePlace, rwOuterFrame:
			w.ln(ind + "defer func() {")
			if !inside {
				w.ln(ind + "\tr = recover()")
			}
			w.ln(ind + "\t" + h + "Mark(\"deferred\")")
			place(ind + "\t")
			w.ln(ind + "\t" + h + "Mark(\"after-place\")")
			w.ln(ind + "}()")
			if c.rw == rwOuterFrame {
				w.ln(ind + "func() {")
				w.ln(ind + "\tdefer func() {")
				w.ln(ind + "\t\t" + h + "Mark(\"inner\")")
				w.ln(ind + "\t}()")
				w.ln(ind + "\t" + first)
				w.ln(ind + "}()")
			} else {
				w.ln(ind + first)
			}
		case rwReturned:
			w.ln(ind + "func() {")
			w.ln(ind + "\tdefer func() {")
			w.ln(ind + "\t\tr = recover()")
			w.ln(ind + "\t\t" + h + "Mark(\"deferred\")")
			w.ln(ind + "\t}()")
			w.ln(ind + "\t" + first)
			w.ln(ind + "}()")
			w.ln(ind + h + "Mark(\"resumed\")")
			place(ind)
			w.ln(ind + h + "Mark(\"after-place\")")
		}
		w.ln(ind + h + "Mark(\"out\")")
	}
	res.marks = []string{"in"}
	switch c.rw {
	case rwOuterFrame:
		res.marks = append(res.marks, "inner", "deferred")
	case rwReturned:
		res.marks = append(res.marks, "deferred", "resumed")
	default:
		res.marks = append(res.marks, "deferred")
	}
	if c.outerMarker {
		res.marks = append(res.marks, "outer")
	}
	if c.layout == lProgram {
		w.ln("package main")
		w.ln("import \"host\"")
		w.ln("func raise(r any) {")
		if c.sw == swFuncFromRange {
			second("\t")
		}
		w.ln("}")
		w.ln("func main() {")
		body("\t")
		w.ln("}")
		res.files = map[string]string{"main.go": w.b.String()}
		res.entry, res.file = "main.go", "main.go"
		return res
	}
	w.ln("{%%")
	body("\t")
	w.ln("%%}")
	res.files = map[string]string{"index.html": w.b.String()}
	res.entry, res.file = "index.html", "index.html"
	return res
}

func chainSpace() kit.Space {
	size := kit.Product(numSecKinds, numSecWhere, numRecWhere, 2, uint64(len(formLayouts)))
	return kit.Space{
		Name: "chain-in-range-body", Size: size,
		Describe: func(i uint64) any {
			c := chainCaseAt(i)
			m := map[string]any{"first-recovered": recWhereNames[c.rw], "second-raised": secWhereNames[c.sw], "second-kind": secKindNames[c.sk], "outer-deferred-marker": c.outerMarker, "layout": c.layout}
			if c.applicable() {
				m["files"] = genChain(c).files
			}
			return m
		},
		Eval: func(i uint64) kit.Outcome {
			c := chainCaseAt(i)
			if !c.applicable() {
				return kit.Outcome{OK: true, Class: "n/a combination"}
			}
			src := genChain(c)
			o := runFiles(c.layout, src.files, src.entry)
			chained := c.rw != rwReturned
			// Go mirror (gc prints "panic: first [recovered]" + "panic: second"
			// when the second panic is raised before the recovering deferred
			// call returns; only "panic: second" once it has returned)
			wantText := "second"
			switch c.sk {
			case skIndex:
				wantText = "index out of range [5] with length 1"
			case skDivide:
				wantText = "integer divide by zero"
			case skRepanic:
				wantText = "first"
			}
			ctx := "second=" + secKindNames[c.sk] + " raised-in=" + secWhereNames[c.sw] + " first-recovered=" + recWhereNames[c.rw]
			detail := func() string {
				want := "chain [" + wantText + "]"
				if chained {
					want = "chain [" + wantText + ", first (recovered)], Error() with the line \"first [recovered…]\""
				}
				return fmt.Sprintf("%s outer-deferred-marker=%v\n%sexpected (Go semantics, as gc prints the chain): *PanicError, %s, markers %v, second panic at %s:%d\nobserved: %s\nError(): %q",
					ctx, c.outerMarker, filesText(src.files), want, src.marks, src.file, src.secondLine, o.describe(), o.errorText)
			}
			fail := func(key string) kit.Outcome {
				return kit.Outcome{Key: "chain-ctx|" + key, Detail: detail(), Class: "fail", Nontrivial: true}
			}
			if o.buildErr != nil {
				return kit.Outcome{Key: "harness|generated source does not build|chain-ctx|" + kit.NormMsg(o.buildErr.Error()), Detail: detail() + "\nbuild error: " + o.buildErr.Error(), Class: "fail", Nontrivial: true}
			}
			// the defect is named by the execution context of the second panic, not by the ranged type
			place := "raised-in=a-range-statement-body"
			switch c.sw {
			case swNoLoop:
				place = "raised-in=no-loop"
			case swForBody:
				place = "raised-in=for-body"
			}
			if o.kind == -1 {
				return fail(describeHostPanic(o) + " | " + place)
			}
			if o.kind != rPanic {
				return fail("want=*PanicError got=" + kindName(o.kind) + " | " + place)
			}
			if o.walkEnd != "nil" {
				return fail("chain does not end with nil | " + place)
			}
			if fmt.Sprint(o.marks) != fmt.Sprint(src.marks) {
				return fail("markers differ | " + place)
			}
			wantLen := 1
			if chained {
				wantLen = 2
			}
			if len(o.elems) != wantLen {
				rel := "longer than expected (finished panics still listed)"
				if len(o.elems) < wantLen {
					rel = "shorter than expected (the recovered panic is not linked)"
				}
				return fail("chain-length " + rel + " | " + place)
			}
			top := o.elems[0]
			if top.recovered {
				return fail("recovered-flag of the unrecovered panic want=false got=true | " + place)
			}
			if !strings.Contains(top.str, wantText) {
				return fail("message of the second panic | " + place)
			}
			if c.sk == skIndex || c.sk == skDivide {
				if _, ok := top.msg.(runtime.Error); !ok {
					return fail("message of the second panic is not a runtime.Error | " + place)
				}
			}
			if chained {
				first := o.elems[1]
				if s, ok := first.msg.(string); !ok || s != "first" {
					return fail("message of the first panic | " + place)
				}
				if !first.recovered {
					return fail("recovered-flag of the first panic want=true got=false | " + place)
				}
				if !strings.Contains(o.errorText, "first [recovered") {
					return fail("Error() lacks the \"first [recovered]\" line | " + place)
				}
			} else if strings.Contains(o.errorText, "[recovered") {
				return fail("Error() has a [recovered] line for a finished panic | " + place)
			}
			if !strings.Contains(o.errorText, wantText) {
				return fail("Error() lacks the text of the second panic | " + place)
			}
			if top.path != src.file {
				got := "other"
				if top.path == "" {
					got = "empty"
				}
				return fail("Path of the second panic want=file-of-statement got=" + got + " | " + place)
			}
			if top.line != src.secondLine {
				got := "other-line"
				if top.line == 0 {
					got = "0"
				}
				return fail("Position.Line of the second panic want=line-of-statement got=" + got + " | " + place)
			}
			cl := "fresh panic after a completed recovery"
			if chained {
				cl = "second panic over a recovered one"
			}
			return kit.Outcome{OK: true, Nontrivial: true, Class: cl}
		},
	}
}
