package main

// Development-time validation of the model against the gc toolchain:
//
//	C12_GCCHECK=/var/tmp/verif-c12-gc .build/C12 quick
//
// writes every program shape of the tier as functions of ONE Go program (top
// level names get a per-case suffix, package host is replaced by a local
// value), builds it with the Go toolchain, runs it once per case and compares
// markers, the "panic: … [recovered]" header and the line of the top frame
// with what the model expects. It is not part of the check run.

import (
	"bytes"
	"fmt"
	"os"
	"os/exec"
	"path/filepath"
	"regexp"
	"strconv"
	"strings"
	"sync"

	"verif/kit"
)

func gcCheck(dir string) {
	tier := kit.Tier(os.Args[1:])
	os.MkdirAll(dir, 0o755)
	w := &srcWriter{}
	w.ln("package main")
	w.ln("import (")
	w.ln("\t\"errors\"")
	w.ln("\t\"fmt\"")
	w.ln("\t\"os\"")
	w.ln("\t\"strconv\"")
	w.ln(")")
	w.ln("type hostT struct{ Err error }")
	w.ln("var host = hostT{Err: errors.New(\"host-err\")}")
	w.ln("func (hostT) Mark(s string) { fmt.Println(\"MARK \" + s) }")
	w.ln("func (hostT) Stop() { fmt.Println(\"STOP\"); os.Exit(0) }")
	w.ln("func (hostT) Fatal() { fmt.Println(\"FATAL\"); os.Exit(0) }")
	w.ln("func (hostT) Call(f func()) { f() }")
	w.ln("type MyErr struct{}")
	w.ln("func (MyErr) Error() string { return \"myErr-msg\" }")
	w.ln("type S struct { X int; P *S }")
	w.ln("type MyStr struct{}")
	w.ln("func (MyStr) String() string { return \"myStr-msg\" }")
	type cs struct {
		sh    shape
		p     *plan
		start int
	}
	var cases []cs
	for _, f := range families(tier) {
		if f.layout != lProgram || (os.Getenv("C12_GCFAMILY") != "" && !strings.HasPrefix(f.name, os.Getenv("C12_GCFAMILY"))) {
			continue
		}
		size := kit.Product(uint64(len(f.actionList())), numSites, uint64(len(f.cfgs)))
		for i := uint64(0); i < size; i++ {
			sh := shapeAt(f, i)
			if !sh.applicable() {
				continue
			}
			start := w.line
			p := genProgram(sh, fmt.Sprintf("_%d", len(cases)), w, false)
			cases = append(cases, cs{sh, p, start})
		}
	}
	w.ln("var cases = []func(){")
	for i := range cases {
		w.ln(fmt.Sprintf("\tmain_%d,", i))
	}
	w.ln("}")
	w.ln("func main() {")
	w.ln("\tn, _ := strconv.Atoi(os.Args[1])")
	w.ln("\tcases[n]()")
	w.ln("\tfmt.Println(\"END\")")
	w.ln("}")
	src := strings.NewReplacer("host.MyErr{}", "MyErr{}", "host.MyStr{}", "MyStr{}", "host.S{", "S{", "*host.S", "*S", "(host.S)", "(S)").Replace(w.b.String())
	os.WriteFile(filepath.Join(dir, "main.go"), []byte(src), 0o644)
	os.WriteFile(filepath.Join(dir, "go.mod"), []byte("module gccheck\ngo 1.25\n"), 0o644)
	cmd := exec.Command("go", "build", "-gcflags=-N -l", "-o", "gccheck.bin", ".")
	cmd.Dir = dir
	cmd.Env = append(os.Environ(), "GOFLAGS=-mod=mod")
	if out, err := cmd.CombinedOutput(); err != nil {
		fmt.Println("go build failed:", err, "\n", string(out))
		os.Exit(2)
	}
	fmt.Printf("built %d cases (%d lines)\n", len(cases), w.line)
	lineRe := regexp.MustCompile(`main\.go:(\d+)`)
	var mu sync.Mutex
	bad := 0
	sem := make(chan struct{}, 16)
	var wg sync.WaitGroup
	for ci := range cases {
		wg.Add(1)
		sem <- struct{}{}
		go func(ci int) {
			defer wg.Done()
			defer func() { <-sem }()
			c := cases[ci]
			e := expect(c.p)
			cmd := exec.Command(filepath.Join(dir, "gccheck.bin"), strconv.Itoa(ci))
			var so, se bytes.Buffer
			cmd.Stdout, cmd.Stderr = &so, &se
			cmd.Run()
			var marks []string
			kind := -9
			for _, l := range strings.Split(strings.TrimSpace(so.String()), "\n") {
				switch {
				case strings.HasPrefix(l, "MARK "):
					marks = append(marks, l[5:])
				case l == "STOP":
					kind = rStop
				case l == "FATAL":
					kind = rFatal
				case l == "END":
					kind = rNil
				}
			}
			type hdr struct {
				text      string
				recovered bool
			}
			var chain []hdr // oldest first
			topLine := 0
			if strings.HasPrefix(se.String(), "panic: ") {
				kind = rPanic
				parts := strings.SplitN(se.String(), "\n\n", 2)
				var cur *hdr
				for _, l := range strings.Split(parts[0], "\n") {
					t := strings.TrimPrefix(l, "\t")
					if strings.HasPrefix(t, "panic: ") {
						chain = append(chain, hdr{})
						cur = &chain[len(chain)-1]
						t = t[7:]
						if strings.HasSuffix(t, " [recovered]") {
							cur.recovered = true
							t = strings.TrimSuffix(t, " [recovered]")
						}
						cur.text = t
					}
				}
				// first main.go frame that is not inside the runtime: the
				// frame of the newest panic statement
				if len(parts) == 2 {
					lines := strings.Split(parts[1], "\n")
					for k, l := range lines {
						if strings.HasPrefix(l, "main.") && k+1 < len(lines) {
							if m := lineRe.FindStringSubmatch(lines[k+1]); m != nil {
								topLine, _ = strconv.Atoi(m[1])
							}
							break
						}
					}
				}
			}
			var problems []string
			if kind != e.kind {
				problems = append(problems, fmt.Sprintf("kind gc=%s model=%s", kindName(kind), kindName(e.kind)))
			}
			if fmt.Sprint(marks) != fmt.Sprint(e.marks) {
				problems = append(problems, fmt.Sprintf("marks gc=%v model=%v", marks, e.marks))
			}
			if kind == rPanic && e.kind == rPanic {
				if len(chain) != len(e.chain) {
					problems = append(problems, fmt.Sprintf("chain length gc=%d model=%d", len(chain), len(e.chain)))
				} else {
					for k, r := range e.chain {
						g := chain[len(chain)-1-k]
						if g.recovered != r.recovered {
							problems = append(problems, fmt.Sprintf("chain[%d] recovered gc=%v model=%v", k, g.recovered, r.recovered))
						}
						if !r.action && g.text != r.val {
							problems = append(problems, fmt.Sprintf("chain[%d] text gc=%q model=%q", k, g.text, r.val))
						}
						if r.action && c.sh.action == aPanicString && g.text != "A" {
							problems = append(problems, fmt.Sprintf("chain[%d] text gc=%q model=A", k, g.text))
						}
					}
					if r := e.chain[0]; !r.noLine && topLine != r.line {
						problems = append(problems, fmt.Sprintf("line of newest panic gc=%d model=%d", topLine, r.line))
					}
				}
			}
			if len(problems) > 0 {
				mu.Lock()
				bad++
				if bad <= 10 {
					fmt.Printf("MISMATCH case %d %s\n  %s\n  stderr: %s\n", ci, c.sh, strings.Join(problems, "\n  "), strings.SplitN(se.String(), "\n\n", 2)[0])
				}
				mu.Unlock()
			}
		}(ci)
	}
	wg.Wait()
	fmt.Printf("gc validation: %d cases, %d mismatches\n", len(cases), bad)
	if bad > 0 {
		os.Exit(1)
	}
}
