package main

import (
	"bytes"
	"fmt"
	"os"

	"github.com/yuin/goldmark"
)

func main() {
	for _, src := range os.Args[1:] {
		var b bytes.Buffer
		goldmark.New().Convert([]byte(src), &b)
		fmt.Printf("%q => %q\n", src, b.String())
	}
}
