package main

// Reference tokenisation of a rendered document into a flat sequence of
// leaves. Two renderings of the same template have "the same syntactic
// structure" when their leaf sequences have the same kinds, and the same text
// everywhere except in the single leaf that holds the shown value.

import (
	"bytes"
	"encoding/json"
	"fmt"
	"strings"

	"verif/oracle/csstok"
	"verif/oracle/jslex"

	"github.com/yuin/goldmark"
	gast "github.com/yuin/goldmark/ast"
	"github.com/yuin/goldmark/extension"
	east "github.com/yuin/goldmark/extension/ast"
	gtext "github.com/yuin/goldmark/text"
	"golang.org/x/net/html"
)

// Leaf is one token of the reference tokenisation.
type Leaf struct {
	Kind string // compared between renderings
	Text string // compared between renderings except at the slot
	Ctx  string // description of the syntactic context (not compared)
}

func flatten(format, src string) []Leaf {
	switch format {
	case "html":
		return flattenHTML(src, "", nil)
	case "js":
		return appendJS(nil, src, "js-file")
	case "css":
		return appendCSS(nil, src, "css-file")
	case "json":
		return flattenJSON(src)
	case "md":
		return flattenMD(src, mdCommonMark)
	case "md-gfm":
		return flattenMD(src, mdGFM)
	}
	panic("unknown format " + format)
}

func appendJS(out []Leaf, src, where string) []Leaf {
	for _, t := range jslex.Lex(src) {
		out = append(out, Leaf{"js:" + t.Type, t.Text, where + ":js-" + t.Type})
	}
	return out
}

func appendCSS(out []Leaf, src, where string) []Leaf {
	for _, t := range csstok.Tokenize(src) {
		out = append(out, Leaf{"css:" + t.Type, t.Text, where + ":css-" + t.Type})
	}
	return out
}

// flattenHTML tokenises src with the WHATWG tokenizer of x/net/html. The
// content of script and style elements, of event handler attributes and of
// style attributes is tokenised further with the JS and CSS lexers.
func flattenHTML(src, prefix string, out []Leaf) []Leaf {
	z := html.NewTokenizer(strings.NewReader(src))
	raw := ""
	for {
		tt := z.Next()
		if tt == html.ErrorToken {
			return out
		}
		inRaw := raw
		raw = ""
		switch tt {
		case html.TextToken:
			txt := string(z.Text())
			switch inRaw {
			case "script:js":
				out = append(out, Leaf{prefix + "script-content", "", ""})
				out = appendJS(out, txt, prefix+"script")
				out = append(out, Leaf{prefix + "/script-content", "", ""})
			case "script:json":
				out = append(out, Leaf{prefix + "script-json-content", "", ""})
				for _, l := range flattenJSON(txt) {
					if l.Ctx != "" {
						l.Ctx = prefix + "script:" + l.Ctx
					}
					out = append(out, l)
				}
				out = append(out, Leaf{prefix + "/script-json-content", "", ""})
			case "style:css":
				out = append(out, Leaf{prefix + "style-content", "", ""})
				out = appendCSS(out, txt, prefix+"style")
				out = append(out, Leaf{prefix + "/style-content", "", ""})
			case "":
				out = append(out, Leaf{prefix + "text", txt, prefix + "text"})
			default:
				out = append(out, Leaf{prefix + "rawtext", txt, prefix + "rawtext(" + inRaw + ")"})
			}
		case html.StartTagToken, html.SelfClosingTagToken:
			// The self-closing flag is not part of the structure: x/net/html
			// reports it whenever '/' precedes '>', even at the end of an
			// unquoted attribute value where WHATWG makes it part of the
			// value, and HTML ignores it on non-void elements anyway.
			t := z.Token()
			out = append(out, Leaf{prefix + "starttag", t.Data, prefix + "tagname"})
			typ, hasType := "", false
			for _, a := range t.Attr {
				name := a.Key
				if a.Namespace != "" {
					name = a.Namespace + ":" + a.Key
				}
				if name == "type" && !hasType {
					typ, hasType = strings.ToLower(strings.Trim(a.Val, " \t\n\f\r")), true
				}
				out = append(out, Leaf{prefix + "attrname", name, prefix + "attrname"})
				switch {
				case strings.HasPrefix(name, "on") && len(name) > 2:
					out = append(out, Leaf{prefix + "attrval-js", "", ""})
					out = appendJS(out, a.Val, prefix+"event-attr")
					out = append(out, Leaf{prefix + "/attrval-js", "", ""})
				case name == "style":
					out = append(out, Leaf{prefix + "attrval-css", "", ""})
					out = appendCSS(out, a.Val, prefix+"style-attr")
					out = append(out, Leaf{prefix + "/attrval-css", "", ""})
				default:
					out = append(out, Leaf{prefix + "attrval", a.Val, prefix + "attrval(" + attrClass(name) + ")"})
				}
			}
			out = append(out, Leaf{prefix + "/starttag", "", ""})
			switch t.Data {
			case "script":
				// https://html.spec.whatwg.org/multipage/scripting.html#prepare-the-script-element
				switch {
				case typ == "" || typ == "module" || jsMIMETypes[typ]:
					raw = "script:js"
				case typ == "application/json" || typ == "application/ld+json" || typ == "importmap" || typ == "speculationrules":
					raw = "script:json"
				default:
					raw = "script:data-block"
				}
			case "style":
				if typ == "" || typ == "text/css" {
					raw = "style:css"
				} else {
					raw = "style:unknown-type"
				}
			case "textarea", "title", "iframe", "noembed", "noframes", "noscript", "plaintext", "xmp":
				raw = t.Data
			}
		case html.EndTagToken:
			t := z.Token()
			out = append(out, Leaf{prefix + "endtag", t.Data, prefix + "endtagname"})
		case html.CommentToken:
			out = append(out, Leaf{prefix + "comment", string(z.Raw()), prefix + "comment"})
		case html.DoctypeToken:
			out = append(out, Leaf{prefix + "doctype", string(z.Raw()), prefix + "doctype"})
		}
	}
}

// JavaScript MIME type essence strings (https://mimesniff.spec.whatwg.org/#javascript-mime-type).
var jsMIMETypes = map[string]bool{
	"application/ecmascript": true, "application/javascript": true, "application/x-ecmascript": true,
	"application/x-javascript": true, "text/ecmascript": true, "text/javascript": true,
	"text/javascript1.0": true, "text/javascript1.1": true, "text/javascript1.2": true,
	"text/javascript1.3": true, "text/javascript1.4": true, "text/javascript1.5": true,
	"text/jscript": true, "text/livescript": true, "text/x-ecmascript": true, "text/x-javascript": true,
}

// attrClass names the class of an attribute for the context description.
func attrClass(name string) string {
	switch name {
	case "href", "src", "action", "cite", "data", "formaction", "poster", "longdesc", "manifest":
		return "url:" + name
	case "srcset":
		return "urlset:srcset"
	}
	return "plain"
}

// flattenJSON tokenises src with encoding/json; tokenisation stops at the
// first syntax error, which becomes a final "json:error" leaf.
func flattenJSON(src string) []Leaf {
	var out []Leaf
	dec := json.NewDecoder(strings.NewReader(src))
	dec.UseNumber()
	for {
		t, err := dec.Token()
		if err != nil {
			if err.Error() != "EOF" {
				out = append(out, Leaf{"json:error", "", ""})
			}
			return out
		}
		switch t := t.(type) {
		case json.Delim:
			out = append(out, Leaf{"json:delim" + t.String(), "", ""})
		case string:
			out = append(out, Leaf{"json:string", t, "json-string"})
		case json.Number:
			out = append(out, Leaf{"json:number", t.String(), "json-number"})
		case bool:
			out = append(out, Leaf{"json:bool", fmt.Sprint(t), "json-literal"})
		case nil:
			out = append(out, Leaf{"json:null", "", "json-literal"})
		}
	}
}

var mdCommonMark = goldmark.New()
var mdGFM = goldmark.New(goldmark.WithExtensions(extension.GFM))

// flattenMD parses src with goldmark and flattens the AST in document order.
// Adjacent text nodes (text broken by soft line breaks) are one leaf. Raw
// HTML and HTML blocks are tokenised further with the HTML tokenizer.
func flattenMD(src string, md goldmark.Markdown) []Leaf {
	source := []byte(src)
	doc := md.Parser().Parse(gtext.NewReader(source))
	var out []Leaf
	var pending bytes.Buffer
	havePending := false
	flush := func() {
		if havePending {
			out = append(out, Leaf{"md:text", pending.String(), "md-text"})
			pending.Reset()
			havePending = false
		}
	}
	lines := func(n gast.Node) string {
		var b bytes.Buffer
		ls := n.Lines()
		for i := 0; i < ls.Len(); i++ {
			s := ls.At(i)
			b.Write(s.Value(source))
		}
		return b.String()
	}
	gast.Walk(doc, func(n gast.Node, entering bool) (gast.WalkStatus, error) {
		switch n := n.(type) {
		case *gast.Text:
			if entering {
				pending.Write(n.Segment.Value(source))
				havePending = true
				// Hard and soft line breaks are both kept as a newline inside
				// the text leaf: goldmark does not recognise a hard break
				// after an escaped backslash ("\\\\\\\n" is a literal backslash
				// followed by a hard break in CommonMark), so the distinction
				// cannot be trusted.
				if n.HardLineBreak() || n.SoftLineBreak() {
					pending.WriteByte('\n')
				}
			}
			return gast.WalkContinue, nil
		case *gast.String:
			if entering {
				pending.Write(n.Value)
				havePending = true
			}
			return gast.WalkContinue, nil
		}
		flush()
		kind := n.Kind().String()
		if !entering {
			out = append(out, Leaf{"md:/" + kind, "", ""})
			return gast.WalkContinue, nil
		}
		switch n := n.(type) {
		case *gast.Heading:
			out = append(out, Leaf{"md:" + kind, fmt.Sprint(n.Level), ""})
		case *gast.Emphasis:
			out = append(out, Leaf{"md:" + kind, fmt.Sprint(n.Level), ""})
		case *gast.List:
			out = append(out, Leaf{"md:" + kind, fmt.Sprintf("%c %d", n.Marker, n.Start), ""})
		case *gast.Link:
			out = append(out, Leaf{"md:" + kind, "", ""})
			out = append(out, Leaf{"md:link-dest", string(n.Destination), "md-link-destination"})
			out = append(out, Leaf{"md:link-title", string(n.Title), "md-link-title"})
		case *gast.Image:
			out = append(out, Leaf{"md:" + kind, "", ""})
			out = append(out, Leaf{"md:link-dest", string(n.Destination), "md-image-destination"})
			out = append(out, Leaf{"md:link-title", string(n.Title), "md-image-title"})
		case *gast.AutoLink:
			out = append(out, Leaf{"md:" + kind, string(n.URL(source)), "md-autolink"})
		case *gast.FencedCodeBlock:
			info := ""
			if n.Info != nil {
				info = string(n.Info.Segment.Value(source))
			}
			out = append(out, Leaf{"md:" + kind, "", ""})
			out = append(out, Leaf{"md:code-info", info, "md-fenced-code-info"})
			out = append(out, Leaf{"md:code", lines(n), "md-fenced-code"})
		case *gast.CodeBlock:
			out = append(out, Leaf{"md:" + kind, "", ""})
			out = append(out, Leaf{"md:code", lines(n), "md-indented-code"})
		case *gast.HTMLBlock:
			out = append(out, Leaf{"md:" + kind, "", ""})
			txt := lines(n)
			if n.HasClosure() {
				txt += string(n.ClosureLine.Value(source))
			}
			out = flattenHTML(txt, "md-html:", out)
		case *gast.RawHTML:
			out = append(out, Leaf{"md:" + kind, "", ""})
			var b bytes.Buffer
			for i := 0; i < n.Segments.Len(); i++ {
				s := n.Segments.At(i)
				b.Write(s.Value(source))
			}
			out = flattenHTML(b.String(), "md-html:", out)
		case *east.TaskCheckBox:
			out = append(out, Leaf{"md:" + kind, fmt.Sprint(n.IsChecked), ""})
		default:
			out = append(out, Leaf{"md:" + kind, "", ""})
		}
		return gast.WalkContinue, nil
	})
	flush()
	return out
}

// diff compares the benign and the payload leaf sequences. slot is the index
// of the leaf of the benign sequence that holds the shown value. It returns
// "" if the structure is preserved, "vanished" if the payload rendering is
// the benign one with the slot leaf removed, or a description of the first
// difference.
func diff(b, p []Leaf, slot int) (effect string, at int) {
	// the value produced no token at all (for example a space shown as a tag
	// attribute name): everything else is unchanged
	for k := 1; k <= 2; k++ {
		if len(p) == len(b)-k && slot+k <= len(b) && equalLeaves(b[:slot], p[:slot]) && equalLeaves(b[slot+k:], p[slot:]) {
			if k == 1 || strings.HasSuffix(b[slot+1].Kind, "attrval") && b[slot+1].Text == "" {
				return "vanished", slot
			}
		}
	}
	n := len(b)
	if len(p) < n {
		n = len(p)
	}
	for i := 0; i < n; i++ {
		if b[i].Kind != p[i].Kind {
			return "retokenised:" + b[i].Kind + "→" + p[i].Kind, i
		}
		if i != slot && b[i].Text != p[i].Text {
			return "neighbour-changed:" + b[i].Kind, i
		}
	}
	switch {
	case len(p) > len(b):
		return "tokens-added:" + p[n].Kind, n
	case len(p) < len(b):
		return "tokens-removed:" + b[n].Kind, n
	}
	return "", -1
}

// dissolved reports whether the attack rendering p is the benign rendering b
// with a range of leaves that contains the slot and some markup replaced by
// one plain text leaf (possibly in a Markdown paragraph of its own): the value
// made the template's markup around it invalid, so that it is all text now.
func dissolved(b, p []Leaf, slot int) bool {
	i := 0
	for i < len(b) && i < len(p) && i != slot && b[i].Kind == p[i].Kind && b[i].Text == p[i].Text {
		i++
	}
	j := 0
	for j < len(b)-i && j < len(p)-i && len(b)-1-j != slot && b[len(b)-1-j].Kind == p[len(p)-1-j].Kind && b[len(b)-1-j].Text == p[len(p)-1-j].Text {
		j++
	}
	mb, mp := b[i:len(b)-j], p[i:len(p)-j]
	if len(mp) == 3 && mp[0].Kind == "md:Paragraph" && mp[2].Kind == "md:/Paragraph" {
		mp = mp[1:2]
	}
	if len(mp) != 1 || !isTextKind(mp[0].Kind) {
		return false
	}
	for _, l := range mb {
		if !isTextKind(l.Kind) {
			return true
		}
	}
	return false
}

func isTextKind(k string) bool { return k == "text" || strings.HasSuffix(k, ":text") }

func equalLeaves(a, b []Leaf) bool {
	if len(a) != len(b) {
		return false
	}
	for i := range a {
		if a[i].Kind != b[i].Kind || a[i].Text != b[i].Text {
			return false
		}
	}
	return true
}

func dumpLeaves(ls []Leaf, mark int) string {
	var b strings.Builder
	for i, l := range ls {
		if i > 0 {
			b.WriteByte(' ')
		}
		if i == mark {
			b.WriteString(">>")
		}
		b.WriteString(l.Kind)
		if l.Text != "" {
			fmt.Fprintf(&b, "%q", l.Text)
		}
		if i == mark {
			b.WriteString("<<")
		}
	}
	return b.String()
}
