package main

// Two families of shows whose context does not come from the text that
// precedes them in the file:
//
// typed-body-after-block: the body of a macro declared with a result type
// (or of a show-using statement with a type) is lexed in the context of that
// type, whatever the format of the file; block statements nested in the body
// push and pop that context. The show of the untrusted value is placed
// before, inside and after every kind of nested block.
//
// two-result-call-shows: the show of a call that returns (value, error) is
// rewritten by the type checker; the show it synthesises must have the
// context of the original one.
//
// Both have a differential oracle between two real executions: the value
// must render exactly as the same show does where the context is given by the
// text itself (a file of the result type's format without block statements;
// the same document showing a variable).

import (
	"fmt"
	"strings"

	"verif/kit"

	"github.com/open2b/scriggo"
	"github.com/open2b/scriggo/ast"
	"github.com/open2b/scriggo/ast/astutil"
	"github.com/open2b/scriggo/native"
)

// Identifiers of the two spaces in the result cache (the spaces of main.go
// use their index in the list of spaces).
const typedCacheID, callCacheID = 1000, 1001

// ---- typed-body-after-block ----

type typedResult struct {
	name, ext string
	// hosts: file extension of the document and the place where the result is emitted
	hosts []typedHost
	// forms: text around the show inside the body
	forms []typedForm
}

type typedHost struct{ ext, pre, post string }

type typedForm struct{ name, pre, post string }

var typedResults = []typedResult{
	{"css", "css",
		[]typedHost{{"html", "<style>a{b:", "}</style>"}, {"md", "<style>a{b:", "}</style>\n"}},
		[]typedForm{{"code", "", ""}, {"string-dq", `"`, `"`}, {"string-sq", "'", "'"}}},
	{"js", "js",
		[]typedHost{{"html", "<script>var a = ", ";</script>"}, {"md", "<script>var a = ", ";</script>\n"}},
		[]typedForm{{"code", "", ""}, {"string-dq", `"`, `"`}, {"string-sq", "'", "'"}}},
	{"json", "json",
		[]typedHost{{"html", `<script type="application/ld+json">[`, `]</script>`}, {"md", `<script type="application/ld+json">[`, "]</script>\n"}},
		[]typedForm{{"value", "", ""}, {"string", `"`, `"`}}},
	{"html", "html",
		// (an html value shown in a Markdown file is not emitted verbatim: only the HTML host)
		[]typedHost{{"html", "<p>", "</p>"}},
		[]typedForm{{"text", "", ""}, {"attr-dq", `<a title="`, `">`}, {"attr-unquoted", "<a title=", ">"}, {"url-attr", `<a href="`, `">`}, {"tag", "<a ", ">"},
			{"script-string", `<script>var a = "`, `";</script>`}, {"style-string", `<style>a{b:"`, `"}</style>`}}},
	{"markdown", "md",
		[]typedHost{{"md", "", "\n"}},
		[]typedForm{{"paragraph", "", ""}, {"link-destination", "[x](", ")"}, {"inline-code", "`", "`"}, {"html-attribute", `<a title="`, `">`}}},
}

// typedBlock is a nested block statement: open + content + close, rendering
// the content once. other is a type different from the body's type.
type typedBlock struct {
	name        string
	open, close func(other string) string
	// noInside: the content is not template code (raw) or is lexed in another
	// context (a nested typed body), so the show is not placed inside
	noInside bool
}

func fixed(s string) func(string) string { return func(string) string { return s } }

var typedBlocks = []typedBlock{
	{"none", fixed(""), fixed(""), false},
	{"raw", fixed("{% raw %}"), fixed("{% end raw %}"), true},
	{"raw-with-marker", fixed("{% raw x %}"), fixed("{% end raw x %}"), true},
	{"if", fixed("{% if true %}"), fixed("{% end %}"), false},
	{"if-else", fixed("{% if false %}n{% else %}"), fixed("{% end if %}"), false},
	{"for", fixed("{% for i := 0; i < 1; i++ %}"), fixed("{% end for %}"), false},
	{"for-range", fixed("{% for _ in []int{1} %}"), fixed("{% end %}"), false},
	{"switch", fixed("{% switch %}{% default %}"), fixed("{% end switch %}"), false},
	{"select", fixed("{% select %}{% default %}"), fixed("{% end select %}"), false},
	{"show-using-same-type", func(string) string { return "{% show itea; using %}" }, fixed("{% end using %}"), false},
	{"show-using-other-type", func(o string) string { return "{% show len(string(itea)) - 1; using " + o + " %}" }, fixed("{% end using %}"), true},
	{"nested-macro-other-type", func(o string) string { return "{% macro N " + o + " %}" }, fixed("{% end macro %}1"), true},
	{"if(raw)", fixed("{% if true %}{% raw %}"), fixed("{% end raw %}{% end if %}"), true},
	{"for(if)", fixed("{% for i := 0; i < 1; i++ %}{% if true %}"), fixed("{% end if %}{% end for %}"), false},
	{"if(show-using-other-type)", func(o string) string { return "{% if true %}{% show len(string(itea)) - 1; using " + o + " %}" }, fixed("{% end using %}{% end if %}"), true},
}

// otherType returns a result type different from t whose lexer context is as
// far as possible from it.
func otherType(t string) string {
	if t == "html" || t == "markdown" {
		return "js"
	}
	return "html"
}

var typedVias = []string{"macro-parameter", "macro-global", "show-using"}

var typedPositions = []string{"before-block", "inside-block", "after-block", "after-two-blocks"}

type typedDoc struct {
	res             *typedResult
	host            typedHost
	form            typedForm
	block           *typedBlock
	via, position   string
	body, refBody   string // refBody: the body without block statements
	files, refFiles map[string]string
}

func typedDocs() []typedDoc {
	var docs []typedDoc
	for ri := range typedResults {
		r := &typedResults[ri]
		for _, h := range r.hosts {
			for _, f := range r.forms {
				for bi := range typedBlocks {
					b := &typedBlocks[bi]
					for _, via := range typedVias {
						for _, pos := range typedPositions {
							if pos == "inside-block" && (b.noInside || b.name == "none") {
								continue
							}
							if pos == "after-two-blocks" && b.name == "none" {
								continue
							}
							docs = append(docs, makeTypedDoc(r, h, f, b, via, pos))
						}
					}
				}
			}
		}
	}
	return docs
}

func makeTypedDoc(r *typedResult, h typedHost, f typedForm, b *typedBlock, via, pos string) typedDoc {
	d := typedDoc{res: r, host: h, form: f, block: b, via: via, position: pos}
	name := "v"
	if via == "macro-parameter" {
		name = "c"
	}
	o := otherType(r.name)
	show := func(n string) string { return f.pre + "{{ " + n + " }}" + f.post }
	// what the block renders with content k
	rendered := "k"
	switch b.name {
	case "none":
		rendered = ""
	case "show-using-other-type", "if(show-using-other-type)":
		rendered = "0" // len("k") - 1
	case "nested-macro-other-type":
		rendered = "1" // the declaration renders nothing
	}
	blk := b.open(o) + "k" + b.close(o)
	if b.name == "none" {
		blk = ""
	}
	switch pos {
	case "before-block":
		d.body, d.refBody = show(name)+" "+blk, show("v")+" "+rendered
	case "after-block":
		d.body, d.refBody = blk+" "+show(name), rendered+" "+show("v")
	case "after-two-blocks":
		d.body, d.refBody = blk+blk+" "+show(name), rendered+rendered+" "+show("v")
	case "inside-block":
		d.body, d.refBody = "k "+b.open(o)+show(name)+b.close(o)+" k", "k "+show("v")+" k"
	}
	switch via {
	case "macro-parameter":
		d.files = map[string]string{"index." + h.ext: "{% macro R(c string) " + r.name + " %}" + d.body + "{% end macro %}\n" + h.pre + "{{ R(v) }}" + h.post}
	case "macro-global":
		d.files = map[string]string{"index." + h.ext: "{% macro R " + r.name + " %}" + d.body + "{% end macro %}\n" + h.pre + "{{ R() }}" + h.post}
	case "show-using":
		d.files = map[string]string{"index." + h.ext: h.pre + "{% show itea; using " + r.name + " %}" + d.body + "{% end using %}" + h.post}
	}
	d.refFiles = map[string]string{"index." + r.ext: d.refBody}
	return d
}

// showContexts returns the contexts of the shows of the identifiers v and c.
func showContexts(tree *ast.Tree) string {
	var cs []string
	astutil.Inspect(tree, func(n ast.Node) bool {
		if s, ok := n.(*ast.Show); ok && len(s.Expressions) == 1 {
			if id, ok := s.Expressions[0].(*ast.Identifier); ok && (id.Name == "v" || id.Name == "c") {
				cs = append(cs, contextName(s.Context))
			}
		}
		return true
	})
	return strings.Join(cs, ",")
}

type builtDoc struct {
	t   *scriggo.Template
	set func(string)
	ctx string
	err error
}

func buildFiles(files map[string]string, index string, globals func() (native.Declarations, func(string))) *builtDoc {
	b := &builtDoc{}
	fsys := scriggo.Files{}
	for n, s := range files {
		fsys[n] = []byte(s)
	}
	g, set := globals()
	b.set = set
	b.t, b.err = scriggo.BuildTemplate(fsys, index, &scriggo.BuildOptions{
		Globals: g,
		ExpandedTransformer: func(tree *ast.Tree) error {
			b.ctx = showContexts(tree)
			return nil
		},
	})
	return b
}

func (b *builtDoc) run(val string) (string, error) {
	b.set(val)
	var w strings.Builder
	err := b.t.Run(&w, nil, nil)
	return w.String(), err
}

func stringGlobal() (native.Declarations, func(string)) {
	p := new(string)
	return native.Declarations{"v": p}, func(s string) { *p = s }
}

// payloadValues returns the values shown for a payload: bare and between two letters.
func payloadValues(pl payload) []string { return []string{pl.s, "z" + pl.s + "z"} }

func typedSpace() kit.Space {
	docs := typedDocs()
	np := uint64(len(payloads))
	evalOne := func(d *typedDoc, doc, ref *builtDoc, pl payload) kit.Outcome {
		o := kit.Outcome{OK: true, Ops: 2}
		if ref.err != nil {
			o.Class = "skipped:reference-build-error"
			return o
		}
		describe := func() string {
			return fmt.Sprintf("files:\n%sreference (the body without block statements, in a file of the result type's format):\n%s", quoteFiles(d.files), quoteFiles(d.refFiles))
		}
		// the key names the block kind, where the show is with respect to it and
		// the contexts; host format, delivery and payload are in the detail
		where := fmt.Sprintf("typed-body block=%s show=%s", d.block.name, strings.Replace(d.position, "after-two-blocks", "after-block", 1))
		if doc.err != nil {
			o.Class = "skipped:build-error(" + d.block.name + " in " + d.via + ")"
			return o
		}
		o.Nontrivial = true
		o.Class = "same-as-directly-in-format:" + d.res.name + "/" + d.form.name
		if doc.ctx != ref.ctx {
			o.OK = false
			o.Class = "TYPED-BODY-CONTEXT"
			if fileCtx := map[string]string{"html": "HTML", "md": "Markdown"}[d.host.ext]; doc.ctx == fileCtx {
				o.Key = where + " show-has-the-context-of-the-file-instead-of-the-context-of-the-body's-type"
			} else {
				o.Key = fmt.Sprintf("%s lexer-ctx=%s instead-of=%s", where, doc.ctx, ref.ctx)
			}
			o.Detail = describe() + fmt.Sprintf("context of the show in the body: %s\ncontext of the show in the reference: %s", doc.ctx, ref.ctx)
			return o
		}
		for _, val := range append([]string{benign}, payloadValues(pl)...) {
			out, err1 := doc.run(val)
			want, err2 := ref.run(val)
			o.Ops += 2
			if err1 != nil || err2 != nil {
				if (err1 == nil) != (err2 == nil) {
					o.OK = false
					o.Class = "TYPED-BODY-DIFFERS"
					o.Key = where + " run-error-only-on-one-side"
					o.Detail = describe() + fmt.Sprintf("value %q\nerror of the document: %v\nerror of the reference: %v", val, err1, err2)
					return o
				}
				o.Class = "payload-run-error"
				continue
			}
			want = d.host.pre + want + d.host.post
			if d.via != "show-using" {
				want = "\n" + want // the line of the macro declaration
			}
			if out != want {
				o.OK = false
				o.Class = "TYPED-BODY-DIFFERS"
				o.Key = fmt.Sprintf("%s result=%s lexer-ctx=%s renders-differently-than-directly-in-the-format", where, d.res.name, doc.ctx)
				o.Detail = describe() + fmt.Sprintf("value %q\nrendering %q\nexpected  %q", val, out, want)
				return o
			}
		}
		return o
	}
	eval := func(i uint64) kit.Outcome {
		r := cache.get(typedCacheID<<48|i/np, func() *docResult {
			d := &docs[i/np]
			doc := buildFiles(d.files, "index."+d.host.ext, stringGlobal)
			ref := buildFiles(d.refFiles, "index."+d.res.ext, stringGlobal)
			r := &docResult{files: d.files}
			for _, pl := range payloads {
				r.outcomes = append(r.outcomes, evalOne(d, doc, ref, pl))
			}
			return r
		})
		return r.outcomes[i%np]
	}
	return kit.Space{
		Name: "typed-body-after-block",
		Size: uint64(len(docs)) * np,
		Eval: eval,
		Describe: func(i uint64) any {
			d := &docs[i/np]
			return map[string]any{"files": d.files, "reference": d.refFiles, "result-type": d.res.name, "via": d.via, "block": d.block.name,
				"show": d.position, "form": d.form.name, "payload": payloads[i%np].s}
		},
	}
}

// ---- two-result-call-shows ----

type place struct{ ext, name, pre, post string }

var callPlaces = []place{
	{"html", "text", "<p>", "</p>"}, {"html", "textarea", "<textarea>", "</textarea>"}, {"html", "comment", "<!-- ", " -->"},
	{"html", "attr-dq", `<a title="`, `">`}, {"html", "attr-sq", "<a title='", "'>"}, {"html", "attr-unquoted", "<a title=", ">"},
	{"html", "url-attr-dq", `<a href="`, `">`}, {"html", "url-attr-unquoted", "<a href=", ">"}, {"html", "url-attr-query", `<a href="/a?b=`, `">`},
	{"html", "url-attr-path", `<a href="/a/`, `?c=d">`}, {"html", "srcset-dq", `<img srcset="`, `">`}, {"html", "event-attr", `<a onclick="f(`, `)">`},
	{"html", "style-attr", `<a style="b:`, `">`}, {"html", "tag", "<a ", ">"},
	{"html", "script-string-dq", `<script>var a = "`, `";</script>`}, {"html", "script-string-sq", "<script>var a = '", "';</script>"},
	{"html", "script-code", "<script>var a = [", "];</script>"}, {"html", "script-template-literal", "<script>var a = `", "`;</script>"},
	{"html", "json-string", `<script type="application/ld+json">{"a":"`, `"}</script>`}, {"html", "json-value", `<script type="application/ld+json">[`, `]</script>`},
	{"html", "style-string-dq", `<style>a{b:"`, `"}</style>`}, {"html", "style-string-sq", "<style>a{b:'", "'}</style>"}, {"html", "style-code", "<style>a{b:", "}</style>"},
	{"css", "code", "a{b:", "}\n"}, {"css", "string-dq", `a{b:"`, "\"}\n"}, {"css", "string-sq", "a{b:'", "'}\n"},
	{"js", "code", "var a = [", "];\n"}, {"js", "string-dq", `var a = "`, "\";\n"}, {"js", "string-sq", "var a = '", "';\n"},
	{"json", "value", "[", "]"}, {"json", "string", `{"a":"`, `"}`},
	{"md", "paragraph", "", "\n"}, {"md", "paragraph-middle", "x ", " x\n"}, {"md", "heading", "# ", "\n"}, {"md", "list-item", "- ", "\n"},
	{"md", "indented-code-spaces", "    ", "\n"}, {"md", "indented-code-tab", "\t", "\n"}, {"md", "indented-code-second-line", "    x\n    ", "\n"},
	{"md", "fenced-code", "```\n", "\n```\n"}, {"md", "link-text", "[", "](/x)\n"}, {"md", "link-destination", "[x](", ")\n"},
	{"md", "inline-code", "`", "`\n"}, {"md", "bare-url", "http://x/", "\n"}, {"md", "html-attribute", `<a title="`, "\">\n"}, {"md", "html-attribute-url", `<a href="`, "\">\n"},
	{"txt", "text", "", "\n"},
}

// callKind is a result type of the called function, with the variable it is
// compared with. The function and the variable get the same value.
type callKind struct {
	name    string
	globals func() (native.Declarations, func(string))
}

func intOf(s string) int { return 7*len(s) - 10 }

var callKinds = []callKind{
	{"(string,error)", func() (native.Declarations, func(string)) {
		p, q := new(string), new(string)
		return native.Declarations{"v": p, "a": q, "f": func(s string) (string, error) { return s, nil }}, func(s string) { *p, *q = s, s }
	}},
	{"(html,error)", func() (native.Declarations, func(string)) {
		p, q := new(native.HTML), new(string)
		return native.Declarations{"v": p, "a": q, "f": func(s string) (native.HTML, error) { return native.HTML(s), nil }}, func(s string) { *p, *q = native.HTML(s), s }
	}},
	{"(int,error)", func() (native.Declarations, func(string)) {
		p, q := new(int), new(string)
		return native.Declarations{"v": p, "a": q, "f": func(s string) (int, error) { return intOf(s), nil }}, func(s string) { *p, *q = intOf(s), s }
	}},
	{"(any,error)", func() (native.Declarations, func(string)) {
		p, q := new(any), new(string)
		return native.Declarations{"v": p, "a": q, "f": func(s string) (any, error) { return s, nil }}, func(s string) { *p, *q = any(s), s }
	}},
	{"(Stringer,error)", func() (native.Declarations, func(string)) {
		p, q := new(Str), new(string)
		return native.Declarations{"v": p, "a": q, "f": func(s string) (Str, error) { return Str(s), nil }}, func(s string) { *p, *q = Str(s), s }
	}},
	{"([]string,error)", func() (native.Declarations, func(string)) {
		p, q := new([]string), new(string)
		return native.Declarations{"v": p, "a": q, "f": func(s string) ([]string, error) { return []string{s, "x"}, nil }}, func(s string) { *p, *q = []string{s, "x"}, s }
	}},
}

// callForms: where the show of the call is, with the show of the variable it
// must render like.
var callForms = []struct {
	name  string
	files func(ext, pre, post, expr string) map[string]string
}{
	{"direct", modes[0].files},
	{"in-macro", modes[1].files},
	{"in-if-block", func(ext, pre, post, expr string) map[string]string {
		return map[string]string{"index." + ext: pre + "{% if true %}{{ " + expr + " }}{% end %}" + post}
	}},
	{"second-of-two-shows", func(ext, pre, post, expr string) map[string]string {
		return map[string]string{"index." + ext: pre + "{{ " + expr + " }}{{ " + expr + " }}" + post}
	}},
}

func callSpace() kit.Space {
	np := uint64(len(payloads))
	radices := []uint64{np, uint64(len(callForms)), uint64(len(callKinds)), uint64(len(callPlaces))} // least significant first
	split := func(i uint64) (pl *place, k *callKind, form int, p payload) {
		x := kit.Mixed(i, radices...)
		return &callPlaces[x[3]], &callKinds[x[2]], int(x[1]), payloads[x[0]]
	}
	evalOne := func(i uint64, doc, ref *builtDoc, callFiles, varFiles map[string]string) kit.Outcome {
		_, k, _, pl := split(i)
		o := kit.Outcome{OK: true, Ops: 2}
		// the key names the context of the place; format, place, result type,
		// form of the show and payload are in the detail
		where := "two-result-call-show lexer-ctx-of-the-place=" + strings.Split(ref.ctx, ",")[0]
		describe := func() string {
			return fmt.Sprintf("f returns %s with a nil error and the value that the variable v has\nfiles:\n%sreference:\n%s", k.name, quoteFiles(callFiles), quoteFiles(varFiles))
		}
		if doc.err != nil || ref.err != nil {
			if (doc.err == nil) != (ref.err == nil) {
				o.OK = false
				o.Nontrivial = true
				o.Class = "CALL-SHOW-DIFFERS"
				o.Key = where + " builds-only-on-one-side"
				o.Detail = describe() + fmt.Sprintf("build error with the call: %v\nbuild error with the variable: %v", doc.err, ref.err)
				return o
			}
			o.Class = "skipped:type-cannot-be-shown-here"
			return o
		}
		o.Nontrivial = true
		o.Class = "same-as-variable:" + k.name
		for _, val := range append([]string{benign}, payloadValues(pl)...) {
			out, err1 := doc.run(val)
			want, err2 := ref.run(val)
			o.Ops += 2
			if err1 != nil || err2 != nil {
				if (err1 == nil) != (err2 == nil) {
					o.OK = false
					o.Class = "CALL-SHOW-DIFFERS"
					o.Key = where + " run-error-only-on-one-side"
					o.Detail = describe() + fmt.Sprintf("value %q\nerror with the call: %v\nerror with the variable: %v", val, err1, err2)
					return o
				}
				o.Class = "payload-run-error"
				continue
			}
			if out != want {
				o.OK = false
				o.Class = "CALL-SHOW-DIFFERS"
				o.Key = where + " renders-differently-than-the-same-value-shown-through-a-variable"
				o.Detail = describe() + fmt.Sprintf("value %q\nrendering with the call     %q\nrendering with the variable %q", val, out, want)
				return o
			}
		}
		return o
	}
	eval := func(i uint64) kit.Outcome {
		r := cache.get(callCacheID<<48|i/np, func() *docResult {
			first := i / np * np
			pc, k, fi, _ := split(first)
			form := callForms[fi]
			callFiles := form.files(pc.ext, pc.pre, pc.post, "f(a)")
			varFiles := form.files(pc.ext, pc.pre, pc.post, "v")
			doc := buildFiles(callFiles, "index."+pc.ext, k.globals)
			ref := buildFiles(varFiles, "index."+pc.ext, k.globals)
			r := &docResult{files: callFiles}
			for j := uint64(0); j < np; j++ {
				r.outcomes = append(r.outcomes, evalOne(first+j, doc, ref, callFiles, varFiles))
			}
			return r
		})
		return r.outcomes[i%np]
	}
	return kit.Space{
		Name: "two-result-call-shows",
		Size: kit.Product(radices...),
		Eval: eval,
		Describe: func(i uint64) any {
			pc, k, fi, pl := split(i)
			return map[string]any{"files": callForms[fi].files(pc.ext, pc.pre, pc.post, "f(a)"), "reference": callForms[fi].files(pc.ext, pc.pre, pc.post, "v"),
				"f": "func(string) " + k.name + ", returns its argument converted, nil", "payload": pl.s}
		},
	}
}
