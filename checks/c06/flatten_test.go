package main

import "testing"

func kinds(ls []Leaf) string {
	s := ""
	for _, l := range ls {
		s += l.Kind + " "
	}
	return s
}

func TestFlattenHTML(t *testing.T) {
	tests := []struct{ src, want string }{
		{`<a href=x/>t`, "starttag attrname attrval /starttag text "},
		{`<script>a="b"</script>`, "starttag /starttag script-content js:ident js:punct js:string /script-content endtag "},
		{`<script type="text/plain">a="b"</script>`, "starttag attrname attrval /starttag rawtext endtag "},
		{`<script type=" Application/JavaScript ">a</script>`, "starttag attrname attrval /starttag script-content js:ident /script-content endtag "},
		{`<script type="application/ld+json">["a"]</script>`, "starttag attrname attrval /starttag script-json-content json:delim[ json:string json:delim] /script-json-content endtag "},
		{`<style type=x>a{}</style>`, "starttag attrname attrval /starttag rawtext endtag "},
		{`<style>a{}</style>`, "starttag /starttag style-content css:ident css:{ css:} /style-content endtag "},
		{`<p onclick="f(1)" style="a:b">`, "starttag attrname attrval-js js:ident js:punct js:number js:punct /attrval-js attrname attrval-css css:ident css:colon css:ident /attrval-css /starttag "},
		{`<textarea><script>x</textarea><!-- <p> -->`, "starttag /starttag rawtext endtag comment "},
	}
	for _, tc := range tests {
		if got := kinds(flatten("html", tc.src)); got != tc.want {
			t.Errorf("flatten(%q)\n got %s\nwant %s", tc.src, got, tc.want)
		}
	}
}

func TestDiff(t *testing.T) {
	cmp := func(format, benign, attack string) string {
		b := flatten(format, benign)
		slot, status := findSlot(b)
		if status != "" {
			return "skipped:" + status
		}
		p := flatten(format, attack)
		eff, _ := diff(b, p, slot)
		if eff != "" && eff != "vanished" && dissolved(b, p, slot) {
			return "dissolved"
		}
		return eff
	}
	tests := []struct{ format, benign, attack, want string }{
		{"html", `<p title="zz">x`, `<p title="&#34;">x`, ""},
		{"html", `<a zz>`, `<a  >`, "vanished"},
		{"html", `<a zz>`, `<a z z>`, "retokenised:/starttag→attrname"},
		{"html", `<zz>x`, `<&lt;>x`, "dissolved"},
		{"html", `<p>zz</p>`, `<p><b></p>`, "retokenised:text→starttag"},
		{"html", `<script>"\nzz"</script>`, `<script>"\n;"</script>`, ""},
		{"html", "<script>\"\nzz</script>", "<script>\"\n;</script>", "skipped:javascript-invalid-before-value"},
		{"js", `a = "zz";`, `a = "\"";`, ""},
		{"js", `a = /"zz"/;`, `a = /"*/"/;`, "retokenised:js:punct→js:string-unterminated"},
		{"css", `a{b:"zz"}`, `a{b:"\22 "}`, ""},
		{"json", `["zz"]`, `["\""]`, ""},
		{"json", `["zz"]`, `["","x"]`, "retokenised:json:delim]→json:string"},
		{"md", "# zz\n", "# z\nz\n", "retokenised:md:/Document→md:Paragraph"},
		{"md", "a zz b\n", "a z\\*z b\n", ""},
	}
	for _, tc := range tests {
		if got := cmp(tc.format, tc.benign, tc.attack); got != tc.want {
			t.Errorf("%s: %q vs %q: got %q want %q", tc.format, tc.benign, tc.attack, got, tc.want)
		}
	}
}
