// C06 — autoescaping confines every shown untrusted value to its syntactic slot.
//
// Documents are all sequences of document atoms up to a bound with exactly one
// hole at every gap, in .html, .js, .css, .json and .md files; the hole shows
// the global variable v directly, through a macro, through an imported macro,
// or through a rendered partial. Each document is built once per value type
// and run with a benign value ("zz") and with every context-breaking payload.
// Both outputs are tokenised with a REFERENCE tokenizer (x/net/html, then the
// JS and CSS lexers of verif/oracle inside script/style/event/style
// attributes, encoding/json, goldmark): the two token sequences must have the
// same kinds and the same text everywhere except in the one token that holds
// the value. The oracle is relational: nothing is demanded of the benign
// document itself.
package main

import (
	"errors"
	"fmt"
	"sort"
	"strings"
	"sync"

	"verif/kit"

	"github.com/open2b/scriggo"
	"github.com/open2b/scriggo/ast"
	"github.com/open2b/scriggo/ast/astutil"
	"github.com/open2b/scriggo/native"
)

const benign = "zz"

// ---- payloads ----

type payload struct {
	name, s string
	// edge: the value is shown exactly as given (a letter with a separator at
	// ONE end), neither bare nor wrapped between two letters.
	edge bool
}

var payloads = []payload{
	{name: "dquote", s: `"`},
	{name: "squote", s: `'`},
	{name: "lt", s: `<`},
	{name: "gt", s: `>`},
	{name: "end-script", s: `</script>`},
	{name: "end-html-comment", s: `-->`},
	{name: "end-block-comment", s: `*/`},
	{name: "newline", s: "\n"},
	{name: "space", s: ` `},
	{name: "equals", s: `=`},
	{name: "backquote", s: "`"},
	{name: "backslash", s: `\`},
	{name: "entity-quot", s: `&quot;`},
	{name: "javascript-scheme", s: `javascript:`},
}

// edgePayloads are values that END or START with a separator; with the bare
// and wrapped forms of the separators they are the payloads of the two-shows
// spaces, where what a value ends with meets what the next show starts with.
var edgePayloads = []payload{
	{"ends-with-newline", "z\n", true},
	{"starts-with-newline", "\nz", true},
	{"ends-with-two-newlines", "z\n\n", true},
	{"starts-with-space", " z", true},
	{"ends-with-space", "z ", true},
	{"ends-with-tab", "z\t", true},
	{"ends-with-backslash", "z\\", true},
	{"ends-with-dquote", "z\"", true},
	{"ends-with-squote", "z'", true},
	{"ends-with-lt", "z<", true},
	{"ends-with-backquote", "z`", true},
}

// edgeClass is the name used in failure keys for a value with a separator at
// one end (the exact value is in the detail).
func edgeClass(val string) string {
	c := val[0]
	if c == 'z' || c == 'u' {
		c = val[len(val)-1]
	}
	switch c {
	case '\n':
		return "newline-at-edge"
	case ' ', '\t':
		return "space-at-edge"
	case '"', '\'', '`':
		return "quote-at-end"
	case '\\':
		return "backslash-at-end"
	case '<':
		return "lt-at-end"
	}
	return "benign"
}

// ---- formats ----

type formatSpec struct {
	name  string // html js css json md
	atoms []string
	// coarse is the alphabet of the spaces that multiply documents by value
	// types and delivery modes: larger atoms, so that every lexer context is
	// reached by two atoms.
	coarse []string
	// tail is appended to every document: it terminates whatever construct
	// is still open (quoted attribute, tag, comment, raw text element, string,
	// template literal, block comment, line) so that the token holding the
	// value is complete. It is literal template text placed after the hole,
	// identical in the benign and in the payload rendering.
	tail string
	// bounds per tier: maximum number of atoms of the direct/string space
	// (fine alphabet), of the other modes over the fine alphabet, and of the
	// type and mode spaces over the coarse alphabet.
	bounds map[string]bound
}

type bound struct{ direct, modesFine, coarse int }

var jsAtoms = []string{`"`, `'`, "`", `\`, `\\`, "/", "*", "\n", "x", "=", "${", "}", "(", ")"}
var cssAtoms = []string{`"`, `'`, `\`, `\\`, "/", "*", "\n", "x", "url(", ")", "{", ":", ";"}
var jsonAtoms = []string{`"`, `\`, "[", "]", "{", "}", ":", ",", "x", "1"}
var mdAtoms = []string{"# ", "*", "`", "[", "](", ")", "<", "\n", "    ", "\t", "x", "http://x", `\`, "```", "<a ", "href="}

var formats = []formatSpec{
	{
		name: "html",
		atoms: []string{"<a ", "<p>", "href=", "title=", "onclick=", "style=", "srcset=", `"`, `'`, ">", "/", " ", "x", "=",
			"<script>", "</script>", "<style>", "</style>", "<textarea>", "<title>", "<!--", "-->", "//", "/*", "*/", "`", `\`, "\n"},
		coarse: []string{"<a ", "<img ", `title="`, `title='`, "title=", `href="`, "href=", `srcset="`, `onclick="`, `style="`,
			"<script>", "<style>", "<textarea>", "<!--", `"`, `'`, "`", "x", "?x=", ">", "/", `"\\"`,
			`<script type="application/ld+json">`, `<script type="text/plain">`, `<script type="application/javascript">`, `<style type="x">`},
		tail:   "\"'`*/\n>--></script></style></textarea></title>",
		bounds: map[string]bound{"quick": {3, 2, 2}, "thorough": {4, 3, 2}},
	},
	{name: "js", atoms: jsAtoms, coarse: jsAtoms, tail: "\"'`*/\n",
		bounds: map[string]bound{"quick": {3, 0, 2}, "thorough": {4, 0, 3}}},
	{name: "css", atoms: cssAtoms, coarse: cssAtoms, tail: "\"'*/)\n",
		bounds: map[string]bound{"quick": {3, 0, 2}, "thorough": {4, 0, 3}}},
	{name: "json", atoms: jsonAtoms, coarse: jsonAtoms, tail: "\"",
		bounds: map[string]bound{"quick": {3, 0, 2}, "thorough": {5, 0, 3}}},
	{name: "md", atoms: mdAtoms, coarse: mdAtoms, tail: "\n",
		bounds: map[string]bound{"quick": {3, 0, 2}, "thorough": {4, 0, 3}}},
}

// ---- delivery modes ----

type mode struct {
	name  string
	files func(ext, pre, post, expr string) map[string]string
}

var modes = []mode{
	{"direct", func(ext, pre, post, expr string) map[string]string {
		return map[string]string{"index." + ext: pre + "{{ " + expr + " }}" + post}
	}},
	{"macro", func(ext, pre, post, expr string) map[string]string {
		// the declaration has a line of its own: it renders nothing, and text
		// after it on the same line would start the rendered line
		return map[string]string{"index." + ext: "{% macro M %}{{ " + expr + " }}{% end %}\n" + pre + "{{ M() }}" + post}
	}},
	{"import", func(ext, pre, post, expr string) map[string]string {
		return map[string]string{
			"index." + ext: `{% import "m.` + ext + `" %}` + "\n" + pre + "{{ M() }}" + post,
			"m." + ext:     "{% macro M %}{{ " + expr + " }}{% end %}",
		}
	}},
	{"render", func(ext, pre, post, expr string) map[string]string {
		return map[string]string{
			"index." + ext: pre + `{{ render "p.` + ext + `" }}` + post,
			"p." + ext:     "{{ " + expr + " }}",
		}
	}},
	{"render-txt", func(ext, pre, post, expr string) map[string]string {
		return map[string]string{
			"index." + ext: pre + `{{ render "p.txt" }}` + post,
			"p.txt":        "{{ " + expr + " }}",
		}
	}},
}

// ---- value types ----

// Str is an untrusted fmt.Stringer.
type Str string

func (s Str) String() string { return string(s) }

type valueKind struct {
	name string
	expr string
	// decl returns the pointer to declare as the global v and the function
	// that sets its value.
	decl func() (any, func(string))
}

var valueKinds = []valueKind{
	{"string", "v", func() (any, func(string)) {
		p := new(string)
		return p, func(s string) { *p = s }
	}},
	{"Stringer", "v", func() (any, func(string)) {
		p := new(Str)
		return p, func(s string) { *p = Str(s) }
	}},
	{"error", "v", func() (any, func(string)) {
		p := new(error)
		*p = errors.New("")
		return p, func(s string) { *p = errors.New(s) }
	}},
	{"[]string-element", "v[0]", func() (any, func(string)) {
		p := new([]string)
		*p = []string{""}
		return p, func(s string) { *p = []string{s} }
	}},
	{"[]string", "v", func() (any, func(string)) {
		p := new([]string)
		return p, func(s string) { *p = []string{s} }
	}},
	{"map-value", "v", func() (any, func(string)) {
		p := new(map[string]string)
		return p, func(s string) { *p = map[string]string{"k": s} }
	}},
	{"map-key", "v", func() (any, func(string)) {
		p := new(map[string]int)
		return p, func(s string) { *p = map[string]int{s: 1} }
	}},
	{"struct-field", "v", func() (any, func(string)) {
		p := new(struct{ K string })
		return p, func(s string) { p.K = s }
	}},
}

// ---- document enumeration: atom sequences with one hole at every gap ----

type docEnum struct {
	atoms  []string
	starts []uint64 // starts[l] = index of the first document with l atoms
	pow    []uint64
}

func newDocEnum(atoms []string, maxLen int) *docEnum {
	d := &docEnum{atoms: atoms}
	tot, p := uint64(0), uint64(1)
	for l := 0; l <= maxLen; l++ {
		d.starts = append(d.starts, tot)
		d.pow = append(d.pow, p)
		tot += uint64(l+1) * p
		p *= uint64(len(atoms))
	}
	d.starts = append(d.starts, tot)
	return d
}

func (d *docEnum) size() uint64 { return d.starts[len(d.starts)-1] }

// at returns the text before and after the hole of document i.
func (d *docEnum) at(i uint64) (pre, post string) {
	l := 0
	for l+2 < len(d.starts) && i >= d.starts[l+1] {
		l++
	}
	r := i - d.starts[l]
	gap := int(r / d.pow[l])
	seq := r % d.pow[l]
	idx := make([]int, l)
	n := uint64(len(d.atoms))
	for k := l - 1; k >= 0; k-- {
		idx[k] = int(seq % n)
		seq /= n
	}
	var a, b strings.Builder
	for k, x := range idx {
		if k < gap {
			a.WriteString(d.atoms[x])
		} else {
			b.WriteString(d.atoms[x])
		}
	}
	return a.String(), b.String()
}

// docSource is an index-addressable set of documents with one hole.
type docSource interface {
	size() uint64
	at(i uint64) (pre, post string)
}

// listDoc is one document of an explicit list. When alonePre is not empty
// the document has a differential twin: the same hole in a shorter document,
// whose rendering, without its first aloneCut bytes, must be a suffix of the
// rendering of the document.
type listDoc struct {
	pre, post     string
	alonePre      string
	aloneCut      int
	first, second string // description of the two attributes (pair documents)
	// elementState: the document is <complete elements><opener><hole>; the hole
	// must render exactly as in the twin <opener><hole> (checked before the
	// structure oracle, so that state carried from one element into the next is
	// keyed as such and not as whatever desync it causes).
	elementState bool
	// two-shows documents: the document has a second show, of the global u,
	// whose value is uVal for all the runs of the document. twoShows is
	// "hole-first" (the hole is followed by {{ u }}, u benign) or "hole-second"
	// (the hole follows {{ u }}, which ends or starts with a separator).
	twoShows, uVal, uName, position string
}

type docList []listDoc

func (d docList) size() uint64 { return uint64(len(d)) }

func (d docList) at(i uint64) (pre, post string) { return d[i].pre, d[i].post }

// elementStateDocs enumerates (ending state x ending state x next opening
// context): up to two elements or attributes that END in every lexer state
// (inside a // or /* comment, inside a string, in a URL, ...), then an atom
// that opens an element or attribute up to a value position, then the hole.
// Lexer state that must be reset at the end of an element is visible in the
// context of the hole of the next element.
func elementStateDocs() docList {
	endings := []string{
		"<script>x // c</script>", "<script>x /* c</script>", `<script>"s</script>`, "<script>'s</script>", "<script>x</script>",
		"<script>x = `s</script>", "<script>x = /r</script>",
		`<script type="application/ld+json">"s</script>`, `<script type="application/ld+json">{"a":1}</script>`,
		"<style>a /* c</style>", `<style>"s</style>`, "<style>'s</style>", "<style>a{}</style>",
		`<a title="x">`, "<a title='x'>", "<a title=x>", `<a href="x?y=1">`, "<a href=x?y=1>", `<a title="x`, `<a href="x`,
		"<textarea>x</textarea>", "<!-- c -->",
	}
	openers := []string{
		`<script>var a = "`, "<script>var a = ", "<script>var a = '", `<style>a{b:"`, "<style>a{b:",
		`<script type="application/ld+json">{"a":"`, `<script type="application/ld+json">{"a":`,
		`<a title="`, "<a title=", `<a href="`, "<a href=", "<a ", "<p>",
	}
	var prefixes []string
	prefixes = append(prefixes, "")
	prefixes = append(prefixes, endings...)
	for _, e1 := range endings {
		for _, e2 := range endings {
			prefixes = append(prefixes, e1+e2)
		}
	}
	var docs docList
	for _, p := range prefixes {
		for _, o := range openers {
			d := listDoc{pre: p + o}
			if p != "" && !strings.Contains(p, `="x`) {
				// every element of the prefix is complete: the opener starts in the
				// HTML data state, as it does alone
				d.alonePre, d.aloneCut, d.elementState = o, 0, true
				d.first, d.second = p, o
			}
			docs = append(docs, d)
		}
	}
	return docs
}

// lookalikeDocs enumerates near-miss end tags and openers inside raw-text
// elements: the look-alike is placed in the text of a script or style element
// (as code, in a string of each kind, in a comment of each kind), and the
// hole comes later IN THE SAME element, in code or in a string. Whether the
// look-alike ends the element is decided by the reference tokenizer; the
// lexer under test must agree. A second family puts comment and CDATA
// look-alikes in HTML content before an element opener.
func lookalikeDocs() docList {
	lookalikes := []string{
		"</scriptx>", "</scripts>", "</scriptlet>", "</script", "</script\n>", "</script/>", "</SCRIPT>", "</ScRiPt >", "</script >",
		"</styles>", "</stylesheet>", "</STYLE>", "</style", "</style\n>", "</style/>", "</StYlE >",
		"</textareas>", "</titles>", "</textarea>", "</title>", "<scriptx>", "<styles>", "<script>", "<style>",
		"--!>", "<!-->", "<!--->", "<!--", "-->", "<![CDATA[", "]]>",
	}
	// The wraps keep the script lexically valid around the look-alike: as code,
	// "x = 1 </scriptx>/ 2;" is 1 < /scriptx>/ 2 (a closed regular expression),
	// "x = 1 </script/> 2;" is 1 < /script/ > 2 and "x = 1 <scriptx> 2;" is a
	// chain of comparisons.
	type wrap struct {
		pre, post string
		oneLine   bool // the wrap cannot hold a look-alike with a newline
	}
	code := func(l string) wrap {
		if strings.Count(l, "/") == 1 {
			return wrap{"x = 1 ", "/ 2; ", false}
		}
		return wrap{"x = 1 ", " 2; ", false}
	}
	scriptWraps := []wrap{{`var s = "`, `"; `, true}, {"var s = '", "'; ", true}, {"var s = `", "`; ", false}, {"// ", "\n", true}, {"/* ", " */ ", false}}
	styleWraps := []wrap{{"", " ", false}, {`a{b:"`, `"} `, true}, {"a{b:'", "'} ", true}, {"/* ", " */ ", false}, {"a{b:url(", ")} ", true}}
	scriptHoles := []string{"var u = ", `var u = "`, "var u = '"}
	styleHoles := []string{"c{d:", `c{d:"`}
	var docs docList
	for _, l := range lookalikes {
		for _, w := range append([]wrap{code(l)}, scriptWraps...) {
			if w.oneLine && strings.Contains(l, "\n") {
				continue
			}
			for _, h := range scriptHoles {
				docs = append(docs, listDoc{pre: "<script>" + w.pre + l + w.post + h})
			}
		}
		for _, w := range styleWraps {
			if w.oneLine && strings.Contains(l, "\n") {
				continue
			}
			for _, h := range styleHoles {
				docs = append(docs, listDoc{pre: "<style>" + w.pre + l + w.post + h})
			}
		}
	}
	// look-alikes in HTML content, then an opener
	dataPrefixes := []string{
		"<!-->", "<!--->", "<!--x--!>", "<!--x--!><p>", "<!-- x --", "<!--x--->", "<!---x-->",
		"<![CDATA[x]]>", "<![CDATA[<p>", "<![CDATA[x]]>x>", "<scriptx>", "<styles>", "<scriptx>x</scriptx>", "</script>", "</style>",
		"<textarea></textareas>", "<title></titles>", "<textarea></TEXTAREA >", "<title></title/>",
	}
	openers := []string{
		`<script>var a = "`, "<script>var a = ", `<style>a{b:"`, "<style>a{b:", `<a title="`, "<a title=", `<a href="`, "<p>",
	}
	for _, d := range dataPrefixes {
		for _, o := range openers {
			docs = append(docs, listDoc{pre: d + o})
		}
	}
	return docs
}

// twoShowsDocs enumerates documents with TWO shows on one line, adjacent or
// separated by a space or by text, in every position of the format. In the
// "hole-first" documents the hole is the first show and the second one shows
// a benign value; in the "hole-second" documents the first show has a fixed
// value that ends (or starts) with a separator and the hole is the second.
func twoShowsDocs(format string) docList {
	type pos struct{ name, pre, post string }
	var positions []pos
	seps := []string{"", " ", "x", " x "}
	if format == "md" {
		positions = []pos{
			{"indented-code-spaces", "    ", "\n"}, {"indented-code-spaces-after-paragraph", "x\n\n    ", "\nx\n"}, {"indented-code-second-line", "    x\n    ", "\n    x\n"},
			{"indented-code-tab", "\t", "\n"}, {"indented-code-tab-second-line", "\tx\n\t", "\n\tx\n"},
			{"fenced-code", "```\n", "\n```\nx\n"}, {"fenced-code-info", "```", "\nx\n```\n"},
			{"paragraph", "", "\n"}, {"paragraph-middle", "x ", " x\nx\n"},
			{"list-item", "- ", "\n- x\n"}, {"ordered-list-item", "1. ", "\n2. x\n"}, {"blockquote", "> ", "\n> x\n"}, {"heading", "# ", "\nx\n"},
			{"link-text", "[", "](/x)\n"}, {"link-destination", "[x](", ")\n"}, {"link-title", "[x](/x \"", "\")\n"},
			{"inline-code", "`", "`\n"}, {"bare-url", "http://x/", "\n"}, {"html-attribute", "<a title=\"", "\">\n"}, {"html-block-text", "<div>\n", "\n</div>\n"},
		}
	} else {
		positions = []pos{
			{"text", "<p>", "</p>"}, {"textarea", "<textarea>", "</textarea>"}, {"comment", "<!-- ", " -->"},
			{"attr-dq", `<a title="`, `">`}, {"attr-sq", "<a title='", "'>"}, {"attr-unquoted", "<a title=", ">"},
			{"url-attr-dq", `<a href="`, `">`}, {"url-attr-unquoted", "<a href=", ">"}, {"url-attr-query", `<a href="/a?b=`, `">`}, {"srcset-dq", `<img srcset="`, `">`},
			{"tag", "<a ", ">"},
			{"script-string-dq", `<script>var a = "`, `";</script>`}, {"script-string-sq", "<script>var a = '", "';</script>"},
			{"script-code", "<script>var a = [", "];</script>"}, {"script-line-comment", "<script>// ", "\nvar a = 1;</script>"},
			{"json-string", `<script type="application/ld+json">{"a":"`, `"}</script>`}, {"json-value", `<script type="application/ld+json">[`, `]</script>`},
			{"style-string", `<style>a{b:"`, `"}</style>`}, {"style-code", "<style>a{b:", "}</style>"},
		}
		seps = []string{"", " ", "x", ", "}
	}
	firsts := []struct{ name, val string }{
		{"benign", "uu"}, {"newline", "u\n"}, {"two-newlines", "u\n\n"}, {"leading-newline", "\nu"}, {"space", "u "}, {"leading-space", " u"}, {"tab", "u\t"},
		{"backslash", "u\\"}, {"dquote", "u\""}, {"squote", "u'"}, {"lt", "u<"}, {"backquote", "u`"},
	}
	var docs docList
	for _, p := range positions {
		for _, sep := range seps {
			docs = append(docs, listDoc{pre: p.pre, post: sep + "{{ u }}" + p.post, twoShows: "hole-first", uVal: "uu", uName: "benign", position: p.name})
			for _, f := range firsts {
				docs = append(docs, listDoc{pre: p.pre + "{{ u }}" + sep, post: p.post, twoShows: "hole-second", uVal: f.val, uName: f.name, position: p.name})
			}
		}
	}
	return docs
}

// Fixed benign values shown by the FIRST attribute of the pair documents.
var wBenign, w2Benign = "ww", "a?b=c"

// attributePairDocs enumerates documents with two attributes: the first one
// shows a fixed benign value (global w or w2), the second one holds the hole;
// each in every shape {double quoted, single quoted, unquoted} x {starts with
// the show, starts with literal text, has a query string before / after the
// show}, in two tags or in the same tag. Renderer state (URL mode, quoting,
// query string) carried from one attribute to the next is visible in the
// rendering of the second one, which must be what it is when it is alone.
func attributePairDocs() docList {
	type shape struct{ name, pre, post string }
	quotes := []shape{{"dq", `"`, `"`}, {"sq", "'", "'"}, {"unq", "", ""}}
	firstContents := []shape{
		{"show", "{{ w }}", ""}, {"text+show", "/a/{{ w }}", ""}, {"query+show", "/a?b={{ w }}", ""}, {"show+query", "{{ w }}?c=d", ""},
		{"show(query)", "{{ w2 }}", ""}, {"text+show(query)", "/a/{{ w2 }}", ""},
	}
	secondContents := []shape{{"show", "", ""}, {"text+show", "/a/", ""}, {"query+show", "/a?b=", ""}, {"show+query", "", "?c=d"}}
	type layout struct {
		open1, name1, between, name2, alone string // alone = opening of the twin document
	}
	var layouts []layout
	for _, n1 := range []string{"href", "title"} {
		for _, n2 := range []string{"src", "srcset", "title"} {
			layouts = append(layouts, layout{"<a ", n1, "><img ", n2, "<img "})
		}
	}
	layouts = append(layouts, layout{"<a ", "href", " ", "title", "<a "}, layout{"<a ", "title", " ", "href", "<a "},
		layout{"<img ", "src", " ", "srcset", "<img "}, layout{"<img ", "srcset", " ", "src", "<img "})
	var docs docList
	for _, l := range layouts {
		for _, q1 := range quotes {
			for _, c1 := range firstContents {
				for _, q2 := range quotes {
					for _, c2 := range secondContents {
						second := l.name2 + "=" + q2.pre + c2.pre
						docs = append(docs, listDoc{
							pre:      l.open1 + l.name1 + "=" + q1.pre + c1.pre + q1.post + l.between + second,
							post:     c2.post + q2.post + ">",
							alonePre: l.alone + second,
							aloneCut: len(l.alone),
							first:    l.name1 + ":" + q1.name + ":" + c1.name,
							second:   l.name2 + ":" + q2.name + ":" + c2.name,
						})
					}
				}
			}
		}
	}
	return docs
}

// ---- built documents ----

// baseline is a benign rendering: the value "zz", possibly with an inert
// punctuation character (a comma) at one or both ends.
type baseline struct {
	val    string
	status string // "" when usable, else the reason the document is skipped
	out    string
	leaves []Leaf
	slot   int
	// GFM view of Markdown documents
	gfmLeaves []Leaf
	gfmSlot   int
}

type variant struct {
	kind     string
	status   string // "" when built, else "build-error"
	tmpl     *scriggo.Template
	set      func(string)
	lexCtx   string // Show.Context of the hole, from the expanded AST
	innerCtx string // contexts of the shows inside macro / imported / rendered files
	format   string
	bases    map[string]*baseline
}

// base returns the baseline of the benign value val.
func (v *variant) base(val string) *baseline {
	if b, ok := v.bases[val]; ok {
		return b
	}
	b := &baseline{val: val}
	v.bases[val] = b
	out, err := run(v, val)
	if err != nil {
		b.status = "benign-run-error"
		return b
	}
	b.out = out
	b.leaves = flatten(v.format, out)
	b.slot, b.status = findSlot(b.leaves)
	if v.format == "md" && b.status == "" {
		b.gfmLeaves = flatten("md-gfm", out)
		b.gfmSlot, _ = findSlot(b.gfmLeaves)
	}
	return b
}

type entry struct {
	files    map[string]string
	variants []*variant
}

func contextName(c ast.Context) string { return strings.ReplaceAll(c.String(), " ", "-") }

// holeContexts reads the lexer's idea of the contexts from the expanded tree.
func holeContexts(tree *ast.Tree) (hole, inner string) {
	var inners []string
	var visit func(n ast.Node, top, inURL bool)
	visit = func(root ast.Node, top, inURL bool) {
		astutil.Inspect(root, func(n ast.Node) bool {
			switch n := n.(type) {
			case *ast.Func:
				if top && n != root {
					visit(n, false, false)
					return false
				}
			case *ast.URL:
				if !inURL {
					for _, c := range n.Value {
						visit(c, top, true)
					}
					return false
				}
			case *ast.Import:
				if n.Tree != nil {
					visit(n.Tree, false, false)
				}
			case *ast.Render:
				if n.Tree != nil {
					visit(n.Tree, false, false)
				}
			case *ast.Show:
				if len(n.Expressions) == 1 {
					if id, ok := n.Expressions[0].(*ast.Identifier); ok && (id.Name == "w" || id.Name == "w2" || id.Name == "u") {
						return true // the fixed benign show of the pair documents
					}
				}
				c := contextName(n.Context)
				if inURL {
					c += "+URL"
				}
				if top {
					if hole == "" {
						hole = c
					}
				} else {
					inners = append(inners, c)
				}
			}
			return true
		})
	}
	visit(tree, true, false)
	return hole, strings.Join(inners, ",")
}

func run(v *variant, val string) (string, error) {
	v.set(val)
	var b strings.Builder
	err := v.tmpl.Run(&b, nil, nil)
	return b.String(), err
}

func findSlot(leaves []Leaf) (int, string) {
	slot := -1
	for i, l := range leaves {
		if strings.Contains(l.Text, benign) {
			if slot >= 0 {
				return -1, "value-in-several-tokens"
			}
			slot = i
		}
	}
	if slot < 0 {
		return -1, "value-in-no-token"
	}
	// JavaScript is not error tolerant: a lexical error before the value makes
	// an engine reject the whole script whatever the value is, so the tokens
	// that an error-tolerant lexer sees after the error have no meaning.
	if strings.HasPrefix(leaves[slot].Kind, "js:") {
		for i := slot - 1; i >= 0 && strings.HasPrefix(leaves[i].Kind, "js:"); i-- {
			if k := leaves[i].Kind; strings.HasSuffix(k, "-unterminated") || k == "js:invalid" {
				return -1, "javascript-invalid-before-value"
			}
		}
	}
	return slot, ""
}

// refClass reduces the reference context of the slot to its class.
func refClass(ctx string) string {
	i := strings.LastIndex(ctx, ":")
	where, tok := ctx[:i+1], ctx[i+1:]
	switch {
	case strings.HasPrefix(tok, "js-string"):
		tok = "js-string"
	case strings.HasPrefix(tok, "js-template"):
		tok = "js-template"
	case strings.HasPrefix(tok, "js-regex"):
		tok = "js-regex"
	case strings.HasPrefix(tok, "js-") && strings.Contains(tok, "comment"):
		tok = "js-comment"
	case strings.HasPrefix(tok, "js-"):
		tok = "js-code"
	case tok == "css-string" || tok == "css-bad-string":
		tok = "css-string"
	case tok == "css-url" || tok == "css-bad-url":
		tok = "css-url"
	case strings.HasPrefix(tok, "css-comment"):
		tok = "css-comment"
	case strings.HasPrefix(tok, "css-"):
		tok = "css-code"
	}
	return where + tok
}

// compatible reports whether the lexer's context of the hole is the one that
// corresponds to the reference context of the slot. If it is not, the defect
// is the context desynchronisation itself, whatever the payload; if it is,
// the defect is in the escaping of that payload.
func compatible(ref, lex string) bool {
	lex = strings.TrimSuffix(lex, "+URL")
	switch {
	case ref == "text" || ref == "rawtext(textarea)" || ref == "rawtext(title)":
		return lex == "HTML"
	case ref == "md-html:text":
		return lex == "Markdown"
	case strings.HasSuffix(ref, "attrval(plain)") || strings.Contains(ref, "attrval(url"):
		return lex == "quoted-attribute" || lex == "unquoted-attribute"
	case strings.HasSuffix(ref, "attrname"):
		return lex == "tag"
	case ref == "script:js-string" || ref == "js-file:js-string":
		return lex == "JavaScript" || lex == "JavaScript-string"
	case ref == "style:css-string" || ref == "css-file:css-string":
		return lex == "CSS" || lex == "CSS-string"
	case ref == "json-string" || ref == "script:json-string":
		return lex == "JSON" || lex == "JSON-string"
	case ref == "md-indented-code":
		return lex == "spaces-code-block" || lex == "tab-code-block"
	case strings.HasPrefix(ref, "md-") && !strings.HasPrefix(ref, "md-html:"):
		return lex == "Markdown"
	}
	return false
}

func buildEntry(f *formatSpec, m *mode, kinds []valueKind, pre, post string, uVal ...string) *entry {
	e := &entry{}
	u := "uu"
	if len(uVal) > 0 {
		u = uVal[0]
	}
	for _, k := range kinds {
		v := &variant{kind: k.name}
		e.variants = append(e.variants, v)
		files := m.files(f.name, pre, post+f.tail, k.expr)
		if e.files == nil {
			e.files = files
		}
		fsys := scriggo.Files{}
		for name, src := range files {
			fsys[name] = []byte(src)
		}
		ptr, set := k.decl()
		v.set = set
		opts := &scriggo.BuildOptions{
			Globals: native.Declarations{"v": ptr, "w": &wBenign, "w2": &w2Benign, "u": &u},
			ExpandedTransformer: func(tree *ast.Tree) error {
				v.lexCtx, v.innerCtx = holeContexts(tree)
				return nil
			},
		}
		t, err := scriggo.BuildTemplate(fsys, "index."+f.name, opts)
		if err != nil {
			v.status = "build-error"
			continue
		}
		v.tmpl = t
		v.format = f.name
		v.bases = map[string]*baseline{}
	}
	return e
}

// ---- per-document results: consecutive cases share the built document ----

// docResult holds the outcome of every payload for one document.
type docResult struct {
	files    map[string]string
	outcomes []kit.Outcome
}

type cacheSlot struct {
	mu  sync.Mutex
	key uint64
	r   *docResult
}

const cacheSlots = 1024

type resultCache [cacheSlots]cacheSlot

// get returns the result of key, computing it if it is not cached. The cache
// only saves work: a result is a pure function of the key.
func (c *resultCache) get(key uint64, compute func() *docResult) *docResult {
	s := &c[key%cacheSlots]
	s.mu.Lock()
	defer s.mu.Unlock()
	if s.r == nil || s.key != key {
		s.r = nil
		s.r = compute()
		s.key = key
	}
	return s.r
}

// ---- evaluation ----

type failure struct {
	kind, form, effect, refCtx, lexCtx, innerCtx, detail string
}

func quoteFiles(files map[string]string) string {
	names := make([]string, 0, len(files))
	for n := range files {
		names = append(names, n)
	}
	sort.Strings(names)
	var b strings.Builder
	for _, n := range names {
		fmt.Fprintf(&b, "  %s: %q\n", n, files[n])
	}
	return b.String()
}

// attack is one value to show: the payload bare or wrapped, with the benign
// value it is compared with.
type attack struct {
	name   string
	val    string
	benign string
}

func isPunct(c byte) bool {
	return c > ' ' && c < 0x7f && !('0' <= c && c <= '9') && !('a' <= c && c <= 'z') && !('A' <= c && c <= 'Z')
}

// attacks returns the values to show for payload pl.
//
// In Markdown the meaning of the template's own delimiters depends on the
// class (alphanumeric, punctuation, white space) of the adjacent characters
// (CommonMark "flanking" rules), so a bare punctuation payload is compared
// with a benign value that has an inert punctuation character, a comma, at
// the same ends (see mdBenign), and white space payloads are only shown
// between two letters.
func (sd *spaceDef) attacks(pl payload) []attack {
	var as []attack
	if pl.edge {
		at := attack{edgeClass(pl.s), pl.s, benign}
		c := pl.s[0]
		if c == 'z' {
			c = pl.s[len(pl.s)-1]
		}
		if sd.f.name == "md" && isPunct(c) {
			at.benign = "" // a punctuation end: chosen by mdBenign
		}
		return []attack{at}
	}
	wrapped := attack{"z+" + pl.name + "+z", "z" + pl.s + "z", benign}
	bare := attack{pl.name, pl.s, benign}
	if sd.f.name == "md" {
		if pl.name == "newline" || pl.name == "space" {
			return []attack{wrapped}
		}
		bare.benign = "" // chosen by mdBenign from the rendered attack value
	}
	as = append(as, bare)
	if sd.wrapAll || pl.name == "newline" || pl.name == "space" || pl.name == "equals" {
		as = append(as, wrapped)
	}
	return as
}

// mdBenign returns the benign value to compare a bare Markdown attack value
// with: "zz" with a comma at the ends where the RENDERED attack value (which
// may be escaped, for example %22 in a URL) starts or ends with ASCII
// punctuation. It returns "" if the rendered value starts or ends with
// anything else than ASCII letters, digits and punctuation (white space, a
// no-break space): no benign value has the same flanking behaviour.
func mdBenign(v *variant, val string) string {
	b0 := v.base(benign)
	if b0.status != "" {
		return ""
	}
	out, err := run(v, val)
	if err != nil {
		return ""
	}
	i := 0
	for i < len(out) && i < len(b0.out) && out[i] == b0.out[i] {
		i++
	}
	j := 0
	for j < len(out)-i && j < len(b0.out)-i && out[len(out)-1-j] == b0.out[len(b0.out)-1-j] {
		j++
	}
	seg := out[i : len(out)-j]
	if seg == "" {
		return ""
	}
	class := func(c byte) int {
		switch {
		case isPunct(c):
			return 1
		case '0' <= c && c <= '9' || 'a' <= c && c <= 'z' || 'A' <= c && c <= 'Z':
			return 0
		}
		return -1
	}
	l, r := class(seg[0]), class(seg[len(seg)-1])
	if l < 0 || r < 0 {
		return ""
	}
	bv := benign
	if l == 1 {
		bv = "," + bv
	}
	if r == 1 {
		bv += ","
	}
	return bv
}

// check runs variant v with the attack value and compares with the benign rendering.
func check(v *variant, b *baseline, at attack, memo map[string]string) (effect string, fail *failure, err error) {
	out, err := run(v, at.val)
	if err != nil {
		return "", nil, err
	}
	memoKey := b.out + "\x00" + out
	if eff, ok := memo[memoKey]; ok && (eff == "" || eff == "vanished") {
		return eff, nil, nil
	}
	leaves := flatten(v.format, out)
	eff, pos := diff(b.leaves, leaves, b.slot)
	view, bl, slot := "", b.leaves, b.slot
	if (eff == "" || eff == "vanished") && b.gfmLeaves != nil && b.gfmSlot >= 0 {
		gl := flatten("md-gfm", out)
		if e2, pos2 := diff(b.gfmLeaves, gl, b.gfmSlot); e2 != "" && e2 != "vanished" {
			eff, pos, leaves, bl, slot, view = e2, pos2, gl, b.gfmLeaves, b.gfmSlot, " parser=gfm"
		}
	}
	memo[memoKey] = eff
	if eff == "" || eff == "vanished" {
		return eff, nil, nil
	}
	if dissolved(bl, leaves, slot) {
		eff = "dissolved:" + eff
	}
	return eff, &failure{
		kind:     v.kind,
		form:     at.name,
		effect:   eff + view,
		refCtx:   bl[slot].Ctx,
		lexCtx:   v.lexCtx,
		innerCtx: v.innerCtx,
		detail: fmt.Sprintf("value type %s: benign value %q, attack value %q\nlexer context of the hole: %s (shows inside macro/partial: %s)\nreference context of the hole: %s\n"+
			"benign output %q\nattack output %q\nbenign tokens: %s\nattack tokens: %s",
			v.kind, at.benign, at.val, v.lexCtx, v.innerCtx, bl[slot].Ctx, b.out, out, dumpLeaves(bl, slot), dumpLeaves(leaves, pos)),
	}, nil
}

type spaceDef struct {
	name  string
	f     *formatSpec
	m     *mode
	kinds []valueKind
	docs  docSource
	// pls is the payload list of the space.
	pls []payload
	// wrapAll: also test "z"+payload+"z" for every payload (else only for the
	// separator payloads newline, space, equals).
	wrapAll bool
}

var cache resultCache

var ballast []byte

func (sd *spaceDef) eval(spaceID int, i uint64) kit.Outcome {
	np := uint64(len(sd.pls))
	doc := i / np
	r := cache.get(uint64(spaceID)<<48|doc, func() *docResult {
		pre, post := sd.docs.at(doc)
		if l, ok := sd.docs.(docList); ok && l[doc].twoShows != "" {
			return sd.evalTwoShows(l[doc])
		}
		e := buildEntry(sd.f, sd.m, sd.kinds, pre, post)
		var direct *entry
		if sd.m.name != "direct" {
			direct = buildEntry(sd.f, &modes[0], valueKinds[:1], pre, post)
		}
		r := &docResult{files: e.files}
		// When the value is not confined in this document even if it is shown
		// directly (for some payload), the document is reported by the
		// direct space; a delivery mode is charged only with documents that
		// are clean when the value is shown directly.
		directFails, directOps := false, 0
		if direct != nil {
			for _, pl := range sd.pls {
				d := sd.evalEntry(direct, pl)
				directOps += d.Ops
				directFails = directFails || !d.OK
			}
		}
		var twin *entry
		var ld listDoc
		if l, ok := sd.docs.(docList); ok && l[doc].alonePre != "" {
			ld = l[doc]
			twin = buildEntry(sd.f, sd.m, sd.kinds, ld.alonePre, post)
		}
		for _, pl := range sd.pls {
			var o kit.Outcome
			if twin != nil && ld.elementState {
				d := kit.Outcome{OK: true}
				sd.differential(e, twin, ld, pl, &d)
				if !d.OK {
					d.Nontrivial = true
					r.outcomes = append(r.outcomes, d)
					continue
				}
				o = sd.evalEntry(e, pl)
				o.Ops += d.Ops
			} else {
				o = sd.evalEntry(e, pl)
				if o.OK && twin != nil {
					sd.differential(e, twin, ld, pl, &o)
				}
			}
			if !o.OK && directFails {
				o = kit.Outcome{OK: true, Nontrivial: true, Ops: o.Ops, Class: "changed-also-when-shown-directly(reported-by-the-direct-space)"}
			}
			o.Ops += directOps / len(sd.pls)
			r.outcomes = append(r.outcomes, o)
		}
		return r
	})
	return r.outcomes[i%np]
}

// evalTwoShows evaluates a document with two shows.
//
// hole-first: the usual structure oracle; the keys get "two-shows hole=first".
//
// hole-second: the first show has the fixed value ld.uVal. (1) What follows
// the first value must render as it does when the first value is benign: the
// second hole's rendering must not depend on what the first value ended with.
// (2) The usual structure oracle for the hole; a failure is charged to the
// first value's ending only if the same document with a benign first value
// is clean for the payload.
func (sd *spaceDef) evalTwoShows(ld listDoc) *docResult {
	e := buildEntry(sd.f, sd.m, sd.kinds, ld.pre, ld.post, ld.uVal)
	r := &docResult{files: e.files}
	// the same document with the other show replaced by the text it renders
	// when benign: what fails there too is not a matter of two shows and is
	// reported under the plain key
	single := buildEntry(sd.f, sd.m, sd.kinds, strings.ReplaceAll(ld.pre, "{{ u }}", "uu"), strings.ReplaceAll(ld.post, "{{ u }}", "uu"))
	var ref *entry
	suffix := " two-shows hole=first"
	if ld.twoShows == "hole-second" {
		suffix = " two-shows first-value=" + edgeClass(ld.uVal)
		if ld.uVal != "uu" {
			ref = buildEntry(sd.f, sd.m, sd.kinds, ld.pre, ld.post, "uu")
			// When the first value alone already changes the structure of the
			// document (the hole showing the benign value), the document is
			// another one and says nothing about the second show: that change is
			// reported by the hole-first documents.
			if v, t := e.variants[0], ref.variants[0]; v.status == "" && t.status == "" {
				bu, bf := t.base(benign), v.base(benign)
				if bu.status == "" && bf.status == "" {
					slotU := -1
					for i, l := range bu.leaves {
						if strings.Contains(l.Text, "uu") {
							slotU = i
						}
					}
					if eff, _ := diff(bu.leaves, bf.leaves, slotU); slotU >= 0 && eff != "" && eff != "vanished" {
						for range sd.pls {
							r.outcomes = append(r.outcomes, kit.Outcome{OK: true, Nontrivial: true, Ops: 2, Class: "first-value-already-changes-the-structure(reported-by-the-hole-first-documents)"})
						}
						return r
					}
				}
			}
		}
	}
	for _, pl := range sd.pls {
		if ref != nil {
			if d := sd.afterFirstValue(e, ref, ld, pl); d != nil {
				d.Key += suffix
				r.outcomes = append(r.outcomes, *d)
				continue
			}
		}
		o := sd.evalEntry(e, pl)
		if !o.OK {
			ops := o.Ops
			if ref != nil {
				if b := sd.evalEntry(ref, pl); !b.OK {
					o = kit.Outcome{OK: true, Nontrivial: true, Class: "changed-also-when-the-first-value-is-benign(reported-there)"}
				}
			}
			if !o.OK {
				if b := sd.evalEntry(single, pl); !b.OK {
					if !pl.edge {
						// bare and wrapped payloads in single-show documents are the
						// business of the other spaces
						o = kit.Outcome{OK: true, Nontrivial: true, Class: "changed-also-with-a-single-show(not-a-matter-of-two-shows)"}
					} else {
						o = b // reported under the plain key
						o.Detail = "(the same happens in the two-shows document " + quoteFiles(e.files) + ")\n" + o.Detail
					}
				} else {
					o.Key += suffix
					o.Detail = fmt.Sprintf("position %s, other show {{ u }} = %q; the document with the text uu in place of {{ u }} is clean\n%s", ld.position, ld.uVal, o.Detail)
				}
			}
			o.Ops += ops + 2
		}
		r.outcomes = append(r.outcomes, o)
	}
	return r
}

// afterFirstValue checks that everything after the rendering of the first
// value is the same as when the first value is benign.
func (sd *spaceDef) afterFirstValue(e, ref *entry, ld listDoc, pl payload) *kit.Outcome {
	v, t := e.variants[0], ref.variants[0]
	if v.status != "" || t.status != "" {
		return nil
	}
	vals := []string{benign}
	for _, at := range sd.attacks(pl) {
		vals = append(vals, at.val)
	}
	for _, val := range vals {
		out, err1 := run(v, val)
		base, err2 := run(t, val)
		if err1 != nil || err2 != nil {
			continue
		}
		k := strings.LastIndex(base, "uu")
		if k < 0 {
			continue
		}
		if rest := base[k+2:]; !strings.HasSuffix(out, rest) {
			what := "payload=" + pl.name
			if val == benign {
				what = "benign-value"
			}
			return &kit.Outcome{Nontrivial: true, Ops: 2, Class: "SECOND-SHOW-DEPENDS-ON-FIRST",
				Key: fmt.Sprintf("fmt=%s mode=direct second show renders differently after a first value with this ending than after a benign one lexer-ctx=%s %s", sd.f.name, v.lexCtx, what),
				Detail: fmt.Sprintf("files:\n%sfirst show {{ u }} = %q, hole value %q\nrendering                 %q\nwith the first value \"uu\" %q\n(what follows \"uu\" must be a suffix of the rendering)",
					quoteFiles(e.files), ld.uVal, val, out, base)}
		}
	}
	return nil
}

// differential checks that the hole renders in the pair document exactly as
// it does in the twin document that has only the second attribute.
func (sd *spaceDef) differential(e, twin *entry, ld listDoc, pl payload, o *kit.Outcome) {
	v, t := e.variants[0], twin.variants[0]
	if v.status != "" || t.status != "" {
		return
	}
	vals := []string{benign}
	for _, at := range sd.attacks(pl) {
		vals = append(vals, at.val)
	}
	for _, val := range vals {
		out, err1 := run(v, val)
		alone, err2 := run(t, val)
		o.Ops += 2
		if err1 != nil || err2 != nil {
			if (err1 == nil) != (err2 == nil) {
				o.OK = false
				o.Class = "PAIR-DIFFERS"
				o.Key = "fmt=html mode=direct attribute-pair: run error only with or only without the first attribute"
				if ld.elementState {
					o.Key = "fmt=html mode=direct element-end-state: run error only with or only without the preceding elements"
				}
				o.Detail = fmt.Sprintf("files:\n%svalue %q\nwith first attribute: %v\nalone (%q): %v", quoteFiles(e.files), val, err1, ld.alonePre, err2)
				return
			}
			continue
		}
		if len(alone) < ld.aloneCut || !strings.HasSuffix(out, alone[ld.aloneCut:]) {
			what := "payload=" + pl.name
			if val == benign {
				what = "benign-value"
			}
			o.OK = false
			o.Class = "PAIR-DIFFERS"
			quote := func(shape string) string { return strings.Split(shape, ":")[1] }
			if !ld.elementState {
				o.Key = fmt.Sprintf("fmt=html mode=direct attribute-pair: second attribute renders differently than alone first-quoting=%s second-quoting=%s %s", quote(ld.first), quote(ld.second), what)
			} else {
				o.Key = fmt.Sprintf("fmt=html mode=direct element-end-state: hole renders differently after completed elements than alone opener=%q %s", ld.second, what)
			}
			o.Detail = fmt.Sprintf("first attribute %s, second attribute %s\nfiles:\n%svalue %q (w=%q, w2=%q)\nrendering          %q\nsecond alone (%s) %q", ld.first, ld.second, quoteFiles(e.files), val, wBenign, w2Benign, out, ld.alonePre+"{{ v }}", alone)
			return
		}
	}
}

func (sd *spaceDef) evalEntry(e *entry, pl payload) kit.Outcome {
	o := kit.Outcome{OK: true}
	attacks := sd.attacks(pl)
	usable := 0
	var fails []*failure
	failedKinds := []string{}
	var refCtx, skip string
	vanished := false
	memo := map[string]string{}
	for _, v := range e.variants {
		if v.status != "" {
			if skip == "" {
				skip = v.status
			}
			continue
		}
		used := false
		var vfail *failure
		for _, at := range attacks {
			if at.benign == "" {
				if at.benign = mdBenign(v, at.val); at.benign == "" {
					continue
				}
			}
			b := v.base(at.benign)
			if b.status != "" {
				if skip == "" {
					skip = b.status
				}
				continue
			}
			used = true
			if refCtx == "" {
				refCtx = b.leaves[b.slot].Ctx
			}
			o.Ops++
			eff, fl, err := check(v, b, at, memo)
			if err != nil {
				// a run-time error is not a structure change; it is reported as a class
				o.Class = "payload-run-error"
				continue
			}
			if eff == "vanished" {
				vanished = true
			}
			if fl != nil {
				// prefer a failure that adds markup to one that only loses it
				if vfail == nil || strings.HasPrefix(vfail.effect, "dissolved:") && !strings.HasPrefix(fl.effect, "dissolved:") {
					vfail = fl
				}
				if !strings.HasPrefix(fl.effect, "dissolved:") {
					break
				}
			}
		}
		if vfail != nil {
			fails = append(fails, vfail)
			failedKinds = append(failedKinds, v.kind)
		}
		if used {
			usable++
		}
	}
	if usable == 0 {
		o.Class = "skipped:" + skip
		return o
	}
	o.Nontrivial = true
	if len(fails) == 0 {
		if o.Class == "" {
			o.Class = "preserved:" + refClass(refCtx)
			if vanished {
				o.Class = "preserved(value-produced-no-token):" + refClass(refCtx)
			}
		}
		return o
	}
	fl := fails[0]
	rc := refClass(fl.refCtx)
	o.OK = false
	o.Class = "STRUCTURE-CHANGED"
	if sd.m.name == "direct" {
		what := "payload=" + fl.form
		if strings.HasPrefix(fl.effect, "dissolved:") {
			// the attack value only invalidates the template's markup around
			// it, which becomes plain text: no markup is added
			what = "value-dissolves-markup-into-text"
		} else if !compatible(rc, fl.lexCtx) {
			// the lexer's context is not the reference context: that is the
			// defect, whatever the payload
			what = "context-desync"
		}
		o.Key = fmt.Sprintf("fmt=%s mode=direct ref-ctx=%s lexer-ctx=%s %s", sd.f.name, rc, fl.lexCtx, what)
	} else {
		// the value is confined when shown directly in this document but not
		// when it arrives through this delivery mode
		o.Key = fmt.Sprintf("fmt=%s mode=%s lexer-ctx=%s inner-ctx=%s not-confined(confined-when-shown-directly)", sd.f.name, sd.m.name, fl.lexCtx, fl.innerCtx)
	}
	if e.variants[0].kind == "string" && failedKinds[0] != "string" {
		// the plain string is confined but other value types are not
		o.Key += " types=" + strings.Join(failedKinds, ",")
	}
	o.Detail = "files:\n" + quoteFiles(e.files) + "payload " + fl.form + ", effect " + fl.effect + ", failing value types: " + strings.Join(failedKinds, ",") + "\n" + fl.detail
	return o
}

func (sd *spaceDef) describe(i uint64) any {
	np := uint64(len(sd.pls))
	pre, post := sd.docs.at(i / np)
	d := map[string]any{
		"format":  sd.f.name,
		"mode":    sd.m.name,
		"files":   sd.m.files(sd.f.name, pre, post+sd.f.tail, "v"),
		"payload": sd.pls[i%np].s,
	}
	if l, ok := sd.docs.(docList); ok && l[i/np].twoShows != "" {
		d["u"] = l[i/np].uVal
	}
	return d
}

func spaces(tier string) []kit.Space {
	var defs []*spaceDef
	for fi := range formats {
		f := &formats[fi]
		b := f.bounds[tier]
		wrap := tier == "thorough"
		// every document over the fine alphabet, value of type string shown directly
		// (the 3 million HTML documents of the thorough tier wrap only the separator payloads)
		defs = append(defs, &spaceDef{name: f.name + "/direct/string", f: f, m: &modes[0], kinds: valueKinds[:1], docs: newDocEnum(f.atoms, b.direct), wrapAll: wrap && f.name != "html"})
		// every value type over the coarse alphabet
		defs = append(defs, &spaceDef{name: f.name + "/direct/types", f: f, m: &modes[0], kinds: valueKinds, docs: newDocEnum(f.coarse, b.coarse), wrapAll: wrap})
		for mi := 1; mi < len(modes); mi++ {
			m := &modes[mi]
			defs = append(defs, &spaceDef{name: f.name + "/" + m.name + "/coarse", f: f, m: m, kinds: valueKinds[:1], docs: newDocEnum(f.coarse, b.coarse), wrapAll: wrap})
			if b.modesFine > 0 {
				defs = append(defs, &spaceDef{name: f.name + "/" + m.name + "/fine", f: f, m: m, kinds: valueKinds[:1], docs: newDocEnum(f.atoms, b.modesFine), wrapAll: wrap})
			}
		}
	}
	html := &formats[0]
	wrap := tier == "thorough"
	defs = append(defs,
		&spaceDef{name: "html/direct/element-end-states", f: html, m: &modes[0], kinds: valueKinds[:1], docs: elementStateDocs(), wrapAll: wrap},
		&spaceDef{name: "html/direct/attribute-pairs", f: html, m: &modes[0], kinds: valueKinds[:1], docs: attributePairDocs(), wrapAll: wrap})
	md := &formats[4]
	twoPls := append(append([]payload{}, payloads...), edgePayloads...)
	defs = append(defs,
		&spaceDef{name: "html/direct/raw-text-lookalikes", f: html, m: &modes[0], kinds: valueKinds[:1], docs: lookalikeDocs(), wrapAll: wrap},
		&spaceDef{name: "md/direct/raw-text-lookalikes", f: md, m: &modes[0], kinds: valueKinds[:1], docs: lookalikeDocs(), wrapAll: wrap},
		&spaceDef{name: "html/direct/two-shows", f: html, m: &modes[0], kinds: valueKinds[:1], docs: twoShowsDocs("html"), pls: twoPls, wrapAll: wrap},
		&spaceDef{name: "md/direct/two-shows", f: md, m: &modes[0], kinds: valueKinds[:1], docs: twoShowsDocs("md"), pls: twoPls, wrapAll: wrap})
	var out []kit.Space
	for id, sd := range defs {
		id, sd := id, sd
		if sd.pls == nil {
			sd.pls = payloads
		}
		out = append(out, kit.Space{
			Name:     sd.name,
			Size:     sd.docs.size() * uint64(len(sd.pls)),
			Eval:     func(i uint64) kit.Outcome { return sd.eval(id, i) },
			Describe: sd.describe,
		})
	}
	out = append(out, typedSpace(), callSpace())
	return out
}

func main() {
	// Every Template.Run allocates a 28 KB register file, so the collector
	// would run every few hundred renders with the tiny live heap of this
	// check. A never-touched (hence never resident, never scanned) ballast
	// makes the heap goal ~256 MB instead (larger heaps were slower: cold memory).
	ballast = make([]byte, 128<<20)
	kit.Main(&kit.Check{
		ID:    "C06",
		Level: "model_checking",
		Rule: "case = (document, payload): documents are ALL atom sequences up to the tier's length over the format's alphabet with one hole at every gap, followed by a fixed closing tail. " +
			"Per file format (html, js, css, json, md): <fmt>/direct/string = fine alphabet (the 28 atoms of DESIGN for HTML; up to 3 atoms quick, 4 thorough), value of type string shown directly; " +
			"<fmt>/direct/types = coarse alphabet (atoms such as `title=\"`, `<script type=...>`, `\"\\\\\"` that reach every lexer context in two atoms) with a string, a Stringer, an error, a []string element and a whole []string / map (value and key) / struct; " +
			"<fmt>/<mode>/coarse|fine = the value reached through a macro, an imported macro, a rendered partial of the same format and a rendered .txt partial (a mode is charged only with documents that are clean when the value is shown directly). " +
			"html/direct/element-end-states = (up to two elements or attributes ending in every lexer state: inside // or /* comments, strings, template/regex literals, URLs, unterminated quotes) x (13 atoms that open a script/style/JSON/attribute up to a value position) x hole; " +
			"html/direct/attribute-pairs = two attributes, the first showing a fixed benign global (w, or w2 with a query string), the second holding the hole, each in {double, single, un}quoted x {show, text+show, query+show, show+query}, in two tags or one, " +
			"with the extra differential oracle that the second attribute renders exactly as in the document that has only it. " +
			"html|md/direct/raw-text-lookalikes = 31 near-miss end tags and openers (</scriptx>, </script with no >, </script\\n>, </script/>, </SCRIPT>, </ScRiPt >, </styles>, </textareas>, <scriptx>, --!>, <!-->, <![CDATA[, ...) placed in script and style text as code, in a string of each kind, in a comment of each kind, in url(), " +
			"then the hole LATER IN THE SAME ELEMENT in code or in a string; plus comment/CDATA/RCDATA look-alikes in HTML content before an element opener; whether the look-alike ends the element is decided by the reference tokenizer. " +
			"html|md/direct/two-shows = two shows on one line ({{ v }}{{ u }}, separated by nothing, a space, text) in every position (Markdown: indented code by spaces and by tab, first and later lines, fenced code and its info string, paragraph, list items, blockquote, heading, link text/destination/title, inline code, bare URL, HTML attribute and block; " +
			"HTML: text, textarea, comment, attributes of each quoting, URL/srcset attributes, tag, script string/code/comment, JSON, style string/code); the hole is the first show (the second shows a benign value) or the second (the first shows one of 12 fixed values ending or starting with newline(s), space, tab, backslash, quote, <, backquote); " +
			"payloads there also include values with a separator at ONE end (z\\n, \\nz, z\\n\\n, ' z', 'z ', z\\t, z\\, z\", z', z<, z`); extra oracle: what follows the first value renders as it does after a benign first value. " +
			"A failure that also happens with the other show replaced by text is reported under the plain key, otherwise under the key + ' two-shows ...'. " +
			"typed-body-after-block = bodies lexed in the context of a declared result type in a file of ANOTHER format: result type {css, js, json, html, markdown} x host file {html, md} x form of the show in the body (code, strings of each quoting, attributes, ...) x nested block statement " +
			"{none, raw, raw with marker, if, if-else, for, for-range, switch, select, show-using of the same type, show-using of another type, nested macro of another type, if(raw), for(if), if(show-using)} x delivery {macro with the value as parameter, macro showing the global, show-using body} x show {before, inside, after the block, after two blocks} x payload; " +
			"oracle: the show has the same lexer context and the document renders exactly as <host text> + (the body with the blocks replaced by what they render, as a file of the result type's format) + <host text>. " +
			"two-result-call-shows = {{ f(a) }} with f a native function returning (string|html|int|any|Stringer|[]string, error) x 46 places of html, css, js, json, md and txt files x {direct, in a macro, in an if block, two such shows in a row} x payload; oracle: renders exactly as the same document showing a variable of that type with that value. " +
			"Each document is built once per value type and run with the benign value and with the payload (bare, and as z+payload+z for the separators newline/space/equals; for every payload in the thorough tier except html/direct/string). " +
			"Non-trivial = the template builds and the benign rendering holds the value in exactly one reference token (and, in JavaScript, no lexical error precedes it), so the payload rendering is really compared token by token; the other cases are classes skipped:*",
		Assumptions: []string{
			"reference tokenizers: x/net/html (WHATWG tokenisation; script/style content by type attribute), verif/oracle/jslex (ECMAScript lexical grammar + Annex B HTML-like comments; regex vs division decided by the previous token), verif/oracle/csstok (CSS Syntax L3 §4), encoding/json Decoder.Token, goldmark CommonMark (then GFM)",
			"the oracle is relational: token kinds must be equal and token texts equal except in the token that holds the value; a value that produces no token at all (e.g. a lone space as attribute name) is accepted",
			"what the value decodes to inside its token is C07's business, not checked here; URL schemes (javascript:) inside an attribute value are inside the slot and so accepted",
			"the self-closing flag of a start tag and the hard/soft kind of a Markdown line break are not part of the compared structure (x/net/html and goldmark deviate from their specifications there)",
			"Markdown: a bare punctuation payload is compared with a benign value that has an inert comma at the same ends, and white space payloads are shown only between two letters, because CommonMark delimiter flanking depends on the class of the adjacent characters whatever the escaping",
			"JavaScript is not error tolerant: documents whose benign rendering has a lexical error (unterminated string / regex) before the value are skipped",
			"failures where the attack value only turns the template's markup around it into plain text are keyed value-dissolves-markup-into-text",
			"trusted types (native.HTML, CSS, JS, JSON, Markdown) are exempt by definition and are not used as attacker values",
			"the global v is bound with a pointer in BuildOptions.Globals and set before every run (values passed to Run are not seen inside macros on this tree: C17)",
		},
		Spaces: spaces,
	})
}
