#!/bin/bash
# usage: checks/c29/run.sh [quick|thorough] [--replay path]
# C29's code under test is in package main of /repo/cmd/scriggo: the driver is a
# _test.go file kept here and ADDED to that package by `go test -overlay`
# (nothing under /repo is touched). The driver writes a JSON report that
# checks/c29/main.go turns into evidence/C29.json, VIOLATION lines and the exit code.
set -u
cd /verif
. bin/env.sh
tier=quick
replay=""
while [ $# -gt 0 ]; do
  case "$1" in
    quick|thorough) tier="$1"; shift;;
    --replay) replay="$2"; shift 2;;
    *) shift;;
  esac
done
mkdir -p .build
if ! go build -tags verif -o .build/C29 ./checks/c29 2>.build/C29.buildlog; then
  cat .build/C29.buildlog >&2
  echo "HARNESS-ERROR: build of C29's reporter failed" >&2
  exit 2
fi
work=$(mktemp -d /var/tmp/verif-c29-XXXXXX)
trap 'rm -rf "$work"' EXIT
cat > "$work/overlay.json" <<JSON
{"Replace": {"/repo/cmd/scriggo/verif_c29_test.go": "/verif/checks/c29/verif_c29_test.go.txt"}}
JSON
export VERIF_C29_OUT="$work/report.json"
export VERIF_TIER="$tier"
if [ -n "$replay" ]; then
  export VERIF_C29_REPLAY="$(/verif/.build/C29 --replay-target "$replay")" || exit 2
fi
start=$(date +%s.%N)
if ! (cd /repo && go test -overlay "$work/overlay.json" -vet=off -run 'TestVerifC29$' -count=1 -timeout 30m github.com/open2b/scriggo/cmd/scriggo) >"$work/gotest.log" 2>&1; then
  cat "$work/gotest.log" >&2
  echo "HARNESS-ERROR: go test of the C29 driver failed" >&2
  exit 2
fi
if [ ! -s "$work/report.json" ]; then
  cat "$work/gotest.log" >&2
  echo "HARNESS-ERROR: the C29 driver wrote no report" >&2
  exit 2
fi
if [ -n "$replay" ]; then
  exec /verif/.build/C29 --report "$work/report.json" --start "$start" --replay "$replay" "$tier"
fi
exec /verif/.build/C29 --report "$work/report.json" --start "$start" "$tier"
