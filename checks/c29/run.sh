#!/bin/bash
# usage: checks/c29/run.sh [quick|thorough] [--replay path] [--build-only]
# C29's code under test is in package main of /repo/cmd/scriggo: the driver is a
# _test.go file kept here and ADDED to that package by `go test -overlay`
# (nothing under /repo is touched). The driver writes a JSON report that
# checks/c29/main.go turns into evidence/C29.json, VIOLATION lines and the exit code.
# --build-only: compile the reporter and the test binary, run nothing.
set -u
cd /verif
. bin/env.sh
tier=quick
replay=""
buildonly=0
while [ $# -gt 0 ]; do
  case "$1" in
    quick|thorough) tier="$1"; shift;;
    --replay) replay="${2:-}"; shift; [ $# -gt 0 ] && shift;;
    --build-only) buildonly=1; shift;;
    *) shift;;  # unknown arguments are ignored
  esac
done
mkdir -p .build
if ! go build -tags verif -o .build/C29 ./checks/c29 2>.build/C29.buildlog; then
  cat .build/C29.buildlog >&2
  echo "HARNESS-ERROR: build of C29's reporter failed" >&2
  exit 2
fi
cat > .build/C29.overlay.json <<JSON
{"Replace": {"/repo/cmd/scriggo/verif_c29_test.go": "/verif/checks/c29/verif_c29_test.go.txt"}}
JSON
if [ -n "${VERIF_OVERLAY:-}" ]; then
  # bin/mutate (overlay mode): merge its overlay with ours, an explicit -overlay flag would hide GOFLAGS' one
  python3 -c "import json,sys;a=json.load(open('.build/C29.overlay.json'));b=json.load(open(sys.argv[1]));a['Replace'].update(b['Replace']);json.dump(a,open('.build/C29.overlay.json','w'))" "$VERIF_OVERLAY" || exit 2
  export GOFLAGS=-mod=mod
fi
# the test binary of cmd/scriggo with the driver added (rebuilt from /repo's current tree)
if ! (cd /repo && go test -c -overlay /verif/.build/C29.overlay.json -vet=off -o /verif/.build/C29.test github.com/open2b/scriggo/cmd/scriggo) >.build/C29.testbuildlog 2>&1; then
  cat .build/C29.testbuildlog >&2
  echo "HARNESS-ERROR: build of the C29 driver (go test -c -overlay) against /repo's working tree failed" >&2
  exit 2
fi
if [ "$buildonly" = 1 ]; then
  exit 0
fi
work=$(mktemp -d /var/tmp/verif-c29-XXXXXX)
trap 'rm -rf "$work"' EXIT
export VERIF_C29_OUT="$work/report.json"
export VERIF_TIER="$tier"
if [ -n "$replay" ]; then
  VERIF_C29_REPLAY="$(/verif/.build/C29 --replay-target "$replay")" || exit 2
  export VERIF_C29_REPLAY
fi
start=$(date +%s.%N)
if ! (cd /repo/cmd/scriggo && /verif/.build/C29.test -test.run 'TestVerifC29$' -test.count=1 -test.timeout 30m) >"$work/gotest.log" 2>&1; then
  cat "$work/gotest.log" >&2
  echo "HARNESS-ERROR: the C29 driver (go test) failed" >&2
  exit 2
fi
if [ ! -s "$work/report.json" ]; then
  cat "$work/gotest.log" >&2
  echo "HARNESS-ERROR: the C29 driver wrote no report" >&2
  exit 2
fi
if [ -n "$replay" ]; then
  /verif/.build/C29 --report "$work/report.json" --start "$start" --replay "$replay" "$tier"
  exit $?
fi
/verif/.build/C29 --report "$work/report.json" --start "$start" "$tier"
exit $?
