// C29 — Rewriting Markdown link destinations changes only link destinations.
//
// The enumeration runs inside package main of /repo/cmd/scriggo (see run.sh and
// verif_c29_test.go.txt); this program turns its JSON report into the evidence
// file, the VIOLATION lines, the replay files and the exit status through kit.
package main

import (
	"encoding/json"
	"flag"
	"fmt"
	"os"
	"strconv"
	"time"

	"verif/kit"
)

type report struct {
	Tier        string            `json:"tier"`
	Evaluations uint64            `json:"evaluations"`
	Nontrivial  uint64            `json:"nontrivial"`
	Classes     map[string]uint64 `json:"classes"`
	Spaces      []map[string]any  `json:"spaces"`
	Failures    []kit.Failure     `json:"failures"`
	KeyCounts   map[string]int    `json:"key_counts"`
	Harness     []string          `json:"harness_errors"`
	Samples     []any             `json:"samples"`
	WallS       float64           `json:"wall_s"`
	Workers     int               `json:"workers"`
}

const rule = "every sequence of up to 4 (quick) / 5 (thorough) of 22 Markdown atoms ([a], (b), (b.html), (/c), (<d e>), (http://h/x), (#f), (?q), backquote, a fence line, 4-space indent, <div>, </div>, <!--, -->, newline, blank line, a reference definition, backslash, !, *, x), under two base/dir configurations; every sequence of up to 5 / 6 of 11 fence atoms (``` ```` ``` s ~~~ ~~~~ ~~~ s lines, a line holding a link, a text line, a blank line, a 4-space indent, a backquote); every sequence of up to 3 / 4 pages out of 32 (8 documents x 4 directories) sent through ONE replacer whose dir is set before each page as build() does, each output compared with a fresh replacer's; and every string up to 5 / 6 characters over {U+00A0, space, ( ) < > \\ % a é} for escape∘unescape. " +
	"Non-trivial = the replacer changed the document or goldmark sees a link or image in it (escape space: the string holds a backslash or U+00A0); each index is a distinct document"

var assumptions = []string{
	"reference for what is a link: goldmark v1.7.16 with CommonMark defaults; the trees of input and output are compared node by node (kinds, text, code, raw HTML, titles), destinations apart",
	"expected resolution = the rule of linkDestinationReplacer's doc comment and unit tests written again in the driver (absolute URLs and query/fragment-only destinations stay; //host gets the base scheme; other paths are joined to base[/dir], trailing slash kept, no extension or .html becomes .md)",
	"byte alignment uses markdownURLEscape for the replacement text; its own contract is checked in the escape-unescape space",
	"a relative link that goldmark sees but the replacer leaves alone is counted (outcome class) but is not a failure: the statement only constrains what is rewritten",
	"the driver is compiled into package main of cmd/scriggo through go test -overlay; /repo is not modified",
}

func main() {
	rep := flag.String("report", "", "JSON report of the driver")
	startS := flag.String("start", "", "start time (unix seconds)")
	replay := flag.String("replay", "", "replay file being replayed")
	target := flag.String("replay-target", "", "print space|index of a replay file")
	flag.Parse()
	if *target != "" {
		b, err := os.ReadFile(*target)
		if err != nil {
			fmt.Fprintln(os.Stderr, err)
			os.Exit(2)
		}
		var rp struct {
			Space string `json:"space"`
			Index uint64 `json:"index"`
		}
		if err := json.Unmarshal(b, &rp); err != nil || rp.Space == "" {
			fmt.Fprintln(os.Stderr, "bad replay file", err)
			os.Exit(2)
		}
		fmt.Printf("%s|%d", rp.Space, rp.Index)
		return
	}
	tier := kit.Tier(flag.Args())
	b, err := os.ReadFile(*rep)
	if err != nil {
		fmt.Fprintln(os.Stderr, "HARNESS-ERROR:", err)
		os.Exit(2)
	}
	var r report
	if err := json.Unmarshal(b, &r); err != nil {
		fmt.Fprintln(os.Stderr, "HARNESS-ERROR: report:", err)
		os.Exit(2)
	}
	start := time.Now()
	if f, err := strconv.ParseFloat(*startS, 64); err == nil {
		start = time.Unix(0, int64(f*1e9))
	}
	if *replay != "" {
		for _, s := range r.Samples {
			w, _ := json.Marshal(s)
			fmt.Printf("case: %s\n", w)
		}
		for _, h := range r.Harness {
			fmt.Println("HARNESS-ERROR:", h)
		}
		if len(r.Harness) > 0 {
			os.Exit(2)
		}
		if len(r.Failures) == 0 {
			fmt.Println("replay: case passes")
			return
		}
		f := r.Failures[0]
		fmt.Printf("replay: case fails key=%s\n%s\n", f.Key, f.Detail)
		fmt.Printf("VIOLATION property=C29 replay=%s\n", *replay)
		os.Exit(1)
	}
	exhaustive := true
	for _, s := range r.Spaces {
		if s["done"] != s["size"] {
			exhaustive = false
		}
	}
	cov := map[string]any{
		"evaluations":                   r.Evaluations,
		"distinct_nontrivial":           r.Nontrivial,
		"rule":                          rule,
		"samples":                       r.Samples,
		"states":                        r.Nontrivial,
		"transitions":                   r.Evaluations,
		"traces_validated_against_impl": r.Evaluations,
		"exhaustive":                    exhaustive,
		"cap_hit":                       false,
		"outcome_classes":               r.Classes,
		"spaces":                        r.Spaces,
		"workers":                       r.Workers,
		"isolated_workers":              false,
		"driver_wall_s":                 r.WallS,
		"failing_cases_by_key":          r.KeyCounts,
	}
	os.Exit(kit.Finish("C29", "model_checking", tier, cov, assumptions, r.Failures, r.Harness, start))
}
