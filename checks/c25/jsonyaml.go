package main

import (
	"bytes"
	"encoding/json"
	"errors"
	"fmt"
	"math"
	"reflect"
	"runtime"
	"strings"
	"time"
	"unsafe"

	"verif/kit"

	"github.com/open2b/scriggo/builtin"
	"github.com/open2b/scriggo/native"

	"gopkg.in/yaml.v3"
)

type failingMarshaler struct{}

func (failingMarshaler) MarshalJSON() ([]byte, error) { return nil, errors.New("boom") }
func (failingMarshaler) MarshalYAML() (any, error)    { return nil, errors.New("boom") }

type cyc struct{ Next *cyc }

type namedValue struct {
	name     string
	make     func() any
	jsonOnly bool // cyclic values would overflow the stack in yaml.Marshal
}

var marshalValues = []namedValue{
	{"nil", func() any { return nil }, false},
	{"true", func() any { return true }, false},
	{"1", func() any { return 1 }, false},
	{"-1.5", func() any { return -1.5 }, false},
	{"NaN", func() any { return math.NaN() }, false},
	{"+Inf", func() any { return math.Inf(1) }, false},
	{`"a"`, func() any { return "a" }, false},
	{`"\xff<&\u2028"`, func() any { return "\xff<&\u2028" }, false},
	{`""`, func() any { return "" }, false},
	{"[]int{1,2}", func() any { return []int{1, 2} }, false},
	{"[]int(nil)", func() any { return []int(nil) }, false},
	{"[]any{}", func() any { return []any{} }, false},
	{`[]any{1,"a",nil,[]any{true}}`, func() any { return []any{1, "a", nil, []any{true}} }, false},
	{`map[string]any{"b":1,"a":[]int{2}}`, func() any { return map[string]any{"b": 1, "a": []int{2}} }, false},
	{"map[string]int(nil)", func() any { return map[string]int(nil) }, false},
	{`map[int]string{2:"x",1:"y"}`, func() any { return map[int]string{2: "x", 1: "y"} }, false},
	{"map[float64]int{1.5:1}", func() any { return map[float64]int{1.5: 1} }, false},
	{"map[any]any{1:\"a\"}", func() any { return map[any]any{1: "a"} }, false},
	{"chan int", func() any { return make(chan int) }, false},
	{"func()", func() any { return func() {} }, false},
	{"complex(1,2)", func() any { return complex(1, 2) }, false},
	{"struct{A int; b int; C string `json:\"c,omitempty\"`}", func() any {
		return struct {
			A int
			b int
			C string `json:"c,omitempty" yaml:"c,omitempty"`
		}{1, 2, ""}
	}, false},
	{"&struct{A []int}", func() any { return &struct{ A []int }{[]int{1}} }, false},
	{"(*int)(nil)", func() any { return (*int)(nil) }, false},
	{"cyclic *struct", func() any { n := &cyc{}; n.Next = n; return n }, true},
	{"cyclic map", func() any { m := map[string]any{}; m["a"] = m; return m }, true},
	{`json.RawMessage("{")`, func() any { return json.RawMessage("{") }, false},
	{`json.RawMessage({"a":1})`, func() any { return json.RawMessage(`{"a":1}`) }, false},
	{"failing Marshaler", func() any { return failingMarshaler{} }, false},
	{"native.JSON", func() any { return native.JSON(`{"x":1}`) }, false},
	{"builtin.Time", func() any { return builtin.NewTime(time.Unix(0, 0).UTC()) }, false},
	{`[]byte("hi")`, func() any { return []byte("hi") }, false},
	{"nested", func() any {
		return map[string]any{"a": map[string]any{"b": []any{1, map[string]any{}, []any{}}}}
	}, false},
	{"[2]bool", func() any { return [2]bool{true, false} }, false},
	{"uint8(255)", func() any { return uint8(255) }, false},
	{"int64 min", func() any { return int64(math.MinInt64) }, false},
}

// Values the wrapped encoders cannot encode, at every position of a composite:
// the documented behaviour is an error, never a panic of the library.
func init() {
	type leaf struct {
		name       string
		make       func() any
		comparable bool
	}
	leaves := []leaf{
		{"chan int", func() any { return make(chan int) }, true},
		{"func()", func() any { return func() {} }, false},
		{"complex(1,2)", func() any { return complex(1, 2) }, true},
		{"NaN", func() any { return math.NaN() }, true},
		{"unsafe.Pointer", func() any { return unsafe.Pointer(new(int)) }, true},
	}
	type wrap struct {
		name string
		make func(l any) any
		keys bool
	}
	wraps := []wrap{
		{"[]any{%s}", func(l any) any { return []any{1, l} }, false},
		{"map[string]any{k:%s}", func(l any) any { return map[string]any{"a": 1, "k": l} }, false},
		{"struct{F any}{%s}", func(l any) any { return struct{ F any }{l} }, false},
		{"&struct{A int; F any}{%s}", func(l any) any {
			return &struct {
				A int
				F any
			}{1, l}
		}, false},
		{"[]any{map[string]any{k:[]any{%s}}}", func(l any) any { return []any{map[string]any{"k": []any{l}}} }, false},
		{"[1]any{%s}", func(l any) any { return [1]any{l} }, false},
		{"*any → %s", func(l any) any { return &l }, false},
		{"map[any]any{%s:1}", func(l any) any { return map[any]any{l: 1} }, true},
	}
	for _, l := range leaves {
		for _, w := range wraps {
			if w.keys && !l.comparable {
				continue
			}
			l, w := l, w
			marshalValues = append(marshalValues, namedValue{fmt.Sprintf(w.name, l.name), func() any { return w.make(l.make()) }, false})
		}
	}
	marshalValues = append(marshalValues,
		namedValue{"struct{C chan int}", func() any { return struct{ C chan int }{make(chan int)} }, false},
		namedValue{"struct{F func()}", func() any { return struct{ F func() }{func() {}} }, false},
		namedValue{"[]chan int{nil}", func() any { return []chan int{nil} }, false},
		namedValue{"map[string]complex128", func() any { return map[string]complex128{"a": 1} }, false},
		namedValue{"[]float64{1,NaN}", func() any { return []float64{1, math.NaN()} }, false},
		namedValue{"map[string]float64{a:+Inf}", func() any { return map[string]float64{"a": math.Inf(1)} }, false},
		namedValue{"struct with embedded cyclic pointer", func() any {
			n := &cyc{}
			n.Next = &cyc{Next: n}
			return struct{ P *cyc }{n}
		}, true},
		namedValue{"[]any containing itself", func() any { s := []any{nil}; s[0] = s; return s }, true},
	)
}

func onlyChars(s, set string) bool { return strings.Trim(s, set) == "" }

// errPrefix is the part of an error message before the first colon.
func errPrefix(err error) string {
	s := err.Error()
	if i := strings.IndexByte(s, ':'); i >= 0 {
		return q(s[:i+1])
	}
	return "(none)"
}

func errStr(err error) string {
	if err == nil {
		return "<nil>"
	}
	return "error(" + err.Error() + ")"
}

// ---- unmarshal targets ----

type target struct {
	name string
	typ  reflect.Type
	pre  func() reflect.Value // preset content, to detect changes on error
}

type tstruct struct {
	A int
	B []string
	c int
}

func targets() []target {
	mk := func(name string, v any) target {
		return target{name: name, typ: reflect.TypeOf(v), pre: nil}
	}
	base := []target{
		mk("*int", 0), mk("*string", ""), mk("*bool", false), mk("*float64", 0.0), mk("*uint8", uint8(0)),
		mk("*[]int", []int(nil)), mk("*[]any", []any(nil)), mk("*map[string]any", map[string]any(nil)), mk("*map[string]int", map[string]int(nil)),
		mk("*struct{A int;B []string}", tstruct{}), mk("**int", (*int)(nil)),
		mk("*[]int8", []int8(nil)), mk("*[][]int", [][]int(nil)), mk("*[2]int", [2]int{}), mk("*cyc(cyclic)", cyc{}),
		mk("*chan int", (chan int)(nil)), mk("*func()", (func())(nil)), mk("*complex128", complex128(0)),
	}
	base = append(base, target{name: "*any", typ: reflect.TypeOf((*any)(nil)).Elem()})
	var ts []target
	for _, b := range base {
		t := b.typ
		nz := b
		nz.pre = func() reflect.Value { return presetValue(t) }
		ts = append(ts, nz)
		switch t.Kind() {
		case reflect.Chan, reflect.Func:
			continue // their only comparable preset is nil, which presetValue gives
		}
		z := b
		z.name += "(zero)"
		z.pre = func() reflect.Value { return reflect.New(t).Elem() }
		ts = append(ts, z)
	}
	return ts
}

func presetValue(t reflect.Type) reflect.Value {
	v := reflect.New(t).Elem()
	switch t.Kind() {
	case reflect.Int:
		v.SetInt(7)
	case reflect.Uint8:
		v.SetUint(7)
	case reflect.String:
		v.SetString("preset")
	case reflect.Bool:
		v.SetBool(true)
	case reflect.Float64:
		v.SetFloat(7.5)
	case reflect.Int8:
		v.SetInt(7)
	case reflect.Complex128:
		v.SetComplex(complex(1, 2))
	case reflect.Array:
		v.Index(0).SetInt(9)
	case reflect.Slice:
		v.Set(reflect.MakeSlice(t, 1, 1))
		switch t.Elem().Kind() {
		case reflect.Int, reflect.Int8:
			v.Index(0).SetInt(9)
		case reflect.Slice:
			v.Index(0).Set(reflect.ValueOf([]int{9}))
		default:
			v.Index(0).Set(reflect.ValueOf("preset"))
		}
	case reflect.Map:
		v.Set(reflect.MakeMap(t))
		if t.Elem().Kind() == reflect.Int {
			v.SetMapIndex(reflect.ValueOf("preset"), reflect.ValueOf(9))
		} else {
			v.SetMapIndex(reflect.ValueOf("preset"), reflect.ValueOf("p"))
		}
	case reflect.Struct:
		if t == reflect.TypeOf(cyc{}) {
			c := &cyc{}
			c.Next = c
			v.Field(0).Set(reflect.ValueOf(c))
			break
		}
		v.Field(0).SetInt(9)
		v.Field(1).Set(reflect.ValueOf([]string{"preset"}))
	case reflect.Pointer:
		p := reflect.New(t.Elem())
		p.Elem().SetInt(9)
		v.Set(p)
	case reflect.Interface:
		v.Set(reflect.ValueOf("preset"))
	}
	return v
}

// invalid targets: documented to give an error
var badTargets = []struct {
	name string
	make func() any
}{
	{"nil", func() any { return nil }},
	{"int", func() any { return 5 }},
	{"string", func() any { return "s" }},
	{"map[string]any (not a pointer)", func() any { return map[string]any{} }},
	{"(*int)(nil)", func() any { return (*int)(nil) }},
	{"struct value", func() any { return tstruct{} }},
	{"[]int", func() any { return []int{1} }},
}

// unmarshalSpace builds the space of UnmarshalJSON or UnmarshalYAML.
func unmarshalSpace(name string, alpha []string, n int, extra []string, fn func(string, any) error, ref func([]byte, any) error) fspace {
	en := kit.NewStringsUpTo(alpha, n)
	ts := targets()
	nd := en.Size() + uint64(len(extra))
	nt := uint64(len(ts) + len(badTargets))
	doc := func(i uint64) string {
		if i < en.Size() {
			return en.At(i)
		}
		return extra[i-en.Size()]
	}
	return fspace{name: name, size: nd * nt,
		eval: func(i uint64) res {
			data, k := doc(i%nd), int(i/nd)
			if k >= len(ts) {
				bt := badTargets[k-len(ts)]
				in := fmt.Sprintf("%s(%s, %s)", name, q(data), bt.name)
				err, p := try(func() error { return fn(data, bt.make()) })
				if p {
					return unexpectedPanic(func() { fn(data, bt.make()) }, in)
				}
				if err == nil {
					return bad("no-error-for-a-nil-or-non-pointer-target", "input %s\nexpected an error (documented)\nobserved nil", in)
				}
				return ok("invalid-target-error", false)
			}
			t := ts[k]
			if n >= 4 && strings.HasSuffix(t.name, "(zero)") && i%nd < en.Size() && len(en.Atoms(i%nd)) == n {
				// the longest token strings are decoded into the non-zero presets only
				return ok("longest-documents-skipped-for-zero-presets", false)
			}
			in := fmt.Sprintf("%s(%s, %s)", name, q(data), t.name)
			ptr := reflect.New(t.typ)
			ptr.Elem().Set(t.pre())
			err, p := try(func() error { return fn(data, ptr.Interface()) })
			if p {
				return unexpectedPanic(func() {
					p2 := reflect.New(t.typ)
					p2.Elem().Set(t.pre())
					fn(data, p2.Interface())
				}, in)
			}
			fresh := reflect.New(t.typ)
			rerr, rp := try(func() error { return ref([]byte(data), fresh.Interface()) })
			if rp {
				// the reference library panicked: the builtin must turn that into an error
				if err == nil {
					return bad("no-error-although-the-decoder-panicked", "input %s", in)
				}
				return ok("decoder-panic-turned-into-error", true)
			}
			switch {
			case (err == nil) != (rerr == nil):
				return bad("error-differs-from-the-reference-decoder", "input %s\nexpected %s\nobserved %s", in, errStr(rerr), errStr(err))
			case err == nil && !deepEq(ptr.Elem().Interface(), fresh.Elem().Interface()):
				return bad("value-differs-from-decoding-into-a-new-value", "input %s\nexpected %#v\nobserved %#v", in, fresh.Elem().Interface(), ptr.Elem().Interface())
			case err != nil && !deepEq(ptr.Elem().Interface(), t.pre().Interface()):
				return bad("target-changed-although-an-error-is-returned", "input %s\nerror %v\nobserved target %#v", in, err, ptr.Elem().Interface())
			}
			if err == nil {
				return ok("decoded", true)
			}
			return ok("decode-error", false)
		},
		desc: func(i uint64) any {
			data, k := doc(i%nd), int(i/nd)
			tn := ""
			if k >= len(ts) {
				tn = badTargets[k-len(ts)].name
			} else {
				tn = ts[k].name
			}
			return map[string]any{"data": q(data), "target": tn}
		}}
}

func jsonYAMLSpaces(thorough bool) []fspace {
	L := 3
	if thorough {
		L = 4
	}
	var out []fspace
	nV := uint64(len(marshalValues))

	// MarshalJSON
	out = append(out, fspace{name: "MarshalJSON", size: nV,
		eval: func(i uint64) res {
			nv := marshalValues[i]
			in := "MarshalJSON(" + nv.name + ")"
			type r struct {
				j   native.JSON
				err error
			}
			g, p := try(func() r { j, err := builtin.MarshalJSON(nv.make()); return r{j, err} })
			if p {
				return unexpectedPanic(func() { builtin.MarshalJSON(nv.make()) }, in)
			}
			w, werr := json.Marshal(nv.make())
			if (g.err == nil) != (werr == nil) || g.err == nil && string(g.j) != string(w) {
				return bad("differs-from-the-standard-library-function", "input %s\nexpected %q, %v\nobserved %q, %v", in, w, werr, g.j, g.err)
			}
			if g.err == nil {
				return ok("encoded", true)
			}
			return ok("error with prefix "+errPrefix(g.err), true)
		},
		desc: func(i uint64) any { return map[string]any{"v": marshalValues[i].name} }})

	// MarshalJSONIndent: error (not panic) unless prefix and indent are white space
	ind := kit.NewStringsUpTo(alphaIndent, 2)
	nP := ind.Size()
	out = append(out, fspace{name: "MarshalJSONIndent", size: nV * nP * nP,
		eval: func(i uint64) res {
			d := kit.Mixed(i, nV, nP, nP)
			nv, prefix, indent := marshalValues[d[0]], ind.At(d[1]), ind.At(d[2])
			in := fmt.Sprintf("MarshalJSONIndent(%s, %s, %s)", nv.name, q(prefix), q(indent))
			type r struct {
				j   native.JSON
				err error
			}
			g, p := try(func() r { j, err := builtin.MarshalJSONIndent(nv.make(), prefix, indent); return r{j, err} })
			if p {
				return unexpectedPanic(func() { builtin.MarshalJSONIndent(nv.make(), prefix, indent) }, in)
			}
			const ws = " \t\n\r"
			if !onlyChars(prefix, ws) || !onlyChars(indent, ws) {
				if g.err == nil {
					return bad("no-error-for-a-prefix-or-indent-that-is-not-white-space", "input %s\nexpected an error\nobserved %q", in, g.j)
				}
				return ok("not-white-space-error", true)
			}
			w, werr := json.MarshalIndent(nv.make(), prefix, indent)
			if (g.err == nil) != (werr == nil) || g.err == nil && string(g.j) != string(w) {
				return bad("differs-from-the-standard-library-function", "input %s\nexpected %q, %v\nobserved %q, %v", in, w, werr, g.j, g.err)
			}
			if g.err == nil {
				return ok("encoded", prefix != "" || indent != "")
			}
			return ok("error with prefix "+errPrefix(g.err), false)
		},
		desc: func(i uint64) any {
			d := kit.Mixed(i, nV, nP, nP)
			return map[string]any{"v": marshalValues[d[0]].name, "prefix": q(ind.At(d[1])), "indent": q(ind.At(d[2]))}
		}})

	// IndentJSON: panics exactly when data is not valid JSON or prefix/indent have characters other than ' ' and '\t'
	checkIndent := func(data, prefix, indent string) res {
		in := fmt.Sprintf("IndentJSON(%s, %s, %s)", q(data), q(prefix), q(indent))
		var g native.JSON
		pv, p := catch(func() { g = builtin.IndentJSON(native.JSON(data), prefix, indent) })
		valid := json.Valid([]byte(data))
		docWS := onlyChars(prefix, " \t") && onlyChars(indent, " \t")
		jsonWS := onlyChars(prefix, " \t\n\r") && onlyChars(indent, " \t\n\r")
		switch {
		case p && valid && docWS:
			return unexpectedPanic(func() { builtin.IndentJSON(native.JSON(data), prefix, indent) }, in)
		case p:
			if _, rt := pv.(runtime.Error); rt {
				return ok("documented-panic(raised as a runtime error: "+kit.NormMsg(fmt.Sprint(pv))+")", true)
			}
			return ok("documented-panic", true)
		case !valid:
			return bad("no-panic-for-invalid-JSON", "input %s\nexpected a panic (documented)\nobserved %q", in, g)
		case !jsonWS:
			return bad("no-panic-for-a-prefix-or-indent-that-is-not-white-space", "input %s\nexpected a panic (documented)\nobserved %q", in, g)
		case !docWS:
			return bad("no-panic-for-newline-or-carriage-return-in-prefix-or-indent", "input %s\nexpected a panic: the documentation says it panics if prefix or indent contain characters other than ' ' or '\\t'\nobserved %q", in, g)
		}
		var b bytes.Buffer
		if err := json.Indent(&b, bytes.Trim([]byte(data), " \t\n\r"), prefix, indent); err != nil || b.String() != string(g) {
			return bad("differs-from-json.Indent", "input %s\nexpected %q, %v\nobserved %q", in, b.String(), err, g)
		}
		// key order and content are preserved: compacting both gives the same text
		var c1, c2 bytes.Buffer
		json.Compact(&c1, []byte(data))
		json.Compact(&c2, []byte(g))
		if c1.String() != c2.String() {
			return bad("content-or-key-order-changed", "input %s\nobserved %q", in, g)
		}
		return ok("indented", true)
	}
	docs := []string{`1`, `[1]`, `{"b":1,"a":[]}`, " [ 1 , null ] \n", ``, `[`, "\xff", " ", "\t1\r\n"}
	nD := uint64(len(docs))
	out = append(out, fspace{name: "IndentJSON.ws", size: nD * nP * nP,
		eval: func(i uint64) res {
			d := kit.Mixed(i, nD, nP, nP)
			return checkIndent(docs[d[0]], ind.At(d[1]), ind.At(d[2]))
		},
		desc: func(i uint64) any {
			d := kit.Mixed(i, nD, nP, nP)
			return map[string]any{"data": q(docs[d[0]]), "prefix": q(ind.At(d[1])), "indent": q(ind.At(d[2]))}
		}})
	jd := kit.NewStringsUpTo([]string{"{", "}", "[", "]", ":", ",", `"a"`, "1", "null", " ", "\n", "\t", "\xff"}, L)
	pis := [][2]string{{"", ""}, {" ", "\t"}, {"", "  "}, {"\t\t", ""}, {"\n", ""}, {"", "a"}}
	out = append(out, fspace{name: "IndentJSON.data", size: jd.Size() * uint64(len(pis)),
		eval: func(i uint64) res {
			x, y := pair(i, jd.Size())
			return checkIndent(jd.At(x), pis[y][0], pis[y][1])
		},
		desc: func(i uint64) any {
			x, y := pair(i, jd.Size())
			return map[string]any{"data": q(jd.At(x)), "prefix": q(pis[y][0]), "indent": q(pis[y][1])}
		}})

	// MarshalYAML
	out = append(out, fspace{name: "MarshalYAML", size: nV,
		eval: func(i uint64) res {
			nv := marshalValues[i]
			if nv.jsonOnly {
				return ok("skipped(cyclic value overflows the stack in yaml.v3)", false)
			}
			in := "MarshalYAML(" + nv.name + ")"
			type r struct {
				s   string
				err error
			}
			g, p := try(func() r { s, err := builtin.MarshalYAML(nv.make()); return r{s, err} })
			if p {
				return unexpectedPanic(func() { builtin.MarshalYAML(nv.make()) }, in)
			}
			w, wp := try(func() r { b, err := yaml.Marshal(nv.make()); return r{string(b), err} })
			if wp {
				if g.err == nil {
					return bad("no-error-although-yaml.Marshal-panics", "input %s\nobserved %q", in, g.s)
				}
				return ok("yaml-panic-turned-into-error", true)
			}
			if (g.err == nil) != (w.err == nil) || g.err == nil && g.s != w.s {
				return bad("differs-from-yaml.Marshal", "input %s\nexpected %q, %v\nobserved %q, %v", in, w.s, w.err, g.s, g.err)
			}
			if g.err == nil {
				return ok("encoded", true)
			}
			return ok("error", true)
		},
		desc: func(i uint64) any { return map[string]any{"v": marshalValues[i].name} }})

	// UnmarshalJSON / UnmarshalYAML
	jAlpha := []string{"{", "}", "[", "]", ":", ",", `"a"`, `"A"`, "1", "null", "true", " ", "-", "1e", `"`, `\`, "\xff"}
	jExtra := []string{`{"a":1,"A":2}`, `{"B":["x","y"],"A":3}`, `{"A":"x"}`, `[1,2,3]`, `300`, `1.5`, `{"a":{"b":[1,{"c":null}]}}`, `"\ud800"`, `1e400`,
		// a type mismatch or an overflow in the MIDDLE of a composite
		`[1,2,"x"]`, `[1,"x",3]`, `["x",1]`, `[1,300]`, `[300,1]`, `[1,2,3]`, `[[1],["x"]]`, `[[1],[2],3]`, `{"A":1,"B":["x",2]}`, `{"A":"x","B":["y"]}`, `{"B":["y"],"A":"x"}`,
		`{"a":1,"b":"x"}`, `{"a":"x","b":1}`, `{"A":1e400}`, `{"Next":{"Next":"x"}}`, `{"Next":{"Next":null}}`, `{"a":[1,{"b":1e999}]}`, `[1,2`, `{"A":1,`}
	out = append(out, unmarshalSpace("UnmarshalJSON", jAlpha, L, jExtra, builtin.UnmarshalJSON, json.Unmarshal))
	yAlpha := []string{"a", ":", " ", "-", "\n", "1", "[", "]", "{", "}", `"`, "'", "#", "&", "*", "!", "|", ">", "?", "\t", "~", "\xff", ","}
	yExtra := []string{"a: 1\nb: [x, y]\n", "- 1\n- 2\n", "A: 3\nB: [x]\n", "a: &x 1\nb: *x\n", "? a\n: b\n", "!!binary aGk=", "a: 1\na: 2\n", "<<: {a: 1}\n", "1: 2\n", "300", "--- a\n--- b\n", "%YAML 1.1\n---\na",
		// duplicate keys, mismatches in the middle of a composite
		"a: 1\nb: [x]\na: 2\n", "A: 1\nA: 2\n", "b: [x]\nb: [y]\n", "{a: 1, a: 2}", "- 1\n- x\n- 3\n", "- [1]\n- [x]\n", "a: 1\nb: x\n", "a: x\nb: [y]\n", "- 1\n- 300\n", "next: {next: x}\n", "a: [1, {b: !!float x}]\n"}
	out = append(out, unmarshalSpace("UnmarshalYAML", yAlpha, L, yExtra, builtin.UnmarshalYAML, yaml.Unmarshal))
	return out
}
