package main

import (
	"crypto/hmac"
	"crypto/md5"
	"crypto/sha1"
	"crypto/sha256"
	"encoding/base64"
	"encoding/hex"
	"fmt"
	"hash"
	"math"
	"strconv"
	"strings"

	"verif/kit"

	"github.com/open2b/scriggo/builtin"
)

var floats = []float64{0, math.Copysign(0, -1), 1, -1.5, 0.1, 2, 0.5, 1e21, 1e-7, 123456789.125, math.MaxFloat64, math.SmallestNonzeroFloat64, math.NaN(), math.Inf(1), math.Inf(-1)}

var precisions = []int{math.MinInt, -2, -1, 0, 1, 2, 3, 7, 36, 37, 1000, 1001, math.MaxInt}

var bases = []int{math.MinInt, -1, 0, 1, 2, 3, 7, 10, 16, 36, 37, math.MaxInt}

func numberSpaces(thorough bool) []fspace {
	L := 3
	if thorough {
		L = 4
	}
	var out []fspace
	nI := uint64(len(ints))

	// Abs
	out = append(out, fspace{name: "Abs", size: nI,
		eval: func(i uint64) res {
			x := ints[i]
			v, p := try(func() int { return builtin.Abs(x) })
			if p {
				return unexpectedPanic(func() { builtin.Abs(x) }, fmt.Sprintf("Abs(%d)", x))
			}
			want := x
			if x < 0 && x != math.MinInt {
				want = -x
			}
			if v != want {
				return bad("wrong-absolute-value", "input Abs(%d)\nexpected %d\nobserved %d", x, want, v)
			}
			return ok(map[bool]string{true: "negative", false: "non-negative"}[x < 0], x < 0)
		},
		desc: func(i uint64) any { return map[string]any{"x": ints[i]} }})

	// Max, Min
	for _, isMax := range []bool{true, false} {
		isMax := isMax
		name, f := "Min", builtin.Min
		if isMax {
			name, f = "Max", builtin.Max
		}
		out = append(out, fspace{name: name, size: nI * nI,
			eval: func(i uint64) res {
				x, y := ints[i%nI], ints[i/nI]
				v, p := try(func() int { return f(x, y) })
				if p {
					return unexpectedPanic(func() { f(x, y) }, fmt.Sprintf("%s(%d, %d)", name, x, y))
				}
				want := x
				if isMax && y > x || !isMax && y < x {
					want = y
				}
				if v != want {
					return bad("wrong-value", "input %s(%d, %d)\nexpected %d\nobserved %d", name, x, y, want, v)
				}
				return ok(map[bool]string{true: "differ", false: "equal"}[x != y], x != y)
			},
			desc: func(i uint64) any { return map[string]any{"x": ints[i%nI], "y": ints[i/nI]} }})
	}

	// FormatInt: panics exactly when base is not in 2..36
	nB := uint64(len(bases))
	out = append(out, fspace{name: "FormatInt", size: nI * nB,
		eval: func(i uint64) res {
			x, b := ints[i%nI], bases[i/nI]
			in := fmt.Sprintf("FormatInt(%d, %d)", x, b)
			v, p := try(func() string { return builtin.FormatInt(x, b) })
			valid := 2 <= b && b <= 36
			switch {
			case p && valid:
				return unexpectedPanic(func() { builtin.FormatInt(x, b) }, in)
			case !p && !valid:
				return bad("no-panic-for-a-base-out-of-range", "input %s\nexpected a panic (documented: panics if base is not in 2..36)\nobserved %s", in, q(v))
			case p:
				return ok("documented-panic", true)
			}
			if w := strconv.FormatInt(int64(x), b); v != w {
				return bad("differs-from-the-standard-library-function", "input %s\nexpected %s\nobserved %s", in, q(w), q(v))
			}
			if back, err := strconv.ParseInt(v, b, 64); err != nil || back != int64(x) {
				return bad("result-does-not-parse-back", "input %s\nobserved %s", in, q(v))
			}
			return ok("formatted", true)
		},
		desc: func(i uint64) any { return map[string]any{"i": ints[i%nI], "base": bases[i/nI]} }})

	// FormatFloat: panics exactly when the format is not e/f/g or precision not in -1..1000
	{
		fm := kit.NewStringsUpTo([]string{"e", "f", "g", "E", "G", "b", "x", " "}, 2)
		nF, nP := uint64(len(floats)), uint64(len(precisions))
		out = append(out, fspace{name: "FormatFloat", size: nF * fm.Size() * nP,
			eval: func(i uint64) res {
				d := kit.Mixed(i, nF, fm.Size(), nP)
				f, format, prec := floats[d[0]], fm.At(d[1]), precisions[d[2]]
				in := fmt.Sprintf("FormatFloat(%v, %s, %d)", f, q(format), prec)
				v, p := try(func() string { return builtin.FormatFloat(f, format, prec) })
				valid := (format == "e" || format == "f" || format == "g") && -1 <= prec && prec <= 1000
				switch {
				case p && valid:
					return unexpectedPanic(func() { builtin.FormatFloat(f, format, prec) }, in)
				case !p && !valid:
					return bad("no-panic-for-an-invalid-format-or-precision", "input %s\nexpected a panic (documented)\nobserved %s", in, q(v))
				case p:
					return ok("documented-panic", true)
				}
				if w := strconv.FormatFloat(f, format[0], prec, 64); v != w {
					return bad("differs-from-the-standard-library-function", "input %s\nexpected %s\nobserved %s", in, q(w), q(v))
				}
				if prec == -1 && isFinite(f) { // "smallest number of digits necessary such that ParseFloat will return f exactly"
					back, err := builtin.ParseFloat(v)
					if err != nil || math.Float64bits(back) != math.Float64bits(f) && !(f == 0 && back == 0) {
						return bad("precision--1-does-not-round-trip-through-ParseFloat", "input %s\nobserved %s → ParseFloat = %v, %v", in, q(v), back, err)
					}
				}
				return ok("formatted", true)
			},
			desc: func(i uint64) any {
				d := kit.Mixed(i, nF, fm.Size(), nP)
				return map[string]any{"f": fmt.Sprint(floats[d[0]]), "format": q(fm.At(d[1])), "precision": precisions[d[2]]}
			}})
	}

	// ParseFloat: returns an error, never panics; decimal notation agrees with strconv
	{
		en := kit.NewStringsUpTo([]string{"0", "1", "9", ".", "e", "E", "+", "-", "x", "X", "p", "_", "i", "n", "f", "a", "N", " "}, L+1)
		out = append(out, fspace{name: "ParseFloat", size: en.Size(),
			eval: func(i uint64) res {
				s := en.At(i)
				in := "ParseFloat(" + q(s) + ")"
				type r struct {
					f   float64
					err error
				}
				g, p := try(func() r { f, err := builtin.ParseFloat(s); return r{f, err} })
				if p {
					return unexpectedPanic(func() { builtin.ParseFloat(s) }, in)
				}
				w, werr := strconv.ParseFloat(s, 64)
				decimal := strings.Trim(s, "0123456789.eE+-") == ""
				switch {
				case g.err != nil && g.f != 0:
					return bad("non-zero-value-with-an-error", "input %s\nobserved %v, %v", in, g.f, g.err)
				case g.err == nil && werr != nil:
					return bad("accepts-a-string-that-strconv.ParseFloat-rejects", "input %s\nexpected error (%v)\nobserved %v", in, werr, g.f)
				case g.err == nil && !sameFloat(g.f, w):
					return bad("value-differs-from-strconv.ParseFloat", "input %s\nexpected %v\nobserved %v", in, w, g.f)
				case g.err == nil && !isFinite(g.f):
					return bad("returns-a-non-finite-value-without-error", "input %s\nobserved %v", in, g.f)
				case g.err != nil && werr == nil && decimal && isFinite(w):
					return bad("rejects-a-well-formed-decimal-number", "input %s\nexpected %v\nobserved error %v", in, w, g.err)
				}
				hexa := strings.ContainsAny(s, "xX")
				switch {
				case g.err == nil && hexa:
					return ok("hexadecimal-accepted", true)
				case g.err != nil && werr == nil && hexa:
					return ok("hexadecimal-rejected", true)
				case g.err == nil:
					return ok("parsed", true)
				case werr == nil:
					return ok("inf/nan-rejected", true)
				}
				return ok("error", false)
			},
			desc: func(i uint64) any { return map[string]any{"s": q(en.At(i))} }})
	}

	// ParseInt
	{
		en := kit.NewStringsUpTo([]string{"0", "1", "9", "a", "z", "Z", "-", "+", "_", " ", "x", "\xff"}, L)
		big := []string{"9223372036854775807", "9223372036854775808", "-9223372036854775808", "-9223372036854775809", "zzzzzzzzzzzzzz", "1y2p0ij32e8e7", "1y2p0ij32e8e8"}
		total := en.Size() + uint64(len(big))
		at := func(i uint64) string {
			if i < en.Size() {
				return en.At(i)
			}
			return big[i-en.Size()]
		}
		out = append(out, fspace{name: "ParseInt", size: total * nB,
			eval: func(i uint64) res {
				s, b := at(i%total), bases[i/total]
				in := fmt.Sprintf("ParseInt(%s, %d)", q(s), b)
				type r struct {
					v   int
					err error
				}
				g, p := try(func() r { v, err := builtin.ParseInt(s, b); return r{v, err} })
				if p {
					return unexpectedPanic(func() { builtin.ParseInt(s, b) }, in)
				}
				if g.err != nil && g.v != 0 {
					return bad("non-zero-value-with-an-error", "input %s\nobserved %d, %v", in, g.v, g.err)
				}
				if b < 2 || b > 36 {
					return ok("base-out-of-range", false)
				}
				w, werr := strconv.ParseInt(s, b, 0)
				switch {
				case (g.err == nil) != (werr == nil):
					return bad("error-differs-from-strconv.ParseInt", "input %s\nexpected %d, %v\nobserved %d, %v", in, w, werr, g.v, g.err)
				case g.err == nil && int64(g.v) != w:
					return bad("value-differs-from-strconv.ParseInt", "input %s\nexpected %d\nobserved %d", in, w, g.v)
				}
				if g.err == nil {
					return ok("parsed", true)
				}
				return ok("error", false)
			},
			desc: func(i uint64) any { return map[string]any{"s": q(at(i % total)), "base": bases[i/total]} }})
	}

	// Pow
	{
		nF := uint64(len(floats))
		out = append(out, fspace{name: "Pow", size: nF * nF,
			eval: func(i uint64) res {
				x, y := floats[i%nF], floats[i/nF]
				v, p := try(func() float64 { return builtin.Pow(x, y) })
				if p {
					return unexpectedPanic(func() { builtin.Pow(x, y) }, fmt.Sprintf("Pow(%v, %v)", x, y))
				}
				if w := math.Pow(x, y); !sameFloat(v, w) {
					return bad("differs-from-the-standard-library-function", "input Pow(%v, %v)\nexpected %v\nobserved %v", x, y, w, v)
				}
				return ok(map[bool]string{true: "finite", false: "special"}[isFinite(v)], true)
			},
			desc: func(i uint64) any {
				return map[string]any{"x": fmt.Sprint(floats[i%nF]), "y": fmt.Sprint(floats[i/nF])}
			}})
	}

	// encodings and digests: equal to the standard library
	sum := func(h hash.Hash, s string) string { h.Write([]byte(s)); return hex.EncodeToString(h.Sum(nil)) }
	nt := func(s string, v string) bool { return s != "" }
	out = append(out,
		wrapper1("Base64", alphaGen, L, builtin.Base64, func(s string) string { return base64.StdEncoding.EncodeToString([]byte(s)) },
			func(s string) (string, bool) { // definition: decodes back to s
				d, err := base64.StdEncoding.DecodeString(builtin.Base64(s))
				if err != nil || string(d) != s {
					return "<does not decode back>", true
				}
				return builtin.Base64(s), true
			}, nt),
		wrapper1("Hex", alphaGen, L, builtin.Hex, func(s string) string { return hex.EncodeToString([]byte(s)) },
			func(s string) (string, bool) { return fmt.Sprintf("%x", s), true }, nt),
		wrapper1("Md5", alphaGen, L, builtin.Md5, func(s string) string { return sum(md5.New(), s) }, nil, nt),
		wrapper1("Sha1", alphaGen, L, builtin.Sha1, func(s string) string { return sum(sha1.New(), s) }, nil, nt),
		wrapper1("Sha256", alphaGen, L, builtin.Sha256, func(s string) string { return sum(sha256.New(), s) }, nil, nt),
	)
	mac := func(h func() hash.Hash) func(m, k string) string {
		return func(m, k string) string {
			x := hmac.New(h, []byte(k))
			x.Write([]byte(m))
			return base64.StdEncoding.EncodeToString(x.Sum(nil))
		}
	}
	nt2 := func(s, t string, v string) bool { return s != "" || t != "" }
	out = append(out,
		wrapper2("HmacSHA1", alphaGen, L-1, alphaGen, L-1, builtin.HmacSHA1, mac(sha1.New), nil, nt2),
		wrapper2("HmacSHA256", alphaGen, L-1, alphaGen, L-1, builtin.HmacSHA256, mac(sha256.New), nil, nt2),
	)
	return out
}
