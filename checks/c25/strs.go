package main

import (
	"fmt"
	"net/url"
	"strings"
	"unicode"
	"unicode/utf8"

	"verif/kit"

	"github.com/open2b/scriggo/builtin"
)

// try runs f and reports whether it panicked.
func try[T any](f func() T) (v T, panicked bool) {
	defer func() {
		if recover() != nil {
			panicked = true
		}
	}()
	return f(), false
}

// str1 builds the space of a function of one string.
func str1(name string, alpha []string, n int, check func(s string) res) fspace {
	en := kit.NewStringsUpTo(alpha, n)
	return fspace{name: name, size: en.Size(),
		eval: func(i uint64) res { return check(en.At(i)) },
		desc: func(i uint64) any { return map[string]any{"s": q(en.At(i))} }}
}

// str2 builds the space of a function of two strings.
func str2(name string, a1 []string, n1 int, a2 []string, n2 int, check func(s, t string) res) fspace {
	e1, e2 := kit.NewStringsUpTo(a1, n1), kit.NewStringsUpTo(a2, n2)
	return fspace{name: name, size: e1.Size() * e2.Size(),
		eval: func(i uint64) res { x, y := pair(i, e1.Size()); return check(e1.At(x), e2.At(y)) },
		desc: func(i uint64) any {
			x, y := pair(i, e1.Size())
			return map[string]any{"s": q(e1.At(x)), "t": q(e2.At(y))}
		}}
}

// wrapper1 checks a thin wrapper of one string against std (and an optional naive definition).
func wrapper1[T any](name string, alpha []string, n int, got, std func(string) T, naive func(string) (T, bool), nontrivial func(s string, v T) bool) fspace {
	return str1(name, alpha, n, func(s string) res {
		g, p := try(func() T { return got(s) })
		if p {
			return unexpectedPanic(func() { got(s) }, fmt.Sprintf("%s(%s)", keyPrefix(name), q(s)))
		}
		w := std(s)
		if !deepEq(g, w) {
			return bad("differs-from-the-standard-library-function", "input %s(%s)\nexpected %#v\nobserved %#v", keyPrefix(name), q(s), w, g)
		}
		if naive != nil {
			if d, applies := naive(s); applies && !deepEq(g, d) {
				return bad("differs-from-the-documented-definition", "input %s(%s)\nexpected %#v (definition)\nobserved %#v", keyPrefix(name), q(s), d, g)
			}
		}
		nt := nontrivial(s, g)
		if nt {
			return ok("changed/found", true)
		}
		return ok("unchanged/not-found", false)
	})
}

func wrapper2[T any](name string, a1 []string, n1 int, a2 []string, n2 int, got, std func(s, t string) T, naive func(s, t string) (T, bool), nontrivial func(s, t string, v T) bool) fspace {
	return str2(name, a1, n1, a2, n2, func(s, t string) res {
		g, p := try(func() T { return got(s, t) })
		if p {
			return unexpectedPanic(func() { got(s, t) }, fmt.Sprintf("%s(%s, %s)", keyPrefix(name), q(s), q(t)))
		}
		w := std(s, t)
		if !deepEq(g, w) {
			return bad("differs-from-the-standard-library-function", "input %s(%s, %s)\nexpected %#v\nobserved %#v", keyPrefix(name), q(s), q(t), w, g)
		}
		if naive != nil {
			if d, applies := naive(s, t); applies && !deepEq(g, d) {
				return bad("differs-from-the-documented-definition", "input %s(%s, %s)\nexpected %#v (definition)\nobserved %#v", keyPrefix(name), q(s), q(t), d, g)
			}
		}
		if nontrivial(s, t, g) {
			return ok("changed/found", true)
		}
		return ok("unchanged/not-found", false)
	})
}

// ---- naive definitions ----

func naiveIndex(s, sub string) int {
	for i := 0; i+len(sub) <= len(s); i++ {
		if s[i:i+len(sub)] == sub {
			return i
		}
	}
	return -1
}

func naiveLastIndex(s, sub string) int {
	for i := len(s) - len(sub); i >= 0; i-- {
		if s[i:i+len(sub)] == sub {
			return i
		}
	}
	return -1
}

func runeIn(r rune, set string) bool {
	for _, c := range set {
		if c == r {
			return true
		}
	}
	return false
}

func naiveIndexAny(s, chars string) int {
	for i, r := range s {
		if runeIn(r, chars) {
			return i
		}
	}
	return -1
}

func naiveTrimLeft(s, cutset string) string {
	for len(s) > 0 {
		r, w := utf8.DecodeRuneInString(s)
		if !runeIn(r, cutset) {
			break
		}
		s = s[w:]
	}
	return s
}

func naiveTrimRight(s, cutset string) string {
	for len(s) > 0 {
		r, w := utf8.DecodeLastRuneInString(s)
		if !runeIn(r, cutset) {
			break
		}
		s = s[:len(s)-w]
	}
	return s
}

func mapRunes(s string, f func(rune) rune) (string, bool) {
	if !utf8.ValidString(s) {
		return "", false
	}
	var b strings.Builder
	for _, r := range s {
		b.WriteRune(f(r))
	}
	return b.String(), true
}

// ---- separators (Capitalize, CapitalizeAll) ----

// isSep is the word-boundary definition of Go's strings.Title; when loose is
// set underscore and ASCII digits are separators too.
func isSep(r rune, loose bool) bool {
	if r <= 0x7F {
		switch {
		case '0' <= r && r <= '9', r == '_':
			return loose
		case 'a' <= r && r <= 'z', 'A' <= r && r <= 'Z':
			return false
		}
		return true
	}
	if unicode.IsLetter(r) || unicode.IsDigit(r) {
		return false
	}
	return unicode.IsSpace(r)
}

// capitalizeRefs returns every acceptable result of Capitalize(s).
func capitalizeRefs(s string) []string {
	var out []string
	for _, loose := range []bool{false, true} {
		for _, skipInvalid := range []bool{false, true} {
			r0 := s
			for i := 0; i < len(s); {
				r, w := utf8.DecodeRuneInString(s[i:])
				if r == utf8.RuneError && w == 1 {
					if skipInvalid {
						i += w
						continue
					}
					// the first non-separator is an invalid byte: kept, or replaced by U+FFFD
					out = append(out, s[:i]+"�"+s[i+1:])
					break
				}
				if isSep(r, loose) {
					i += w
					continue
				}
				r0 = s[:i] + string(unicode.ToUpper(r)) + s[i+w:]
				break
			}
			out = append(out, r0)
		}
	}
	return out
}

// capitalizeAllRef is strings.Title with upper instead of title case.
func capitalizeAllRef(s string, loose bool) string {
	var b strings.Builder
	prev := ' '
	for _, r := range s { // invalid bytes become U+FFFD, as with strings.Map
		if isSep(prev, loose) {
			b.WriteRune(unicode.ToUpper(r))
		} else {
			b.WriteRune(r)
		}
		prev = r
	}
	return b.String()
}

func firstNonSepClass(s string) string {
	for i := 0; i < len(s); {
		r, w := utf8.DecodeRuneInString(s[i:])
		if r == utf8.RuneError && w == 1 {
			return "replacement-rune-has-another-encoded-length-than-the-replaced-bytes"
		}
		if isSep(r, false) {
			i += w
			continue
		}
		if utf8.RuneLen(unicode.ToUpper(r)) != w {
			return "replacement-rune-has-another-encoded-length-than-the-replaced-bytes"
		}
		return "same-width"
	}
	return "no-non-separator"
}

var htmlRef = strings.NewReplacer("<", "&lt;", ">", "&gt;", "&", "&amp;", "\"", "&#34;", "'", "&#39;")

const abbrevSpaces = " \n\r\t\f"

func checkAbbreviate(s string, n int) res {
	in := fmt.Sprintf("Abbreviate(%s, %d)", q(s), n)
	out, p := try(func() string { return builtin.Abbreviate(s, n) })
	if p {
		return unexpectedPanic(func() { builtin.Abbreviate(s, n) }, in)
	}
	max := n
	if max < 0 {
		max = 0
	}
	if c := utf8.RuneCountInString(out); c > max {
		return bad("result-has-more-than-n-runes", "input %s\nexpected at most %d runes\nobserved %s (%d runes)", in, max, q(out), c)
	}
	trimmed := strings.TrimRight(s, abbrevSpaces)
	if utf8.RuneCountInString(s) <= n || utf8.RuneCountInString(trimmed) <= n {
		// not longer than n runes: nothing to abbreviate
		if out != s && out != trimmed {
			return bad("string-not-longer-than-n-runes-is-not-returned", "input %s (%d runes, %d bytes)\nexpected %s (the string is not longer than n runes)\nobserved %s", in, utf8.RuneCountInString(trimmed), len(trimmed), q(trimmed), q(out))
		}
		return ok("fits", false)
	}
	if n >= 3 && !strings.HasSuffix(out, "...") {
		return bad("abbreviated-string-does-not-end-with-ellipsis", "input %s\nexpected a string ending with \"...\" (s is longer than n runes)\nobserved %s", in, q(out))
	}
	if strings.HasSuffix(out, "...") && !strings.HasPrefix(s, strings.TrimSuffix(out, "...")) {
		return bad("abbreviation-is-not-a-prefix-of-s", "input %s\nobserved %s", in, q(out))
	}
	if n < 3 {
		return ok("n<3", true)
	}
	return ok("abbreviated", true)
}

func stringSpaces(thorough bool) []fspace {
	L := 3
	if thorough {
		L = 4
	}
	L1 := L - 1 // second string argument
	var out []fspace
	g := alphaGen

	// Abbreviate: general strings × ints, and a word-shaped alphabet with small n
	enA := kit.NewStringsUpTo(g, L)
	out = append(out, fspace{name: "Abbreviate", size: enA.Size() * uint64(len(ints)),
		eval: func(i uint64) res { x, y := pair(i, enA.Size()); return checkAbbreviate(enA.At(x), ints[y]) },
		desc: func(i uint64) any {
			x, y := pair(i, enA.Size())
			return map[string]any{"s": q(enA.At(x)), "n": ints[y]}
		}})
	wl := 7
	if thorough {
		wl = 9
	}
	enW := kit.NewStringsUpTo([]string{"a", " ", ".", "é"}, wl)
	out = append(out, fspace{name: "Abbreviate.words", size: enW.Size() * 10,
		eval: func(i uint64) res { x, y := pair(i, enW.Size()); return checkAbbreviate(enW.At(x), int(y)) },
		desc: func(i uint64) any {
			x, y := pair(i, enW.Size())
			return map[string]any{"s": q(enW.At(x)), "n": y}
		}})

	// Abbreviate over words with invalid UTF-8: an invalid byte is one rune of one
	// byte whose decoded value (U+FFFD) has an encoded length of 3, so rune
	// index, byte offset and summed rune lengths all differ before the cut point
	il := 7
	if thorough {
		il = 8
	}
	enI := kit.NewStringsUpTo([]string{"a", " ", ".", "é", "\xff", "\xc3"}, il)
	out = append(out, fspace{name: "Abbreviate.invalid", size: enI.Size() * 10,
		eval: func(i uint64) res {
			x, y := pair(i, enI.Size())
			r := checkAbbreviate(enI.At(x), int(y))
			if r.key == "" && utf8.ValidString(enI.At(x)) {
				r.nontrivial = false // counted in Abbreviate.words
			}
			return r
		},
		desc: func(i uint64) any {
			x, y := pair(i, enI.Size())
			return map[string]any{"s": q(enI.At(x)), "n": y}
		}})

	// The case, search, trim and split helpers are explored twice: with the
	// general alphabets, and (suffix ".utf8") with longer strings over a small
	// alphabet of multi-byte runes (2, 3 and 4 bytes, multi-byte separators,
	// runes whose case mapping has another encoded length) and invalid UTF-8
	// (0xFF, a truncated 2-byte prefix 0xC3, a stray continuation byte 0xA9),
	// so that every function that walks runes with byte offsets sees a
	// difference between rune index, byte offset and encoded length well before
	// the end of the string.
	addTextSpaces := func(sfx string, ca []string, cl int, g []string, L, L1 int) {
		// Capitalize
		out = append(out, str1("Capitalize"+sfx, ca, cl, func(s string) res {
			in := "Capitalize(" + q(s) + ")"
			got, p := try(func() string { return builtin.Capitalize(s) })
			cls := firstNonSepClass(s)
			if p {
				_, msg := panicKey(func() { builtin.Capitalize(s) })
				return bad("wrong-result-or-panic|"+cls, "input %s\nexpected one of %q\nobserved panic: %s", in, capitalizeRefs(s), msg)
			}
			refs := capitalizeRefs(s)
			for _, r := range refs {
				if got == r {
					if !utf8.ValidString(s) && strings.Count(got, "\uFFFD") > strings.Count(s, "\uFFFD") {
						return ok(cls+",invalid-byte-rewritten-to-U+FFFD", true)
					}
					return ok(cls, got != s)
				}
			}
			return bad("wrong-result-or-panic|"+cls, "input %s\nexpected one of %q\nobserved %s", in, refs, q(got))
		}))

		// CapitalizeAll
		out = append(out, str1("CapitalizeAll"+sfx, ca, cl, func(s string) res {
			in := "CapitalizeAll(" + q(s) + ")"
			got, p := try(func() string { return builtin.CapitalizeAll(s) })
			if p {
				return unexpectedPanic(func() { builtin.CapitalizeAll(s) }, in)
			}
			gn := string([]rune(got))
			r1, r2 := capitalizeAllRef(s, false), capitalizeAllRef(s, true)
			if gn != r1 && gn != r2 {
				return bad("not-s-with-the-first-letter-of-each-word-in-upper-case", "input %s\nexpected %s or %s (invalid bytes may be U+FFFD)\nobserved %s", in, q(r1), q(r2), q(got))
			}
			if got != s && !utf8.ValidString(s) && strings.Count(got, "\uFFFD") > strings.Count(s, "\uFFFD") {
				return ok("capitalized,invalid-bytes-rewritten-to-U+FFFD", true)
			}
			return ok("capitalized", gn != string([]rune(s)))
		}))

		// ToKebab
		out = append(out, str1("ToKebab"+sfx, ca, cl, func(s string) res {
			in := "ToKebab(" + q(s) + ")"
			got, p := try(func() string { return builtin.ToKebab(s) })
			if p {
				return unexpectedPanic(func() { builtin.ToKebab(s) }, in)
			}
			why := ""
			switch {
			case strings.HasPrefix(got, "-") || strings.HasSuffix(got, "-"):
				why = "leading-or-trailing-dash"
			case strings.Contains(got, "--"):
				why = "double-dash"
			case strings.ToLower(got) != got:
				why = "upper-case-letter-left"
			case strings.IndexFunc(got, unicode.IsSpace) >= 0:
				why = "white-space-left"
			case !utf8.ValidString(got):
				why = "invalid-utf8-left"
			}
			if why == "" {
				if again := builtin.ToKebab(got); again != got {
					why = "not-idempotent"
				}
			}
			if why != "" {
				return bad("result-is-not-in-kebab-case|"+why, "input %s\nobserved %s", in, q(got))
			}
			// every letter or digit of s that has a case or is a digit survives, in order, lower-cased
			var want, have []rune
			for _, r := range s {
				if unicode.IsLower(r) || unicode.IsUpper(r) || unicode.IsDigit(r) {
					want = append(want, unicode.ToLower(r))
				}
			}
			for _, r := range got {
				if r != '-' {
					have = append(have, r)
				}
			}
			if string(want) != string(have) {
				return bad("result-loses-or-invents-letters", "input %s\nexpected the letters %q separated by dashes\nobserved %s", in, string(want), q(got))
			}
			return ok("kebab", strings.Contains(got, "-"))
		}))

		// ToLower / ToUpper
		out = append(out, wrapper1("ToLower"+sfx, ca, cl, builtin.ToLower, strings.ToLower,
			func(s string) (string, bool) { return mapRunes(s, unicode.ToLower) },
			func(s string, v string) bool { return v != s }))
		out = append(out, wrapper1("ToUpper"+sfx, ca, cl, builtin.ToUpper, strings.ToUpper,
			func(s string) (string, bool) { return mapRunes(s, unicode.ToUpper) },
			func(s string, v string) bool { return v != s }))

		// RuneCount
		out = append(out, wrapper1("RuneCount"+sfx, g, L+1, builtin.RuneCount, utf8.RuneCountInString,
			func(s string) (int, bool) {
				n := 0
				for range s {
					n++
				}
				return n, true
			}, func(s string, v int) bool { return v != len(s) }))

		if sfx == "" { // HtmlEscape (C24 is its exhaustive check)
			out = append(out, wrapper1("HtmlEscape", []string{"<", ">", "&", "\"", "'", "a", "é", "\xff"}, L,
				func(s string) string { return string(builtin.HtmlEscape(s)) }, htmlRef.Replace, nil,
				func(s string, v string) bool { return v != s }))
		}

		// search helpers
		out = append(out, wrapper2("HasPrefix"+sfx, g, L, g, L1, builtin.HasPrefix, strings.HasPrefix,
			func(s, t string) (bool, bool) { return len(s) >= len(t) && s[:len(t)] == t, true },
			func(s, t string, v bool) bool { return v && t != "" }))
		out = append(out, wrapper2("HasSuffix"+sfx, g, L, g, L1, builtin.HasSuffix, strings.HasSuffix,
			func(s, t string) (bool, bool) { return len(s) >= len(t) && s[len(s)-len(t):] == t, true },
			func(s, t string, v bool) bool { return v && t != "" }))
		out = append(out, wrapper2("Index"+sfx, g, L, g, L1, builtin.Index, strings.Index,
			func(s, t string) (int, bool) { return naiveIndex(s, t), true },
			func(s, t string, v int) bool { return v > 0 }))
		out = append(out, wrapper2("LastIndex"+sfx, g, L, g, L1, builtin.LastIndex, strings.LastIndex,
			func(s, t string) (int, bool) { return naiveLastIndex(s, t), true },
			func(s, t string, v int) bool { return v >= 0 && t != "" }))
		out = append(out, wrapper2("IndexAny"+sfx, g, L, g, L1, builtin.IndexAny, strings.IndexAny,
			func(s, t string) (int, bool) { return naiveIndexAny(s, t), true },
			func(s, t string, v int) bool { return v >= 0 }))

		// trimming
		out = append(out, wrapper2("Trim"+sfx, g, L, g, L1, builtin.Trim, strings.Trim,
			func(s, t string) (string, bool) { return naiveTrimRight(naiveTrimLeft(s, t), t), true },
			func(s, t string, v string) bool { return v != s }))
		out = append(out, wrapper2("TrimLeft"+sfx, g, L, g, L1, builtin.TrimLeft, strings.TrimLeft,
			func(s, t string) (string, bool) { return naiveTrimLeft(s, t), true },
			func(s, t string, v string) bool { return v != s }))
		out = append(out, wrapper2("TrimRight"+sfx, g, L, g, L1, builtin.TrimRight, strings.TrimRight,
			func(s, t string) (string, bool) { return naiveTrimRight(s, t), true },
			func(s, t string, v string) bool { return v != s }))
		out = append(out, wrapper2("TrimPrefix"+sfx, g, L, g, L1, builtin.TrimPrefix, strings.TrimPrefix,
			func(s, t string) (string, bool) {
				if len(s) >= len(t) && s[:len(t)] == t {
					return s[len(t):], true
				}
				return s, true
			}, func(s, t string, v string) bool { return v != s }))
		out = append(out, wrapper2("TrimSuffix"+sfx, g, L, g, L1, builtin.TrimSuffix, strings.TrimSuffix,
			func(s, t string) (string, bool) {
				if len(s) >= len(t) && s[len(s)-len(t):] == t {
					return s[:len(s)-len(t)], true
				}
				return s, true
			}, func(s, t string, v string) bool { return v != s }))

		// splitting
		splitNT := func(s, t string, v []string) bool { return len(v) > 1 }
		out = append(out, wrapper2("Split"+sfx, g, L, g, L1, builtin.Split, strings.Split,
			func(s, t string) ([]string, bool) { // documented edge cases
				if s == "" && t == "" {
					return []string{}, true
				}
				if t != "" && naiveIndex(s, t) < 0 {
					return []string{s}, true
				}
				return nil, false
			}, splitNT))
		out = append(out, wrapper2("SplitAfter"+sfx, g, L, g, L1, builtin.SplitAfter, strings.SplitAfter,
			func(s, t string) ([]string, bool) {
				if s == "" && t == "" {
					return []string{}, true
				}
				if t != "" && naiveIndex(s, t) < 0 {
					return []string{s}, true
				}
				return nil, false
			}, splitNT))
	}
	addTextSpaces("", alphaCase, L, g, L, L1)
	if thorough {
		addTextSpaces(".utf8", alphaCaseLong, 6, alphaSearchLong, 6, 2)
	} else {
		addTextSpaces(".utf8", alphaCaseLong, 5, alphaSearchLong, 5, 2)
	}
	for _, after := range []bool{false, true} {
		after := after
		name, got, std := "SplitN", builtin.SplitN, strings.SplitN
		if after {
			name, got, std = "SplitAfterN", builtin.SplitAfterN, strings.SplitAfterN
		}
		e1, e2 := kit.NewStringsUpTo(g, L), kit.NewStringsUpTo(g, 1)
		nn := uint64(len(ints))
		out = append(out, fspace{name: name, size: e1.Size() * e2.Size() * nn,
			eval: func(i uint64) res {
				d := kit.Mixed(i, e1.Size(), e2.Size(), nn)
				s, t, n := e1.At(d[0]), e2.At(d[1]), ints[d[2]]
				in := fmt.Sprintf("%s(%s, %s, %d)", name, q(s), q(t), n)
				v, p := try(func() []string { return got(s, t, n) })
				if p {
					return unexpectedPanic(func() { got(s, t, n) }, in)
				}
				w := std(s, t, n)
				if !deepEq(v, w) {
					return bad("differs-from-the-standard-library-function", "input %s\nexpected %#v\nobserved %#v", in, w, v)
				}
				switch { // documented count semantics
				case n == 0 && v != nil:
					return bad("n==0-result-not-nil", "input %s\nobserved %#v", in, v)
				case n > 0 && len(v) > n:
					return bad("more-than-n-substrings", "input %s\nobserved %#v", in, v)
				case len(v) > 0 && strings.Join(v, map[bool]string{false: t, true: ""}[after]) != s:
					return bad("substrings-do-not-rebuild-s", "input %s\nobserved %#v", in, v)
				}
				return ok(fmt.Sprintf("pieces=%d", min(len(v), 3)), len(v) > 1)
			},
			desc: func(i uint64) any {
				d := kit.Mixed(i, e1.Size(), e2.Size(), nn)
				return map[string]any{"s": q(e1.At(d[0])), "sep": q(e2.At(d[1])), "n": ints[d[2]]}
			}})
	}

	// Replace / ReplaceAll
	news := []string{"", "a", "éé", "\xff"}
	{
		e1, e2 := kit.NewStringsUpTo(g, L), kit.NewStringsUpTo(g, 1)
		nn, nw := uint64(len(ints)), uint64(len(news))
		out = append(out, fspace{name: "Replace", size: e1.Size() * e2.Size() * nw * nn,
			eval: func(i uint64) res {
				d := kit.Mixed(i, e1.Size(), e2.Size(), nw, nn)
				s, old, nu, n := e1.At(d[0]), e2.At(d[1]), news[d[2]], ints[d[3]]
				in := fmt.Sprintf("Replace(%s, %s, %s, %d)", q(s), q(old), q(nu), n)
				v, p := try(func() string { return builtin.Replace(s, old, nu, n) })
				if p {
					return unexpectedPanic(func() { builtin.Replace(s, old, nu, n) }, in)
				}
				if w := strings.Replace(s, old, nu, n); v != w {
					return bad("differs-from-the-standard-library-function", "input %s\nexpected %s\nobserved %s", in, q(w), q(v))
				}
				return ok(map[bool]string{true: "replaced", false: "unchanged"}[v != s], v != s)
			},
			desc: func(i uint64) any {
				d := kit.Mixed(i, e1.Size(), e2.Size(), nw, nn)
				return map[string]any{"s": q(e1.At(d[0])), "old": q(e2.At(d[1])), "new": q(news[d[2]]), "n": ints[d[3]]}
			}})
		out = append(out, fspace{name: "ReplaceAll", size: e1.Size() * e2.Size() * nw,
			eval: func(i uint64) res {
				d := kit.Mixed(i, e1.Size(), e2.Size(), nw)
				s, old, nu := e1.At(d[0]), e2.At(d[1]), news[d[2]]
				in := fmt.Sprintf("ReplaceAll(%s, %s, %s)", q(s), q(old), q(nu))
				v, p := try(func() string { return builtin.ReplaceAll(s, old, nu) })
				if p {
					return unexpectedPanic(func() { builtin.ReplaceAll(s, old, nu) }, in)
				}
				if w := strings.ReplaceAll(s, old, nu); v != w {
					return bad("differs-from-the-standard-library-function", "input %s\nexpected %s\nobserved %s", in, q(w), q(v))
				}
				return ok(map[bool]string{true: "replaced", false: "unchanged"}[v != s], v != s)
			},
			desc: func(i uint64) any {
				d := kit.Mixed(i, e1.Size(), e2.Size(), nw)
				return map[string]any{"s": q(e1.At(d[0])), "old": q(e2.At(d[1])), "new": q(news[d[2]])}
			}})
	}

	// Join: every list of <= 3 (thorough 4) elements over {"", a, é, ","} × separators
	{
		elemAtoms := []string{"", "a", "é", ","}
		ll := 3
		if thorough {
			ll = 4
		}
		lists := kit.NewStringsUpTo([]string{"0", "1", "2", "3"}, ll) // a list is a string of atom indexes
		seps := kit.NewStringsUpTo(g, 1)
		out = append(out, fspace{name: "Join", size: lists.Size() * seps.Size(),
			eval: func(i uint64) res {
				x, y := pair(i, lists.Size())
				var elems []string
				for _, a := range lists.Atoms(x) {
					elems = append(elems, elemAtoms[a])
				}
				sep := seps.At(y)
				in := fmt.Sprintf("Join(%q, %s)", elems, q(sep))
				v, p := try(func() string { return builtin.Join(elems, sep) })
				if p {
					return unexpectedPanic(func() { builtin.Join(elems, sep) }, in)
				}
				want := ""
				for k, e := range elems {
					if k > 0 {
						want += sep
					}
					want += e
				}
				if v != want || v != strings.Join(elems, sep) {
					return bad("differs-from-the-standard-library-function", "input %s\nexpected %s\nobserved %s", in, q(want), q(v))
				}
				return ok(fmt.Sprintf("elems=%d", min(len(elems), 2)), len(elems) > 1)
			},
			desc: func(i uint64) any {
				x, y := pair(i, lists.Size())
				var elems []string
				for _, a := range lists.Atoms(x) {
					elems = append(elems, elemAtoms[a])
				}
				return map[string]any{"elems": elems, "sep": q(seps.At(y))}
			}})
	}

	// QueryEscape
	checkQE := func(s string) res {
		in := "QueryEscape(" + q(s) + ")"
		got, p := try(func() string { return builtin.QueryEscape(s) })
		if p {
			return unexpectedPanic(func() { builtin.QueryEscape(s) }, in)
		}
		for i := 0; i < len(got); i++ {
			c := got[i]
			switch {
			case 'a' <= c && c <= 'z', 'A' <= c && c <= 'Z', '0' <= c && c <= '9', c == '-', c == '.', c == '_', c == '~':
			case c == '%' && i+2 < len(got) && isHex(got[i+1]) && isHex(got[i+2]):
				i += 2
			default:
				return bad("output-has-a-character-that-is-neither-unreserved-nor-%XX", "input %s\nobserved %s (offset %d)", in, q(got), i)
			}
		}
		if u, err := url.QueryUnescape(got); err != nil || u != s {
			return bad("url.QueryUnescape-does-not-give-back-the-input", "input %s\nobserved %s → QueryUnescape = %s, %v", in, q(got), q(u), err)
		}
		if u, err := url.PathUnescape(got); err != nil || u != s {
			return bad("url.PathUnescape-does-not-give-back-the-input", "input %s\nobserved %s → PathUnescape = %s, %v", in, q(got), q(u), err)
		}
		return ok(map[bool]string{true: "escaped", false: "unchanged"}[got != s], got != s)
	}
	out = append(out, str1("QueryEscape", append(append([]string{}, g...), "%", "+", "&", "=", "/", "?", "-", "~", "#", "\x00"), L, checkQE))
	out = append(out, fspace{name: "QueryEscape.bytes", size: 1 + 256 + 65536,
		eval: func(i uint64) res { return checkQE(bytesString(i)) },
		desc: func(i uint64) any { return map[string]any{"s": q(bytesString(i))} }})
	return out
}

// bytesString enumerates "", every 1-byte and every 2-byte string.
func bytesString(i uint64) string {
	switch {
	case i == 0:
		return ""
	case i <= 256:
		return string([]byte{byte(i - 1)})
	}
	i -= 257
	return string([]byte{byte(i >> 8), byte(i)})
}

func isHex(c byte) bool {
	return '0' <= c && c <= '9' || 'a' <= c && c <= 'f' || 'A' <= c && c <= 'F'
}
