package main

import (
	"encoding/json"
	"fmt"
	"math"
	"os/exec"
	"regexp"
	"strconv"
	"strings"
	"sync"
	"time"

	"verif/kit"

	"github.com/open2b/scriggo/builtin"
)

// sameTime compares a builtin.Time with a time.Time through the public methods.
func sameTime(g builtin.Time, w time.Time) bool {
	return g.Unix() == w.Unix() && g.Nanosecond() == w.Nanosecond() && g.String() == w.String()
}

// jsDate is an independent reading of the ECMAScript date-time string format
// (ECMA-262 21.4.1.32): YYYY-MM-DDTHH:mm:ss.sssZ with YYYY or ±YYYYYY and an
// offset Z or ±HH:mm. It returns the time value in milliseconds.
var jsDateRE = regexp.MustCompile(`^(\d{4}|[+-]\d{6})-(\d{2})-(\d{2})T(\d{2}):(\d{2})(?::(\d{2})(?:\.(\d{1,9}))?)?(Z|[+-]\d{2}:\d{2})$`)

var jsArgRE = regexp.MustCompile(`^new Date\("([^"\\]*)"\)$`)

// jsDate reads the expression new Date("…").
func jsDate(expr string) (ms int64, ok bool) {
	m := jsArgRE.FindStringSubmatch(expr)
	if m == nil {
		return 0, false
	}
	return jsDateString(m[1])
}

// jsDateString reads a date-time string (with a time zone designator).
func jsDateString(str string) (ms int64, ok bool) {
	m := jsDateRE.FindStringSubmatch(str)
	if m == nil || m[1] == "-000000" {
		return 0, false
	}
	n := func(s string) int { v, _ := strconv.Atoi(s); return v }
	year, mon, day, hh, mm, ss := n(m[1]), n(m[2]), n(m[3]), n(m[4]), n(m[5]), n(m[6])
	mil := 0
	if f := m[7]; f != "" {
		mil = n((f + "00")[:3]) // milliseconds, further digits are truncated
	}
	if mon < 1 || mon > 12 || day < 1 || day > 31 || hh > 24 || mm > 59 || ss > 59 || hh == 24 && (mm != 0 || ss != 0 || mil != 0) {
		return 0, false
	}
	off := 0
	if m[8] != "Z" {
		oh, om := n(m[8][1:3]), n(m[8][4:6])
		if oh > 23 || om > 59 {
			return 0, false
		}
		off = (oh*60 + om) * 60
		if m[8][0] == '-' {
			off = -off
		}
	}
	t := time.Date(year, time.Month(mon), day, hh, mm, ss, mil*1e6, time.UTC)
	if hh < 24 && t.Day() != day { // e.g. February 30: invalid in ECMAScript
		return 0, false
	}
	return t.UnixMilli() - int64(off)*1000, true
}

type namedTime struct {
	name string
	t    time.Time
}

func sampleTimes() []namedTime {
	rome, _ := time.LoadLocation("Europe/Rome")
	if rome == nil {
		rome = time.FixedZone("CET", 3600)
	}
	z := func(name string, off int) *time.Location { return time.FixedZone(name, off) }
	return []namedTime{
		{"zero", time.Time{}},
		{"epoch UTC", time.Unix(0, 0).UTC()},
		{"2021-03-27 11:21:14.964553705 Europe/Rome", time.Date(2021, 3, 27, 11, 21, 14, 964553705, rome)},
		{"2021-07-01 00:00:00 Europe/Rome (DST)", time.Date(2021, 7, 1, 0, 0, 0, 0, rome)},
		{"1969-12-31 23:59:59.999 UTC", time.Date(1969, 12, 31, 23, 59, 59, 999e6, time.UTC)},
		{"2000-02-29 12:00 +05:30", time.Date(2000, 2, 29, 12, 0, 0, 0, z("IST", 19800))},
		{"2000-02-29 12:00 -03:30", time.Date(2000, 2, 29, 12, 0, 0, 1e6, z("NST", -12600))},
		{"2021-01-01 10:00 -00:30", time.Date(2021, 1, 1, 10, 0, 0, 0, z("", -1800))},
		{"2021-01-01 10:00 +00:30", time.Date(2021, 1, 1, 10, 0, 0, 0, z("", 1800))},
		{"2021-01-01 10:00 -01:00", time.Date(2021, 1, 1, 10, 0, 0, 0, z("", -3600))},
		{"2021-01-01 10:00 +00:00 named GMT", time.Date(2021, 1, 1, 10, 0, 0, 0, z("GMT", 0))},
		{"year 0 UTC", time.Date(0, 1, 1, 0, 0, 0, 0, time.UTC)},
		{"year -1 UTC", time.Date(-1, 12, 31, 23, 0, 0, 0, time.UTC)},
		{"year 9999 UTC", time.Date(9999, 12, 31, 23, 59, 59, 999999999, time.UTC)},
		{"year 10000 UTC", time.Date(10000, 1, 1, 0, 0, 0, 0, time.UTC)},
		{"year 10000 +01:00", time.Date(10000, 1, 1, 0, 0, 0, 0, z("", 3600))},
		{"year -200000 UTC", time.Date(-200000, 6, 15, 1, 2, 3, 4e6, time.UTC)},
		{"year 200000 -03:30", time.Date(200000, 6, 15, 1, 2, 3, 4e6, z("", -12600))},
	}
}

var durations = []time.Duration{math.MinInt64, -time.Hour, -1, 0, 1, time.Millisecond, 90 * time.Minute, 24 * time.Hour, math.MaxInt64}

func timeSpaces(thorough bool) []fspace {
	L := 3
	if thorough {
		L = 4
	}
	var out []fspace

	// Date: error iff the location does not exist, otherwise time.Date
	years := []int{math.MinInt, -1, 0, 1, 2021, 9999, 10000, math.MaxInt}
	months := []int{math.MinInt, -1, 0, 1, 12, 13, math.MaxInt}
	days := []int{-1, 0, 1, 31, 32, math.MaxInt}
	hours := []int{-1, 0, 23, 24}
	mins := []int{0, 60}
	secs := []int{0, -1}
	nsecs := []int{0, 999999999, 1000000000, -1}
	locs := []string{"", "UTC", "Local", "Europe/Rome", "Nowhere/X", "../x", "\xff", "utc", "America/St_Johns"}
	rad := []uint64{uint64(len(years)), uint64(len(months)), uint64(len(days)), uint64(len(hours)), uint64(len(mins)), uint64(len(secs)), uint64(len(nsecs)), uint64(len(locs))}
	out = append(out, fspace{name: "Date", size: kit.Product(rad...),
		eval: func(i uint64) res {
			d := kit.Mixed(i, rad...)
			y, mo, da, h, mi, s, ns, loc := years[d[0]], months[d[1]], days[d[2]], hours[d[3]], mins[d[4]], secs[d[5]], nsecs[d[6]], locs[d[7]]
			in := fmt.Sprintf("Date(%d, %d, %d, %d, %d, %d, %d, %s)", y, mo, da, h, mi, s, ns, q(loc))
			type r struct {
				t   builtin.Time
				err error
			}
			g, p := try(func() r { t, err := builtin.Date(y, mo, da, h, mi, s, ns, loc); return r{t, err} })
			if p {
				return unexpectedPanic(func() { builtin.Date(y, mo, da, h, mi, s, ns, loc) }, in)
			}
			l, lerr := time.LoadLocation(loc)
			if (g.err == nil) != (lerr == nil) {
				return bad("error-does-not-match-the-existence-of-the-location", "input %s\nexpected %s\nobserved %s", in, errStr(lerr), errStr(g.err))
			}
			if g.err != nil {
				return ok("unknown-location-error", true)
			}
			if w := time.Date(y, time.Month(mo), da, h, mi, s, ns, l); !sameTime(g.t, w) {
				return bad("differs-from-time.Date", "input %s\nexpected %v\nobserved %v", in, w, g.t)
			}
			return ok("time", true)
		},
		desc: func(i uint64) any {
			d := kit.Mixed(i, rad...)
			return map[string]any{"year": years[d[0]], "month": months[d[1]], "day": days[d[2]], "hour": hours[d[3]], "min": mins[d[4]], "sec": secs[d[5]], "nsec": nsecs[d[6]], "location": q(locs[d[7]])}
		}})

	// ParseDuration
	{
		en := kit.NewStringsUpTo([]string{"1", "9", ".", "h", "m", "s", "n", "u", "µ", "-", "+", " ", "0"}, L+1)
		big := []string{"2562047h47m16.854775807s", "2562047h47m16.854775808s", "-2562047h47m16.854775808s", "9223372036854775808ns", "0.9223372036854775808h", "1e3s"}
		total := en.Size() + uint64(len(big))
		at := func(i uint64) string {
			if i < en.Size() {
				return en.At(i)
			}
			return big[i-en.Size()]
		}
		out = append(out, fspace{name: "ParseDuration", size: total,
			eval: func(i uint64) res {
				s := at(i)
				in := "ParseDuration(" + q(s) + ")"
				type r struct {
					d   builtin.Duration
					err error
				}
				g, p := try(func() r { d, err := builtin.ParseDuration(s); return r{d, err} })
				if p {
					return unexpectedPanic(func() { builtin.ParseDuration(s) }, in)
				}
				w, werr := time.ParseDuration(s)
				if (g.err == nil) != (werr == nil) || g.err == nil && g.d != w || g.err != nil && g.d != 0 {
					return bad("differs-from-time.ParseDuration", "input %s\nexpected %v, %v\nobserved %v, %v", in, w, werr, g.d, g.err)
				}
				if g.err == nil {
					return ok("parsed", true)
				}
				return ok("error", false)
			},
			desc: func(i uint64) any { return map[string]any{"s": q(at(i))} }})
	}

	// ParseTime with an explicit layout: time.Parse
	{
		layouts := kit.NewStringsUpTo([]string{"2006", "06", "01", "1", "Jan", "02", "2", "_2", "002", "15", "03", "04", "05", "PM", "MST", "-0700", "Z07:00", ".000", ".999", "-", ":", " ", "T", "x"}, 2)
		values := kit.NewStringsUpTo([]string{"2021", "21", "12", "13", "1", "0", "00", "Feb", "31", "30", "366", "PM", "UTC", "CET", "+0100", "Z", "-00:30", ".123", ",5", "-", ":", " ", "T", "x", "\xff"}, 2)
		nl := layouts.Size() - 1 // layout "" is the next space
		out = append(out, fspace{name: "ParseTime", size: nl * values.Size(),
			eval: func(i uint64) res {
				x, y := pair(i, nl)
				layout, value := layouts.At(x+1), values.At(y)
				in := fmt.Sprintf("ParseTime(%s, %s)", q(layout), q(value))
				type r struct {
					t   builtin.Time
					err error
				}
				g, p := try(func() r { t, err := builtin.ParseTime(layout, value); return r{t, err} })
				if p {
					return unexpectedPanic(func() { builtin.ParseTime(layout, value) }, in)
				}
				w, werr := time.Parse(layout, value)
				if (g.err == nil) != (werr == nil) {
					return bad("error-differs-from-time.Parse", "input %s\nexpected %s\nobserved %s", in, errStr(werr), errStr(g.err))
				}
				if g.err == nil && !sameTime(g.t, w) {
					return bad("time-differs-from-time.Parse", "input %s\nexpected %v\nobserved %v", in, w, g.t)
				}
				if g.err == nil {
					return ok("parsed", true)
				}
				return ok("error", false)
			},
			desc: func(i uint64) any {
				x, y := pair(i, nl)
				return map[string]any{"layout": q(layouts.At(x + 1)), "value": q(values.At(y))}
			}})

		// ParseTime with the empty layout: predefined layouts; an error for anything that cannot be parsed, never a panic
		full := []string{"2021-03-27T11:21:14Z", "2021-03-27T11:21:14+01:00", "2021-03-27T11:21:14", "2021-03-27", "27 Mar 2021", "3:04PM", "Sat, 27 Mar 2021 11:21:14 +0100", "Sat Mar 27 11:21:14 2021", "2021-03-27 11:21:14.964553705 +0100 CET", "Mar 27 11:21:14.000", "2021-02-30", "2021-03-27T25:00:00Z"}
		nf := uint64(len(full))
		out = append(out, fspace{name: "ParseTime.auto", size: nf + values.Size(),
			eval: func(i uint64) res {
				var value string
				if i < nf {
					value = full[i]
				} else {
					value = values.At(i - nf)
				}
				in := fmt.Sprintf("ParseTime(\"\", %s)", q(value))
				type r struct {
					t   builtin.Time
					err error
				}
				g, p := try(func() r { t, err := builtin.ParseTime("", value); return r{t, err} })
				if p {
					return unexpectedPanic(func() { builtin.ParseTime("", value) }, in)
				}
				// an RFC 3339 value is a time representation every reader agrees on
				if w, werr := time.Parse(time.RFC3339, value); werr == nil && (g.err != nil || !sameTime(g.t, w)) {
					return bad("RFC3339-value-not-parsed-as-such", "input %s\nexpected %v\nobserved %v, %v", in, w, g.t, g.err)
				}
				if g.err != nil && !g.t.IsZero() {
					return bad("non-zero-time-with-an-error", "input %s\nobserved %v, %v", in, g.t, g.err)
				}
				if g.err == nil {
					return ok("parsed", true)
				}
				return ok("error", false)
			},
			desc: func(i uint64) any {
				if i < nf {
					return map[string]any{"layout": `""`, "value": q(full[i])}
				}
				return map[string]any{"layout": `""`, "value": q(values.At(i - nf))}
			}})
	}

	// UnixTime and Now
	{
		vals := []int64{math.MinInt64, -1e18, -1, 0, 1, 999999999, 1e9, 1616840474, 1 << 62, math.MaxInt64}
		n := uint64(len(vals))
		out = append(out, fspace{name: "UnixTime", size: n*n + 1,
			eval: func(i uint64) res {
				if i == n*n {
					before := builtin.NewTime(time.Now())
					t, p := try(builtin.Now)
					after := builtin.NewTime(time.Now())
					if p {
						return unexpectedPanic(func() { builtin.Now() }, "Now()")
					}
					if t.Sub(before) < 0 || after.Sub(t) < 0 {
						return bad("Now-is-not-between-two-clock-readings", "before %v now %v after %v", before, t, after)
					}
					return ok("now", true)
				}
				sec, nsec := vals[i%n], vals[i/n]
				in := fmt.Sprintf("UnixTime(%d, %d)", sec, nsec)
				g, p := try(func() builtin.Time { return builtin.UnixTime(sec, nsec) })
				if p {
					return unexpectedPanic(func() { builtin.UnixTime(sec, nsec) }, in)
				}
				if w := time.Unix(sec, nsec); !sameTime(g, w) {
					return bad("differs-from-time.Unix", "input %s\nexpected %v\nobserved %v", in, w, g)
				}
				return ok("time", true)
			},
			desc: func(i uint64) any {
				if i == n*n {
					return "Now()"
				}
				return map[string]any{"sec": vals[i%n], "nsec": vals[i/n]}
			}})
	}

	// Time methods: every sample time × every other sample time / duration / small date offsets
	times := sampleTimes()
	nT := uint64(len(times))
	fmtLayouts := []string{"", "2006-01-02T15:04:05.999999999Z07:00", "Mon Jan _2 3:04PM MST -0700", "06 1 2 002 .000 ,999 Z0700", "x\xff", time.RFC1123Z, time.Kitchen}
	offs := []int{-13, -1, 0, 1, 12, 400}
	out = append(out, fspace{name: "Time.methods", size: nT * nT,
		eval: func(i uint64) res {
			a, b := times[i%nT], times[i/nT]
			t, u := builtin.NewTime(a.t), builtin.NewTime(b.t)
			in := fmt.Sprintf("t = NewTime(%s), u = NewTime(%s)", a.name, b.name)
			var failure res
			check := func(method string, f func() (got, want any)) bool {
				type gw struct{ g, w any }
				v, p := try(func() gw { g, w := f(); return gw{g, w} })
				if p {
					failure = unexpectedPanic(func() { f() }, in+": "+method)
					return false
				}
				if !deepEq(v.g, v.w) {
					failure = bad(method+"|differs-from-time.Time", "input %s: t.%s\nexpected %v\nobserved %v", in, method, v.w, v.g)
					return false
				}
				return true
			}
			str := func(x builtin.Time) string { return x.String() }
			okAll := check("After", func() (any, any) { return t.After(u), a.t.After(b.t) }) &&
				check("Before", func() (any, any) { return t.Before(u), a.t.Before(b.t) }) &&
				check("Equal", func() (any, any) { return t.Equal(u), a.t.Equal(b.t) }) &&
				check("Sub", func() (any, any) { return t.Sub(u), a.t.Sub(b.t) }) &&
				check("Clock", func() (any, any) {
					h, m, s := t.Clock()
					h2, m2, s2 := a.t.Clock()
					return [3]int{h, m, s}, [3]int{h2, m2, s2}
				}) &&
				check("Date", func() (any, any) {
					y, m, d := t.Date()
					y2, m2, d2 := a.t.Date()
					return [3]int{y, m, d}, [3]int{y2, int(m2), d2}
				}) &&
				check("Year/Month/Day/Hour/Minute/Second/Nanosecond/Weekday/YearDay", func() (any, any) {
					return [9]int{t.Year(), t.Month(), t.Day(), t.Hour(), t.Minute(), t.Second(), t.Nanosecond(), t.Weekday(), t.YearDay()},
						[9]int{a.t.Year(), int(a.t.Month()), a.t.Day(), a.t.Hour(), a.t.Minute(), a.t.Second(), a.t.Nanosecond(), int(a.t.Weekday()), a.t.YearDay()}
				}) &&
				check("IsZero/Unix/UnixNano", func() (any, any) {
					return [3]any{t.IsZero(), t.Unix(), t.UnixNano()}, [3]any{a.t.IsZero(), a.t.Unix(), a.t.UnixNano()}
				}) &&
				check("String", func() (any, any) { return t.String(), a.t.String() }) &&
				check("UTC", func() (any, any) { return str(t.UTC()), a.t.UTC().String() })
			for _, d := range durations {
				d := d
				okAll = okAll && check("Add", func() (any, any) { return str(t.Add(d)), a.t.Add(d).String() }) &&
					check("Round", func() (any, any) { return str(t.Round(d)), a.t.Round(d).String() }) &&
					check("Truncate", func() (any, any) { return str(t.Truncate(d)), a.t.Truncate(d).String() })
			}
			for _, l := range fmtLayouts {
				l := l
				okAll = okAll && check("Format", func() (any, any) { return t.Format(l), a.t.Format(l) })
			}
			if i/nT < uint64(len(offs)) { // AddDate with every triple of offsets, spread over the u dimension
				for _, mo := range offs {
					for _, da := range offs {
						y, mo, da := offs[i/nT], mo, da
						okAll = okAll && check("AddDate", func() (any, any) { return str(t.AddDate(y, mo, da)), a.t.AddDate(y, mo, da).String() })
					}
				}
			}
			if !okAll {
				return failure
			}
			return res{class: "agrees-with-time.Time", nontrivial: true, ops: 60}
		},
		desc: func(i uint64) any { return map[string]any{"t": times[i%nT].name, "u": times[i/nT].name} }})

	// Time.JS and Time.JSON
	out = append(out, fspace{name: "Time.JS", size: nT,
		eval: func(i uint64) res {
			a := times[i]
			t := builtin.NewTime(a.t)
			in := "NewTime(" + a.name + ").JS()"
			g, p := try(func() string { return string(t.JS()) })
			if p {
				return unexpectedPanic(func() { t.JS() }, in)
			}
			ms, valid := jsDate(g)
			if !valid {
				return bad("not-a-valid-ECMAScript-date-time-string", "input %s\nobserved %s", in, g)
			}
			if want := a.t.UnixMilli(); ms != want {
				return bad("JavaScript-date-is-another-instant", "input %s (Unix ms %d)\nobserved %s which is Unix ms %d (differs by %d ms)", in, want, g, ms, ms-want)
			}
			_, off := a.t.Zone()
			return ok(map[bool]string{true: "utc", false: "offset"}[off == 0], true)
		},
		desc: func(i uint64) any { return map[string]any{"t": times[i].name} }})
	out = append(out, fspace{name: "Time.JSON", size: nT,
		eval: func(i uint64) res {
			a := times[i]
			t := builtin.NewTime(a.t)
			in := "NewTime(" + a.name + ").JSON()"
			g, p := try(func() string { return string(t.JSON()) })
			if p {
				return unexpectedPanic(func() { t.JSON() }, in)
			}
			var s string
			if err := json.Unmarshal([]byte(g), &s); err != nil {
				return bad("not-a-JSON-string", "input %s\nobserved %s", in, g)
			}
			if y := a.t.Year(); y < 0 || y > 9999 {
				return ok("year-outside-RFC3339", false)
			}
			back, err := time.Parse(time.RFC3339, s)
			if err != nil || back.Unix() != a.t.Unix() {
				return bad("does-not-parse-back-as-RFC3339-to-the-same-second", "input %s\nobserved %s → %v, %v", in, g, back, err)
			}
			return ok("rfc3339", true)
		},
		desc: func(i uint64) any { return map[string]any{"t": times[i].name} }})
	out = append(out, timeZoneSpaces(thorough)...)
	return out
}

// ---- Time methods over the full domain of zone offsets ----
//
// Every zone offset in seconds from -14h to +14h (offsets between -00:59 and
// -00:01 and offsets that are not whole minutes included, as in LMT zones such
// as Africa/Monrovia before 1972) × instants in years <= 0, 1, 1970, 2021,
// 9999, >= 10000. JS() and JSON() are read with the Go implementation of the
// ECMAScript date-time string grammar (jsDate) AND evaluated by /usr/bin/node
// in one batch; both must give the instant of t.

// nodeDates splits the strings over 8 concurrent node processes.
func nodeDates(strs []string) []float64 {
	const parts = 8
	out := make([]float64, len(strs))
	var wg sync.WaitGroup
	errs := make([]any, parts)
	for k := 0; k < parts; k++ {
		lo, hi := len(strs)*k/parts, len(strs)*(k+1)/parts
		if lo == hi {
			continue
		}
		wg.Add(1)
		go func(k, lo, hi int) {
			defer wg.Done()
			defer func() { errs[k] = recover() }()
			copy(out[lo:hi], nodeDatesChunk(strs[lo:hi]))
		}(k, lo, hi)
	}
	wg.Wait()
	for _, e := range errs {
		if e != nil {
			panic(e)
		}
	}
	return out
}

var zoneInstants = []struct {
	name string
	t    time.Time
}{
	{"-0005-06-15T12:30:45.678Z", time.Date(-5, 6, 15, 12, 30, 45, 678e6, time.UTC)},
	{"0000-01-01T00:00:00Z", time.Date(0, 1, 1, 0, 0, 0, 0, time.UTC)},
	{"1970-01-01T00:00:00Z", time.Unix(0, 0).UTC()},
	{"2021-03-27T11:21:14.964Z", time.Date(2021, 3, 27, 11, 21, 14, 964e6, time.UTC)},
	{"9999-12-31T23:59:59.999Z", time.Date(9999, 12, 31, 23, 59, 59, 999e6, time.UTC)},
	{"12345-01-01T00:00:00Z", time.Date(12345, 1, 1, 0, 0, 0, 0, time.UTC)},
}

const zoneMin, zoneMax = -14 * 3600, 14 * 3600

// zoneCase decodes an index: the first block has zone name "" and every
// offset; the second block has the zone NAME "UTC" (time.Parse builds such a
// zone for "+0100 UTC") with every multiple of 15 minutes.
func zoneCase(i uint64) (inst int, name string, off int) {
	nI := uint64(len(zoneInstants))
	nOff := uint64(zoneMax - zoneMin + 1)
	if i < nOff*nI {
		return int(i % nI), "", zoneMin + int(i/nI)
	}
	i -= nOff * nI
	return int(i % nI), "UTC", zoneMin + int(i/nI)*900
}

func zoneCases() uint64 {
	return uint64(zoneMax-zoneMin+1)*uint64(len(zoneInstants)) + uint64((zoneMax-zoneMin)/900+1)*uint64(len(zoneInstants))
}

func zoneTime(i uint64) time.Time {
	inst, name, off := zoneCase(i)
	return zoneInstants[inst].t.In(time.FixedZone(name, off))
}

// nodeDatesChunk evaluates new Date(s).getTime() for every string with one node process.
func nodeDatesChunk(strs []string) []float64 {
	const script = `const rl=require('readline').createInterface({input:process.stdin,terminal:false,crlfDelay:Infinity});
const out=[];rl.on('line',l=>{out.push(String(new Date(l).getTime()));if(out.length>=65536){process.stdout.write(out.join('\n')+'\n');out.length=0}});
rl.on('close',()=>{if(out.length)process.stdout.write(out.join('\n')+'\n')});`
	cmd := exec.Command("/usr/bin/node", "-e", script)
	cmd.Stdin = strings.NewReader(strings.Join(strs, "\n") + "\n")
	b, err := cmd.Output()
	if err != nil {
		panic("C25: cannot run /usr/bin/node for the Time.zones oracle: " + err.Error())
	}
	lines := strings.Split(strings.TrimRight(string(b), "\n"), "\n")
	if len(lines) != len(strs) {
		panic(fmt.Sprintf("C25: node returned %d results for %d dates", len(lines), len(strs)))
	}
	out := make([]float64, len(lines))
	for i, l := range lines {
		if l == "NaN" {
			out[i] = math.NaN()
			continue
		}
		v, err := strconv.ParseFloat(l, 64)
		if err != nil {
			panic("C25: node output " + l)
		}
		out[i] = v
	}
	return out
}

// nodeChecked reports whether case i is cross-checked with node: in the quick
// tier every whole-minute offset and every offset within one hour of zero (node
// needs ~12 µs per date), in the thorough tier every case.
func nodeChecked(i uint64, thorough bool) bool {
	_, _, off := zoneCase(i)
	return thorough || off%60 == 0 || -3600 <= off && off <= 3600
}

type zoneOracle struct {
	once     sync.Once
	thorough bool
	js, json map[uint64]float64
}

func (z *zoneOracle) load() {
	n := zoneCases()
	var idx []uint64
	var strs []string
	for i := uint64(0); i < n; i++ {
		if !nodeChecked(i, z.thorough) {
			continue
		}
		t := builtin.NewTime(zoneTime(i))
		js := "not a new Date expression"
		if m := jsArgRE.FindStringSubmatch(string(t.JS())); m != nil {
			js = m[1]
		}
		var s string
		if json.Unmarshal([]byte(t.JSON()), &s) != nil || strings.ContainsAny(s, "\n\r") {
			s = "not a JSON string"
		}
		idx = append(idx, i)
		strs = append(strs, js, s)
	}
	r := nodeDates(strs)
	z.js, z.json = make(map[uint64]float64, len(idx)), make(map[uint64]float64, len(idx))
	for k, i := range idx {
		z.js[i], z.json[i] = r[2*k], r[2*k+1]
	}
}

// agree panics (harness error) when the Go reading of a date string and node differ.
func agree(what, str string, ms int64, valid bool, node float64) {
	if valid != !math.IsNaN(node) || valid && float64(ms) != node {
		panic(fmt.Sprintf("C25 oracle disagreement on %s %q: Go reading = %d,%v node = %v", what, str, ms, valid, node))
	}
}

func timeZoneSpaces(thorough bool) []fspace {
	n := zoneCases()
	z := &zoneOracle{thorough: thorough}
	classes := func(i uint64) (w time.Time, in, offClass, yearClass string) {
		inst, name, off := zoneCase(i)
		w = zoneTime(i)
		in = fmt.Sprintf("t = NewTime(%s in time.FixedZone(%q, %d))", zoneInstants[inst].name, name, off)
		offClass = "whole-minute-offset"
		if off%60 != 0 {
			offClass = "offset-with-seconds"
		}
		if name == "UTC" && off != 0 {
			offClass = "zone-named-UTC-with-an-offset"
		}
		yearClass = "year-0..9999"
		if y := w.Year(); y < 0 || y > 9999 {
			yearClass = "year-outside-0..9999"
		}
		return
	}
	desc := func(i uint64) any {
		inst, name, off := zoneCase(i)
		return map[string]any{"instant": zoneInstants[inst].name, "zone_name": name, "zone_offset_seconds": off}
	}
	jsSpace := fspace{name: "Time.JS.zones", size: n, desc: desc,
		eval: func(i uint64) res {
			w, in, offClass, yearClass := classes(i)
			t := builtin.NewTime(w)
			// std wrappers
			if g, p := try(func() [3]string { return [3]string{t.String(), t.Format(time.RFC3339Nano), t.Format(time.RFC1123Z)} }); p {
				return unexpectedPanic(func() { _ = t.String(); t.Format(time.RFC3339Nano) }, in)
			} else if g != [3]string{w.String(), w.Format(time.RFC3339Nano), w.Format(time.RFC1123Z)} {
				return bad("String/Format-differs-from-time.Time", "input %s\nobserved %q", in, g)
			}
			js, p := try(func() string { return string(t.JS()) })
			if p {
				return unexpectedPanic(func() { t.JS() }, in+".JS()")
			}
			want := w.UnixMilli()
			ms, valid := jsDate(js)
			if nodeChecked(i, thorough) {
				z.once.Do(z.load)
				agree("JS()", js, ms, valid, z.js[i])
			}
			if !valid {
				return bad("not-a-valid-new-Date-argument|"+yearClass, "input %s.JS()\nobserved %s (Invalid Date)", in, js)
			}
			if ms != want {
				return bad("JavaScript-date-is-another-instant|"+offClass, "input %s.JS() (Unix ms %d)\nobserved %s which JavaScript evaluates to Unix ms %d (differs by %d ms)", in, want, js, ms, ms-want)
			}
			return ok(offClass+","+yearClass, true)
		}}
	jsonSpace := fspace{name: "Time.JSON.zones", size: n, desc: desc,
		eval: func(i uint64) res {
			w, in, offClass, yearClass := classes(i)
			t := builtin.NewTime(w)
			j, p := try(func() string { return string(t.JSON()) })
			if p {
				return unexpectedPanic(func() { t.JSON() }, in+".JSON()")
			}
			var s string
			if err := json.Unmarshal([]byte(j), &s); err != nil {
				return bad("not-a-JSON-string", "input %s.JSON()\nobserved %s", in, j)
			}
			ms, valid := jsDateString(s)
			if nodeChecked(i, thorough) {
				z.once.Do(z.load)
				agree("JSON()", s, ms, valid, z.json[i])
			}
			if !valid {
				return bad("string-is-not-a-date-JavaScript-can-parse|"+yearClass, "input %s.JSON()\nobserved %s: new Date(%s) is Invalid Date (JS() of the same value is %s)", in, j, j, t.JS())
			}
			if ms != w.Unix()*1000 {
				return bad("string-denotes-another-instant|"+offClass, "input %s.JSON() (Unix s %d)\nobserved %s which JavaScript evaluates to Unix ms %d (differs by %d s)", in, w.Unix(), j, ms, ms/1000-w.Unix())
			}
			return ok(offClass+","+yearClass, true)
		}}
	return []fspace{jsSpace, jsonSpace}
}
