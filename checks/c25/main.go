// C25 — builtin functions honour their documentation and never panic instead
// of erroring.
//
// One space per exported function (or method group) of package builtin. Every
// space is a complete enumeration of small arguments built from the alphabets
// below; the oracle of each function is derived from its doc comment:
//
//   - functions that return an error must not panic;
//   - functions documented with "It panics if ..." must panic exactly in the
//     documented case;
//   - thin wrappers of the standard library must equal the std function;
//   - QueryEscape, Abbreviate, Capitalize, CapitalizeAll, ToKebab and the
//     search helpers are compared with independent definitions.
//
// Files: main.go (framework, alphabets), strs.go (strings), nums.go (numbers,
// crypto, encoding), jsonyaml.go, timefn.go, misc.go (regexp, sort, reverse,
// sprint, form data).
package main

import (
	"fmt"
	"math"
	"reflect"
	"runtime/debug"
	"strconv"
	"strings"

	"verif/kit"
)

// ---- alphabets (shared) ----

// general strings
var alphaGen = []string{"a", "A", " ", ".", ",", "é", "ß", "\xff", "\n", "_", "1"}

// case helpers: alphaGen plus runes whose upper case has another UTF-8 width
// (ı→I 2→1 bytes, ɐ→Ɐ 2→3 bytes), a digraph with a title case (ǆ) and '-'.
var alphaCase = []string{"a", "A", " ", ".", ",", "é", "ß", "\xff", "\n", "_", "1", "ı", "ɐ", "ǆ", "-"}

// longer strings for the functions that walk runes: a 2-byte letter (é), runes
// whose upper case is shorter (ı) or longer (ɐ) in UTF-8, a 4-byte lower-case
// letter without case mapping (𝐚), an upper-case letter, 2- and 3-byte
// separators (NBSP, EM SPACE), an ASCII separator and invalid bytes.
var alphaCaseLong = []string{"a", "A", " ", "é", "ı", "ɐ", "𝐚", "\u00a0", "\u2003", "\xff", "\xc3"}

// search/trim helpers: 1-, 2- and 3-byte runes, invalid bytes, and the two
// halves of é (0xC3, 0xA9) so that byte-wise and rune-wise matches differ.
var alphaSearchLong = []string{"a", "é", "€", "\xff", "\xc3", "\xa9"}

var ints = []int{math.MinInt, -1, 0, 1, 2, 3, 7, 36, 37, math.MaxInt}

// prefix / indent strings
var alphaIndent = []string{" ", "\t", "\n", "a", "\x7f", "\x80", "\xff"}

// ---- result of one case ----

type res struct {
	class      string // outcome class (histogram)
	nontrivial bool
	key        string // defect key when the case fails ("" = ok)
	detail     string
	ops        int
}

func ok(class string, nontrivial bool) res { return res{class: class, nontrivial: nontrivial} }

func bad(key, format string, args ...any) res {
	return res{class: "fail", nontrivial: true, key: key, detail: fmt.Sprintf(format, args...)}
}

type fspace struct {
	name string
	size uint64
	eval func(i uint64) res
	desc func(i uint64) any
}

func (f fspace) kit() kit.Space {
	return kit.Space{
		Name: f.name,
		Size: f.size,
		Eval: func(i uint64) kit.Outcome {
			r := f.eval(i)
			o := kit.Outcome{OK: r.key == "", Class: f.name + ":" + r.class, Nontrivial: r.nontrivial, Ops: r.ops}
			if r.key != "" {
				o.Key = keyPrefix(f.name) + "|" + r.key
				o.Detail = r.detail
			}
			return o
		},
		Describe: f.desc,
	}
}

// keyPrefix maps a space to the function its keys are about: several spaces
// can explore one function with different alphabets.
func keyPrefix(space string) string {
	for _, sfx := range []string{".words", ".invalid", ".ws", ".data", ".bytes", ".auto", ".utf8", ".zones"} {
		if strings.HasSuffix(space, sfx) {
			return strings.TrimSuffix(space, sfx)
		}
	}
	return space
}

// ---- panics ----

// catch runs f and reports whether it panicked, and with which value.
func catch(f func()) (val any, panicked bool) {
	defer func() {
		if e := recover(); e != nil {
			val, panicked = e, true
		}
	}()
	f()
	return nil, false
}

// panicKey re-runs f (deterministic) to capture the stack of its panic and
// returns "panic|<first scriggo frame>|<normalised message>".
func panicKey(f func()) (key, msg string) {
	var stack string
	var val any
	func() {
		defer func() {
			if e := recover(); e != nil {
				val = e
				stack = string(debug.Stack())
			}
		}()
		f()
	}()
	msg = fmt.Sprint(val)
	return "panic|" + kit.FirstRepoFrame(stack) + "|" + normPanic(val), msg
}

// normPanic normalises a panic value: runtime errors keep their message with
// numbers replaced, other values keep their type and a normalised message.
func normPanic(v any) string {
	s := fmt.Sprint(v)
	if strings.HasPrefix(s, "reflect: call of reflect.Value.") { // "... on map Value": the kind is the input, not the defect
		if i := strings.Index(s, " on "); i > 0 {
			s = s[:i] + " on <kind> Value"
		}
	}
	if i := strings.Index(s, " type: "); i >= 0 { // "cannot marshal type: chan int": the type is the input
		s = s[:i] + " type: <type>"
	}
	if i := strings.IndexAny(s, "\"`"); i >= 0 {
		s = s[:i] + "…" // drop quoted input
	}
	return kit.NormMsg(s)
}

// unexpectedPanic builds the failure for a panic that the documentation does not allow.
func unexpectedPanic(f func(), input string) res {
	k, msg := panicKey(f)
	return bad(k, "input %s\nexpected: no panic (not documented for this input)\nobserved: panic: %s", input, msg)
}

// ---- helpers ----

func q(s string) string { return strconv.Quote(s) }

func isFinite(f float64) bool { return !math.IsNaN(f) && !math.IsInf(f, 0) }

func sameFloat(a, b float64) bool {
	return math.Float64bits(a) == math.Float64bits(b) || math.IsNaN(a) && math.IsNaN(b)
}

func deepEq(a, b any) bool { return reflect.DeepEqual(a, b) }

// pair decodes an index into two sub-indices.
func pair(i, n1 uint64) (uint64, uint64) { return i % n1, i / n1 }

func main() {
	kit.Main(&kit.Check{
		ID:    "C25",
		Level: "model_checking",
		Rule: "one space per exported builtin function/method group; every argument tuple inside the bound is evaluated: general strings = all strings over {a,A,space,.,comma,é,ß,0xFF,\\n,_,1} of length <=3 (thorough <=4), second string arguments one or two atoms shorter; " +
			"case helpers add {ı,ɐ,ǆ,-}; ints = {min,-1,0,1,2,3,7,36,37,max}; prefix/indent = all strings over {space,tab,\\n,a,0x7F,0x80,0xFF} of length <=2; parsers use token alphabets (numbers, durations, time layouts/values, JSON, YAML, regexp syntax); " +
			"QueryEscape also gets every 1- and 2-byte string. Indices of one space are distinct argument tuples. Non-trivial is defined per function (e.g. the string contains a character the function treats specially, a parser accepts the input, a panic is documented); the class histogram is per function",
		Assumptions: []string{
			"arguments longer than the bounds and characters outside the alphabets are not explored",
			"std wrappers are compared with the same std function of the toolchain that builds the check",
			"Capitalize/CapitalizeAll: separators are the non-alphanumeric ASCII characters and Unicode spaces; underscore and digits may or may not count as separators (both readings are accepted); invalid UTF-8 bytes may be kept, replaced by U+FFFD or skipped",
			"Abbreviate: 'almost n runes' is read as 'at most n runes'; a string that is not longer than n runes must come back unchanged except for trailing white space",
			"ParseFloat: only decimal notation is required to be accepted; hexadecimal floats, inf and nan may be rejected or accepted",
			"Sort with a nil less: for int/string/float64(no NaN)/native string types the result must be ascending; for other element types only 'no panic' and 'is a permutation' are required",
			"FormData is explored on a small grammar of requests only (NewFormData needs an *http.Request)",
			"Now() is only checked to lie between two monotonic clock readings",
		},
		Spaces: func(tier string) []kit.Space {
			var out []kit.Space
			for _, f := range allSpaces(tier) {
				out = append(out, f.kit())
			}
			return out
		},
	})
}

func allSpaces(tier string) []fspace {
	thorough := tier == "thorough"
	var out []fspace
	out = append(out, stringSpaces(thorough)...)
	out = append(out, numberSpaces(thorough)...)
	out = append(out, jsonYAMLSpaces(thorough)...)
	out = append(out, timeSpaces(thorough)...)
	out = append(out, miscSpaces(thorough)...)
	return out
}
