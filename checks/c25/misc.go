package main

import (
	"bytes"
	"errors"
	"fmt"
	"math"
	"mime/multipart"
	"net/http"
	"net/url"
	"os"
	"reflect"
	"regexp"
	"sort"
	"strings"

	"verif/kit"

	"github.com/open2b/scriggo/builtin"
	"github.com/open2b/scriggo/native"
)

// ---- Sort / Reverse inputs ----

type sliceCase struct {
	name    string
	make    func() any
	isSlice bool
	natural func(v any) bool // nil: only "permutation, no panic" is required with a nil less
}

func intLists(max int) [][]int {
	en := kit.NewStringsUpTo([]string{"0", "1", "2"}, max)
	var out [][]int
	for i := uint64(0); i < en.Size(); i++ {
		l := []int{}
		for _, a := range en.Atoms(i) {
			l = append(l, a)
		}
		out = append(out, l)
	}
	return out
}

func sliceCases(thorough bool) []sliceCase {
	max := 4
	if thorough {
		max = 6
	}
	var cs []sliceCase
	add := func(name string, mk func() any, isSlice bool, nat func(any) bool) {
		cs = append(cs, sliceCase{name, mk, isSlice, nat})
	}
	for _, l := range intLists(max) {
		l := l
		add(fmt.Sprintf("[]int%v", l), func() any { return append([]int{}, l...) }, true, func(v any) bool { return sort.IntsAreSorted(v.([]int)) })
	}
	strAtoms := []string{"", "a", "B", "é", "aa"}
	for _, l := range intLists(3) {
		for shift := 0; shift < 2; shift++ {
			l, shift := l, shift
			mk := func() []string {
				s := []string{}
				for _, a := range l {
					s = append(s, strAtoms[a+shift*2])
				}
				return s
			}
			add(fmt.Sprintf("[]string%q", mk()), func() any { return mk() }, true, func(v any) bool { return sort.StringsAreSorted(v.([]string)) })
			add(fmt.Sprintf("[]native.HTML%q", mk()), func() any {
				var h []native.HTML
				for _, s := range mk() {
					h = append(h, native.HTML(s))
				}
				return h
			}, true, func(v any) bool {
				h := v.([]native.HTML)
				return sort.SliceIsSorted(h, func(i, j int) bool { return h[i] < h[j] })
			})
		}
	}
	fl := []float64{2, -1, math.Inf(1), 0.5}
	for _, l := range intLists(3) {
		l := l
		add(fmt.Sprintf("[]float64 idx%v of %v", l, fl), func() any {
			f := []float64{}
			for _, a := range l {
				f = append(f, fl[a])
			}
			return f
		}, true, func(v any) bool { return sort.Float64sAreSorted(v.([]float64)) })
	}
	add("[]float64{NaN,1,NaN,0}", func() any { return []float64{math.NaN(), 1, math.NaN(), 0} }, true, nil)
	add("[]bool{true,false,true}", func() any { return []bool{true, false, true} }, true, nil)
	add("[]rune(\"cab\")", func() any { return []rune("cab") }, true, func(v any) bool {
		r := v.([]rune)
		return sort.SliceIsSorted(r, func(i, j int) bool { return r[i] < r[j] })
	})
	add("[]byte(\"cab\")", func() any { return []byte("cab") }, true, func(v any) bool { return string(v.([]byte)) == "abc" })
	add("[]uint16{3,1,2}", func() any { return []uint16{3, 1, 2} }, true, nil)
	add("[]struct{A int;B string}", func() any {
		return []struct {
			A int
			B string
		}{{2, "a"}, {1, "b"}, {1, "a"}}
	}, true, nil)
	add("[][2]int", func() any { return [][2]int{{2, 1}, {1, 2}, {1, 1}} }, true, nil)
	add("[]*int", func() any { a, b := 1, 2; return []*int{&b, nil, &a} }, true, nil)
	// slices of slices: equal and unequal lengths
	ragged := [][]int{nil, {1}, {1, 2}, {2}, {1, 1}}
	for _, l := range intLists(3) {
		for shift := 0; shift < 3; shift++ {
			l, shift := l, shift
			mk := func() [][]int {
				s := [][]int{}
				for _, a := range l {
					s = append(s, ragged[a+shift])
				}
				return s
			}
			add(fmt.Sprintf("[][]int%v", mk()), func() any { return mk() }, true, nil)
		}
	}
	anyAtoms := []any{1, "a", nil, 2.5, 0}
	for _, l := range intLists(3) {
		for shift := 0; shift < 3; shift++ {
			l, shift := l, shift
			mk := func() []any {
				s := []any{}
				for _, a := range l {
					s = append(s, anyAtoms[a+shift])
				}
				return s
			}
			add(fmt.Sprintf("[]any%v", mk()), func() any { return mk() }, true, nil)
		}
	}
	mapAtoms := []func() map[string]int{func() map[string]int { return nil }, func() map[string]int { return map[string]int{} }, func() map[string]int { return map[string]int{"a": 1} }}
	for _, l := range intLists(2) {
		l := l
		add(fmt.Sprintf("[]map[string]int idx%v of [nil,{},{a:1}]", l), func() any {
			s := []map[string]int{}
			for _, a := range l {
				s = append(s, mapAtoms[a]())
			}
			return s
		}, true, nil)
	}
	f1, f2 := func() {}, func() {}
	funcAtoms := []func(){nil, f1, f2}
	for _, l := range intLists(2) {
		l := l
		add(fmt.Sprintf("[]func() idx%v of [nil,f,g]", l), func() any {
			s := []func(){}
			for _, a := range l {
				s = append(s, funcAtoms[a])
			}
			return s
		}, true, nil)
	}
	add("[]chan int", func() any { c := make(chan int); return []chan int{c, nil, c} }, true, nil)
	add("[]error", func() any { return []error{errors.New("b"), nil, errors.New("a")} }, true, nil)
	add("[]int(nil)", func() any { return []int(nil) }, true, nil)
	// not slices: documented panic
	add("int 5", func() any { return 5 }, false, nil)
	add("string", func() any { return "cba" }, false, nil)
	add("[3]int array", func() any { return [3]int{3, 1, 2} }, false, nil)
	add("*[]int", func() any { return &[]int{3, 1, 2} }, false, nil)
	add("map[int]int", func() any { return map[int]int{1: 1} }, false, nil)
	add("(*int)(nil)", func() any { return (*int)(nil) }, false, nil)
	add("struct{}", func() any { return struct{}{} }, false, nil)
	return cs
}

// snapshot copies a slice value (shallow), so that the elements before a call
// can be compared by identity with the elements after it. Non-slices give the
// zero Value.
func snapshot(v any) reflect.Value {
	rv := reflect.ValueOf(v)
	if !rv.IsValid() || rv.Kind() != reflect.Slice {
		return reflect.Value{}
	}
	c := reflect.MakeSlice(rv.Type(), rv.Len(), rv.Len())
	reflect.Copy(c, rv)
	return c
}

// multiset renders the elements of a slice as a sorted list of descriptions.
func multiset(v any) []string {
	rv := reflect.ValueOf(v)
	var out []string
	for i := 0; i < rv.Len(); i++ {
		e := rv.Index(i)
		switch e.Kind() {
		case reflect.Func, reflect.Chan, reflect.Pointer:
			out = append(out, fmt.Sprintf("%s@%x", e.Type(), e.Pointer()))
		case reflect.Map:
			out = append(out, fmt.Sprintf("%v nil=%v", e.Interface(), e.IsNil()))
		case reflect.Interface:
			if !e.IsNil() && e.Elem().Kind() == reflect.Pointer {
				out = append(out, fmt.Sprintf("%s@%x", e.Elem().Type(), e.Elem().Pointer()))
			} else {
				out = append(out, fmt.Sprintf("%#v", e.Interface()))
			}
		default:
			out = append(out, fmt.Sprintf("%#v", e.Interface()))
		}
	}
	sort.Strings(out)
	return out
}

// ---- form data ----

const formTmp = "/var/tmp/verif-c25-formdata"

type reqCase struct {
	method, query, ctype, body string
}

func (r reqCase) String() string {
	return fmt.Sprintf("%s /?%s Content-Type=%q body=%q", r.method, r.query, r.ctype, r.body)
}

func (r reqCase) build() *http.Request {
	req := &http.Request{Method: r.method, URL: &url.URL{Path: "/", RawQuery: r.query}, Header: http.Header{}}
	if r.ctype != "" {
		req.Header.Set("Content-Type", r.ctype)
	}
	req.Body = http.NoBody
	if r.method == "POST" {
		req.Body = readCloser{bytes.NewReader([]byte(r.body))}
		req.ContentLength = int64(len(r.body))
	}
	return req
}

type readCloser struct{ *bytes.Reader }

func (readCloser) Close() error { return nil }

func multipartBody() string {
	var b bytes.Buffer
	w := multipart.NewWriter(&b)
	w.SetBoundary("B")
	w.WriteField("a", "m1")
	w.WriteField("a", "m2")
	fw, _ := w.CreateFormFile("f", "name.txt")
	fw.Write([]byte("content"))
	w.WriteField("z", "")
	w.Close()
	return b.String()
}

func miscSpaces(thorough bool) []fspace {
	L := 3
	if thorough {
		L = 4
	}
	var out []fspace

	// RegExp: panics exactly when the expression cannot be parsed; methods equal regexp.Regexp
	{
		en := kit.NewStringsUpTo([]string{"a", ".", "*", "+", "?", "(", ")", "[", "]", "|", `\`, "^", "$", "{", "}", "1", ",", "é", "\xff", "b"}, L)
		subjects := []string{"", "a", "aa", "ba", "é", "a1b", "\xff", "a\nb"}
		repls := []string{"", "x", "$0", "$1", "${1}x", "$", "$$"}
		counts := []int{-1, 0, 1, 2}
		out = append(out, fspace{name: "RegExp", size: en.Size(),
			eval: func(i uint64) res {
				expr := en.At(i)
				in := "RegExp(" + q(expr) + ")"
				re, p := try(func() builtin.Regexp { return builtin.RegExp(expr) })
				std, err := regexp.Compile(expr)
				switch {
				case p && err == nil:
					return unexpectedPanic(func() { builtin.RegExp(expr) }, in)
				case !p && err != nil:
					return bad("no-panic-for-an-expression-that-cannot-be-parsed", "input %s\nexpected a panic (regexp.Compile: %v)", in, err)
				case p:
					return ok("documented-panic", false)
				}
				ops := 0
				var failure *res
				cmp := func(method string, f func() (got, want any)) {
					if failure != nil {
						return
					}
					ops++
					type gw struct{ g, w any }
					v, p := try(func() gw { g, w := f(); return gw{g, w} })
					if p {
						r := unexpectedPanic(func() { f() }, in+"."+method)
						failure = &r
						return
					}
					if !deepEq(v.g, v.w) {
						r := bad(method+"|differs-from-regexp.Regexp", "input %s.%s\nexpected %#v\nobserved %#v", in, method, v.w, v.g)
						failure = &r
					}
				}
				for _, s := range subjects {
					s := s
					cmp(fmt.Sprintf("Match(%q)", s), func() (any, any) { return re.Match(s), std.MatchString(s) })
					cmp(fmt.Sprintf("Find(%q)", s), func() (any, any) { return re.Find(s), std.FindString(s) })
					cmp(fmt.Sprintf("FindSubmatch(%q)", s), func() (any, any) { return re.FindSubmatch(s), std.FindStringSubmatch(s) })
					for _, n := range counts {
						n := n
						cmp(fmt.Sprintf("FindAll(%q,%d)", s, n), func() (any, any) { return re.FindAll(s, n), std.FindAllString(s, n) })
						cmp(fmt.Sprintf("FindAllSubmatch(%q,%d)", s, n), func() (any, any) { return re.FindAllSubmatch(s, n), std.FindAllStringSubmatch(s, n) })
						cmp(fmt.Sprintf("Split(%q,%d)", s, n), func() (any, any) { return re.Split(s, n), std.Split(s, n) })
					}
					for _, r := range repls {
						r := r
						cmp(fmt.Sprintf("ReplaceAll(%q,%q)", s, r), func() (any, any) { return re.ReplaceAll(s, r), std.ReplaceAllString(s, r) })
					}
					cmp(fmt.Sprintf("ReplaceAllFunc(%q,upper+$1)", s), func() (any, any) {
						f := func(m string) string { return strings.ToUpper(m) + "$1" }
						return re.ReplaceAllFunc(s, f), std.ReplaceAllStringFunc(s, f)
					})
				}
				if failure != nil {
					return *failure
				}
				return res{class: "compiled", nontrivial: true, ops: ops}
			},
			desc: func(i uint64) any { return map[string]any{"expr": q(en.At(i))} }})
	}

	// The zero Regexp value (the type is exported to templates, so `var re Regexp`
	// is possible). The documentation does not define it: the behaviour is only
	// classified, never a failure.
	{
		methods := []struct {
			name string
			call func(re builtin.Regexp)
		}{
			{"Match", func(re builtin.Regexp) { re.Match("a") }},
			{"Find", func(re builtin.Regexp) { re.Find("a") }},
			{"FindAll", func(re builtin.Regexp) { re.FindAll("a", -1) }},
			{"FindAllSubmatch", func(re builtin.Regexp) { re.FindAllSubmatch("a", -1) }},
			{"FindSubmatch", func(re builtin.Regexp) { re.FindSubmatch("a") }},
			{"ReplaceAll", func(re builtin.Regexp) { re.ReplaceAll("a", "b") }},
			{"ReplaceAllFunc", func(re builtin.Regexp) { re.ReplaceAllFunc("a", strings.ToUpper) }},
			{"Split", func(re builtin.Regexp) { re.Split("a", -1) }},
		}
		out = append(out, fspace{name: "Regexp.zero", size: uint64(len(methods)),
			eval: func(i uint64) res {
				pv, p := catch(func() { methods[i].call(builtin.Regexp{}) })
				if p {
					return ok("zero-value-panics: "+kit.NormMsg(fmt.Sprint(pv)), false)
				}
				return ok("zero-value-usable", false)
			},
			desc: func(i uint64) any { return "builtin.Regexp{}." + methods[i].name }})
	}

	// Reverse and Sort
	cases := sliceCases(thorough)
	nC := uint64(len(cases))
	out = append(out, fspace{name: "Reverse", size: nC + 1,
		eval: func(i uint64) res {
			if i == nC {
				if _, p := catch(func() { builtin.Reverse(nil) }); p {
					return unexpectedPanic(func() { builtin.Reverse(nil) }, "Reverse(nil)")
				}
				return ok("nil", false)
			}
			c := cases[i]
			in := "Reverse(" + c.name + ")"
			v := c.make()
			orig := snapshot(v)
			_, p := catch(func() { builtin.Reverse(v) })
			switch {
			case p && c.isSlice:
				return unexpectedPanic(func() { builtin.Reverse(c.make()) }, in)
			case !p && !c.isSlice:
				return bad("no-panic-for-a-value-that-is-not-a-slice", "input %s\nexpected a panic (documented)", in)
			case p:
				return ok("documented-panic", true)
			}
			got := reflect.ValueOf(v)
			n := orig.Len()
			if got.Len() != n {
				return bad("length-changed", "input %s", in)
			}
			for k := 0; k < n; k++ {
				a, b := got.Index(k), orig.Index(n-1-k)
				same := false
				switch a.Kind() {
				case reflect.Func, reflect.Chan, reflect.Pointer:
					same = a.Pointer() == b.Pointer()
				default:
					same = deepEq(a.Interface(), b.Interface()) || fmt.Sprintf("%#v", a.Interface()) == fmt.Sprintf("%#v", b.Interface())
				}
				if !same {
					return bad("not-the-reversed-slice", "input %s\nobserved %v", in, v)
				}
			}
			return ok("reversed", n > 1)
		},
		desc: func(i uint64) any {
			if i == nC {
				return "Reverse(nil)"
			}
			return map[string]any{"slice": cases[i].name}
		}})

	lessKinds := []string{"nil", "index-order-ascending(only for []int/[]string/[]float64)", "always-false"}
	nL := uint64(len(lessKinds))
	out = append(out, fspace{name: "Sort", size: (nC + 1) * nL,
		eval: func(i uint64) res {
			ci, lk := i%(nC+1), i/(nC+1)
			if ci == nC {
				if _, p := catch(func() { builtin.Sort(nil, nil) }); p {
					return unexpectedPanic(func() { builtin.Sort(nil, nil) }, "Sort(nil, nil)")
				}
				return ok("nil", false)
			}
			c := cases[ci]
			v := c.make()
			var less func(i, j int) bool
			checkLess := false
			switch lk {
			case 1:
				switch s := v.(type) {
				case []int:
					less, checkLess = func(i, j int) bool { return s[i] > s[j] }, true // descending by content
				case []string:
					less, checkLess = func(i, j int) bool { return s[i] > s[j] }, true
				case []float64:
					less, checkLess = func(i, j int) bool { return s[i] > s[j] }, true
				default:
					return ok("less-kind-not-applicable", false)
				}
			case 2:
				less = func(i, j int) bool { return false }
			}
			in := fmt.Sprintf("Sort(%s, less=%s)", c.name, map[uint64]string{0: "nil", 1: "func(i,j) bool { return s[i] > s[j] }", 2: "func(i,j) bool { return false }"}[lk])
			before := snapshot(v)
			_, p := catch(func() { builtin.Sort(v, less) })
			switch {
			case p && c.isSlice:
				r := unexpectedPanic(func() {
					v2 := c.make()
					var l2 func(i, j int) bool
					if lk == 2 {
						l2 = func(i, j int) bool { return false }
					}
					if lk == 1 {
						switch s := v2.(type) {
						case []int:
							l2 = func(i, j int) bool { return s[i] > s[j] }
						case []string:
							l2 = func(i, j int) bool { return s[i] > s[j] }
						case []float64:
							l2 = func(i, j int) bool { return s[i] > s[j] }
						}
					}
					builtin.Sort(v2, l2)
				}, in)
				return r
			case !p && !c.isSlice:
				return bad("no-panic-for-a-value-that-is-not-a-slice", "input %s\nexpected a panic (documented)", in)
			case p:
				return ok("documented-panic", true)
			}
			if !deepEq(multiset(v), multiset(before.Interface())) {
				return bad("result-is-not-a-permutation-of-the-input", "input %s\nobserved %v", in, v)
			}
			if reflect.ValueOf(v).Len() != before.Len() {
				return bad("length-changed", "input %s", in)
			}
			if lk == 0 && c.natural != nil && !c.natural(v) {
				return bad("not-in-natural-ascending-order", "input %s\nobserved %v", in, v)
			}
			if checkLess {
				sorted := true
				switch s := v.(type) {
				case []int:
					sorted = sort.SliceIsSorted(s, func(i, j int) bool { return s[i] > s[j] })
				case []string:
					sorted = sort.SliceIsSorted(s, func(i, j int) bool { return s[i] > s[j] })
				case []float64:
					sorted = sort.SliceIsSorted(s, func(i, j int) bool { return s[i] > s[j] })
				}
				if !sorted {
					return bad("not-sorted-according-to-less", "input %s\nobserved %v", in, v)
				}
			}
			return ok("sorted:"+lessKinds[lk][:3], reflect.ValueOf(v).Len() > 1)
		},
		desc: func(i uint64) any {
			ci, lk := i%(nC+1), i/(nC+1)
			if ci == nC {
				return "Sort(nil, nil)"
			}
			return map[string]any{"slice": cases[ci].name, "less": lessKinds[lk]}
		}})

	// Sprint / Sprintf
	argAtoms := []func() any{func() any { return 1 }, func() any { return "a" }, func() any { return nil }, func() any { return 2.5 }, func() any { return []int{1} }, func() any { return errors.New("e") }}
	argNames := []string{"1", `"a"`, "nil", "2.5", "[]int{1}", "error(e)"}
	argLists := kit.NewStringsUpTo([]string{"0", "1", "2", "3", "4", "5"}, 3)
	mkArgs := func(i uint64) ([]any, string) {
		var a []any
		var n []string
		for _, k := range argLists.Atoms(i) {
			a = append(a, argAtoms[k]())
			n = append(n, argNames[k])
		}
		return a, strings.Join(n, ", ")
	}
	out = append(out, fspace{name: "Sprint", size: argLists.Size(),
		eval: func(i uint64) res {
			a, n := mkArgs(i)
			g, p := try(func() string { return builtin.Sprint(a...) })
			if p {
				return unexpectedPanic(func() { builtin.Sprint(a...) }, "Sprint("+n+")")
			}
			if w := fmt.Sprint(a...); g != w {
				return bad("differs-from-the-standard-library-function", "input Sprint(%s)\nexpected %q\nobserved %q", n, w, g)
			}
			return ok("formatted", len(a) > 0)
		},
		desc: func(i uint64) any { _, n := mkArgs(i); return map[string]any{"args": n} }})
	{
		formats := kit.NewStringsUpTo([]string{"%", "d", "s", "v", "q", "x", "[1]", "[2]", "*", "5", ".", "a", "+", "#", " ", "!"}, L)
		lists := kit.NewStringsUpTo([]string{"0", "1", "2"}, 2)
		out = append(out, fspace{name: "Sprintf", size: formats.Size() * lists.Size(),
			eval: func(i uint64) res {
				x, y := pair(i, formats.Size())
				format := formats.At(x)
				a, n := mkArgs2(lists.Atoms(y), argAtoms, argNames)
				in := fmt.Sprintf("Sprintf(%q, %s)", format, n)
				g, p := try(func() string { return builtin.Sprintf(format, a...) })
				if p {
					return unexpectedPanic(func() { builtin.Sprintf(format, a...) }, in)
				}
				if w := fmt.Sprintf(format, a...); g != w {
					return bad("differs-from-the-standard-library-function", "input %s\nexpected %q\nobserved %q", in, w, g)
				}
				return ok("formatted", strings.Contains(format, "%"))
			},
			desc: func(i uint64) any {
				x, y := pair(i, formats.Size())
				_, n := mkArgs2(lists.Atoms(y), argAtoms, argNames)
				return map[string]any{"format": q(formats.At(x)), "args": n}
			}})
	}

	// Unsafeconv package: five conversions
	{
		names := []string{"ToHTML", "ToCSS", "ToJS", "ToJSON", "ToMarkdown", "ToXML"}
		en := kit.NewStringsUpTo(alphaGen, 2)
		out = append(out, fspace{name: "Unsafeconv", size: uint64(len(names)) * en.Size(),
			eval: func(i uint64) res {
				x, y := pair(i, uint64(len(names)))
				name, s := names[x], en.At(y)
				d := builtin.Unsafeconv.Lookup(name)
				var got any
				switch f := d.(type) {
				case nil:
					if name == "ToXML" {
						return ok("no-such-declaration", false)
					}
					return bad("declaration-missing", "Unsafeconv.Lookup(%q) = nil", name)
				case func(string) native.HTML:
					got = string(f(s))
				case func(string) native.CSS:
					got = string(f(s))
				case func(string) native.JS:
					got = string(f(s))
				case func(string) native.JSON:
					got = string(f(s))
				case func(string) native.Markdown:
					got = string(f(s))
				default:
					return bad("unexpected-declaration-type", "Unsafeconv.Lookup(%q) = %T", name, d)
				}
				if got != s {
					return bad("conversion-changes-the-string", "input %s(%s)\nobserved %q", name, q(s), got)
				}
				return ok("converted", s != "")
			},
			desc: func(i uint64) any {
				x, y := pair(i, uint64(len(names)))
				return map[string]any{"func": names[x], "s": q(en.At(y))}
			}})
	}

	// FormData: panics only with error values; values equal net/http's own parsing
	{
		// file parts larger than maxMemory go to temporary files: keep them out of /tmp
		os.RemoveAll(formTmp)
		os.MkdirAll(formTmp, 0o755)
		os.Setenv("TMPDIR", formTmp)
		mp := multipartBody()
		methods := []string{"GET", "POST"}
		queries := []string{"", "a=1", "a=1&a=2&b=&c", "a=%zz", "a=1;b=2", "%", "f=q"}
		ctypes := []string{"", "application/x-www-form-urlencoded", "multipart/form-data; boundary=B", "multipart/form-data", "multipart/form-data; boundary=", "text/plain", ";;;", "multipart/form-data; boundary=B; x=\"", "multipart/mixed; boundary=B"}
		bodies := []string{"", "a=3&c=4", "a=%zz", "a=1;b=2", mp, mp[:len(mp)/2], "--B\r\n", "--B\r\nbad header\r\n\r\nx\r\n--B--\r\n", "--B--\r\n", strings.Replace(mp, "name.txt", "", 1)}
		mems := []int64{0, 10, -1, math.MaxInt64}
		seqs := []string{"Value", "Values", "ParseMultipart,File,Files,Value,Values", "ParseMultipart,ParseMultipart,Files", "Value,ParseMultipart,Value,File", "File,Files"}
		rad := []uint64{uint64(len(methods)), uint64(len(queries)), uint64(len(ctypes)), uint64(len(bodies)), uint64(len(mems)), uint64(len(seqs))}
		fields := []string{"a", "b", "c", "f", "z", "nope"}
		out = append(out, fspace{name: "FormData", size: kit.Product(rad...),
			eval: func(i uint64) res {
				d := kit.Mixed(i, rad...)
				rc := reqCase{methods[d[0]], queries[d[1]], ctypes[d[2]], bodies[d[3]]}
				if rc.method == "GET" && (d[3] != 0) {
					return ok("non-canonical(GET with body)", false)
				}
				mem, seq := mems[d[4]], seqs[d[5]]
				in := fmt.Sprintf("NewFormData(%s, %d): %s", rc, mem, seq)
				req := rc.build()
				defer removeTempFiles(req)
				form := builtin.NewFormData(req, mem)
				parsedMultipart := false
				for _, step := range strings.Split(seq, ",") {
					var values map[string][]string
					var value = map[string]string{}
					var files map[string][]builtin.File
					var file = map[string]builtin.File{}
					pv, p := catch(func() {
						switch step {
						case "Value":
							for _, f := range fields {
								value[f] = form.Value(f)
							}
						case "Values":
							values = form.Values()
						case "ParseMultipart":
							form.ParseMultipart()
							parsedMultipart = true
						case "File":
							for _, f := range fields {
								file[f] = form.File(f)
							}
						case "Files":
							files = form.Files()
						}
					})
					if p {
						if step == "File" || step == "Files" {
							return unexpectedPanic(func() { replayForm(rc, mem, seq) }, in)
						}
						if _, isErr := pv.(error); !isErr {
							_, msg := panicKey(func() { replayForm(rc, mem, seq) })
							return bad("panic-value-is-not-an-error", "input %s (step %s)\nexpected: a panic with ErrBadRequest, ErrRequestEntityTooLarge or another error (documented)\nobserved: panic(%T): %s", in, step, pv, msg)
						}
						if _, isRT := pv.(interface{ RuntimeError() }); isRT {
							return unexpectedPanic(func() { replayForm(rc, mem, seq) }, in)
						}
						return ok("documented-panic:"+fmt.Sprint(pv), true)
					}
					switch step {
					case "Files":
						if parsedMultipart && files == nil {
							// "It returns a non nil map, if ParseMultipart has been called" — required when the request is multipart
							ref := rc.build()
							defer removeTempFiles(ref)
							if ref.ParseMultipartForm(mem) == nil {
								return bad("Files-is-nil-after-ParseMultipart-of-a-multipart-request", "input %s", in)
							}
						}
					case "Value":
						vs := form.Values()
						for _, f := range fields {
							want := ""
							if len(vs[f]) > 0 {
								want = vs[f][0]
							}
							if value[f] != want {
								return bad("Value-is-not-the-first-of-Values", "input %s\nValue(%q) = %q, Values()[%q] = %q", in, f, value[f], f, vs[f])
							}
						}
					case "Values":
						// reference: net/http's own parsing of an identical request
						ref := rc.build()
						defer removeTempFiles(ref)
						var err error
						if parsedMultipart {
							if err = ref.ParseMultipartForm(mem); err == http.ErrNotMultipart {
								err = ref.ParseForm()
							}
						} else {
							err = ref.ParseForm()
						}
						if err == nil {
							norm := func(m map[string][]string) map[string][]string {
								o := map[string][]string{}
								for k, v := range m {
									c := append([]string{}, v...)
									sort.Strings(c)
									o[k] = c
								}
								return o
							}
							if want, got := norm(ref.Form), norm(values); !deepEq(want, got) {
								key := "Values-differs-from-the-form-data-parsed-by-net/http"
								if parsedMultipart {
									qv, _ := url.ParseQuery(rc.query)
									for k := range qv {
										if len(got[k]) < len(want[k]) {
											key = "Values-lacks-the-query-parameters-after-ParseMultipart"
										}
									}
								}
								return bad(key, "input %s\nexpected %v (URL query parameters and body form data)\nobserved %v", in, ref.Form, values)
							}
						}
					case "File":
						for _, f := range fields {
							if file[f] != nil {
								fl := file[f]
								if fl.Name() == "" && fl.Size() < 0 {
									return bad("file-with-negative-size", "input %s", in)
								}
							}
						}
					}
				}
				return ok("no-panic", rc.method == "POST")
			},
			desc: func(i uint64) any {
				d := kit.Mixed(i, rad...)
				rc := reqCase{methods[d[0]], queries[d[1]], ctypes[d[2]], bodies[d[3]]}
				return map[string]any{"request": rc.String(), "maxMemory": mems[d[4]], "calls": seqs[d[5]]}
			}})
	}
	return out
}

// removeTempFiles deletes the temporary files net/http created for file parts.
func removeTempFiles(r *http.Request) {
	if r.MultipartForm != nil {
		r.MultipartForm.RemoveAll()
	}
}

// replayForm re-runs a form data case (for the stack of its panic).
func replayForm(rc reqCase, mem int64, seq string) {
	req := rc.build()
	defer removeTempFiles(req)
	form := builtin.NewFormData(req, mem)
	for _, step := range strings.Split(seq, ",") {
		switch step {
		case "Value":
			form.Value("a")
		case "Values":
			form.Values()
		case "ParseMultipart":
			form.ParseMultipart()
		case "File":
			form.File("a")
		case "Files":
			form.Files()
		}
	}
}

func mkArgs2(atoms []int, argAtoms []func() any, argNames []string) ([]any, string) {
	var a []any
	var n []string
	for _, k := range atoms {
		a = append(a, argAtoms[k]())
		n = append(n, argNames[k])
	}
	return a, strings.Join(n, ", ")
}
