package main

// Round 2 of C08: struct tag options, unusual string content in every
// string-bearing position, numbers at the limits of exactness, named types
// and marshaler combinations, and writers that do not copy.

import (
	"bytes"
	"encoding/json"
	"errors"
	"fmt"
	"io"
	"math"
	"math/big"
	"reflect"
	"runtime"
	"strconv"
	"strings"
	"sync"
	"time"
	"unicode/utf8"

	"verif/kit"

	"github.com/open2b/scriggo"
	"github.com/open2b/scriggo/native"
)

// ---- helpers of the oracle ----

func firstInvalid(b []byte) int {
	for i := 0; i < len(b); {
		r, n := utf8.DecodeRune(b[i:])
		if r == utf8.RuneError && n == 1 {
			return i
		}
		i += n
	}
	return -1
}

// wantFromJSON turns a JSON text (json.Marshal's output) into the expected
// JavaScript data, keeping the order of object members.
func wantFromJSON(b []byte) any {
	d := json.NewDecoder(bytes.NewReader(b))
	d.UseNumber()
	var value func() any
	value = func() any {
		tok, err := d.Token()
		if err != nil {
			panic("wantFromJSON: " + err.Error())
		}
		switch t := tok.(type) {
		case nil:
			return wNull{}
		case bool:
			return wBool(t)
		case string:
			return wStr(t)
		case json.Number:
			if i, ok := new(big.Int).SetString(string(t), 10); ok {
				if i.Sign() == 0 && strings.HasPrefix(string(t), "-") {
					return wNum(math.Copysign(0, -1))
				}
				f, _ := new(big.Float).SetInt(i).Float64()
				return wInt{f, i}
			}
			f, _ := strconv.ParseFloat(string(t), 64)
			return wNum(f)
		case json.Delim:
			if t == '[' {
				a := wArr{}
				for d.More() {
					a = append(a, value())
				}
				d.Token()
				return a
			}
			var keys []string
			var vals []any
			for d.More() {
				k, _ := d.Token()
				keys = append(keys, k.(string))
				vals = append(vals, value())
			}
			d.Token()
			return jsObject(keys, vals)
		}
		panic("wantFromJSON: unexpected token")
	}
	return value()
}

// mergeWant refines the data json.Marshal's output decodes to (j) with the
// model (m) where JavaScript has a richer counterpart than JSON: a time.Time
// is a Date, not its RFC 3339 string.
func mergeWant(j, m any) any {
	if d, ok := m.(wDate); ok {
		if _, isStr := j.(wStr); isStr {
			return d
		}
	}
	switch jv := j.(type) {
	case wArr:
		if ma, ok := m.(wArr); ok && len(ma) == len(jv) {
			out := wArr{}
			for i := range jv {
				out = append(out, mergeWant(jv[i], ma[i]))
			}
			return out
		}
	case wObj:
		if mo, ok := m.(wObj); ok {
			out := wObj{keys: jv.keys}
			for i, k := range jv.keys {
				v := jv.vals[i]
				for n, mk := range mo.keys {
					if mk == k {
						v = mergeWant(v, mo.vals[n])
					}
				}
				out.vals = append(out.vals, v)
			}
			return out
		}
	}
	return j
}

// exactInts reads the integer literals of a JavaScript output that is also
// JSON and requires each to denote exactly the Go integer (a literal such as
// 9223372036854775808 for MaxInt64 evaluates to the same double but is not the
// value). dec is the output decoded with UseNumber.
func exactInts(want, dec any, path string) string {
	switch w := want.(type) {
	case wInt:
		n, ok := dec.(json.Number)
		if !ok {
			return ""
		}
		r, ok := new(big.Rat).SetString(string(n))
		if ok && r.Cmp(new(big.Rat).SetInt(w.exact)) != 0 {
			return fmt.Sprintf("%s: the Go integer is %s, the literal is %s", path, w.exact, n)
		}
	case wArr:
		a, ok := dec.([]any)
		if !ok || len(a) != len(w) {
			return ""
		}
		for i := range w {
			if d := exactInts(w[i], a[i], fmt.Sprintf("%s[%d]", path, i)); d != "" {
				return d
			}
		}
	case wObj:
		m, ok := dec.(map[string]any)
		if !ok {
			return ""
		}
		for i, k := range w.keys {
			if x, ok := m[k]; ok && i < len(w.vals) {
				if d := exactInts(w.vals[i], x, path+"."+strconv.Quote(k)); d != "" {
					return d
				}
			}
		}
	}
	return ""
}

// losesPrecision reports whether v holds an integer that is not a float64.
func losesPrecision(v reflect.Value) bool {
	found := false
	scanValues(v, func(x reflect.Value) {
		switch x.Kind() {
		case reflect.Int, reflect.Int8, reflect.Int16, reflect.Int32, reflect.Int64:
			found = found || int64(float64(x.Int())) != x.Int() || float64(x.Int()) >= 1<<63
		case reflect.Uint, reflect.Uint8, reflect.Uint16, reflect.Uint32, reflect.Uint64, reflect.Uintptr:
			found = found || float64(x.Uint()) >= 1<<64 || uint64(float64(x.Uint())) != x.Uint()
		}
	})
	return found
}

func scanValues(v reflect.Value, f func(reflect.Value)) {
	if !v.IsValid() {
		return
	}
	f(v)
	for _, c := range children(v) {
		scanValues(c, f)
	}
}

// ---- 1. struct tag options ----

// Embedded families need declared types.
type (
	EInner struct {
		N int    `json:"n"`
		S string `json:"s,omitempty"`
	}
	EOther struct {
		N int `json:"n"`
		O int
	}
	eLower struct{ L int }
	EInt   int

	TEmbed       struct{ EInner }
	TEmbedPtr    struct{ *EInner }
	TEmbedTagged struct {
		EInner `json:"in"`
	}
	TEmbedPtrTagged struct {
		*EInner `json:"in,omitempty"`
	}
	TEmbedDash struct {
		EInner `json:"-"`
		X      int
	}
	TEmbedLower     struct{ eLower } // unexported embedded struct type: its exported fields are promoted
	TEmbedNonStruct struct {
		EInt
		X int
	}
	TEmbedDeep  struct{ TEmbed }
	TDupTagWins struct { // a tagged name wins over an untagged field of that name
		A int `json:"X"`
		X int
	}
	TDupCase struct { // names differing in case are distinct on encoding
		Name int `json:"name"`
		NAME int
	}
)

type tagCase struct {
	tag string // the complete struct tag
	cls string // the class of the tag, used in failure keys
}

var tagCases = []tagCase{
	{`json:"n,string"`, "option string"},
	{`json:",string"`, "option string"},
	{`json:"qty,omitempty,string"`, "omitempty with other options"},
	{`json:"qty,string,omitempty"`, "omitempty with other options"},
	{`json:"note,omitempty,omitzero"`, "omitempty with other options"},
	{`json:"note,omitzero,omitempty"`, "omitempty with other options"},
	{`json:"u,unknown,omitempty"`, "omitempty with other options"},
	{`json:"u,omitempty,unknown"`, "omitempty with other options"},
	{`json:",omitempty"`, "omitempty alone"},
	{`json:"e,omitempty"`, "omitempty alone"},
	{`json:"omitempty"`, "option word used as the name"},
	{`json:"omitzero"`, "option word used as the name"},
	{`json:"string"`, "option word used as the name"},
	{`json:"z,omitzero"`, "option omitzero"},
	{`json:",omitzero"`, "option omitzero"},
	{`json:"-"`, "name -"},
	{`json:"-,"`, "name -"},
	{`json:"-,omitempty"`, "name -"},
	{`json:","`, "empty name"},
	{`json:""`, "empty name"},
	{`xml:"x"`, "no json key"},
	{`json:"u,unknown"`, "unknown option"},
	{`json:"u,omitempty "`, "unknown option"},
	{`json:"u, omitempty"`, "unknown option"},
	{`json:"a b"`, "name with punctuation"},
	{`json:"a.b-c_d"`, "name with punctuation"},
	{`json:"$x:y/z"`, "name with punctuation"},
	{`json:"<k>&"`, "name with punctuation"},
	{"json:\"é名\"", "name with unicode letters"},
	{"json:\"\U0001F600\"", "name that encoding/json does not accept"},
	{`json:"na\"me"`, "name that encoding/json does not accept"},
	{`json:"a\\b"`, "name that encoding/json does not accept"},
	{`json:"a'b"`, "name that encoding/json does not accept"},
	{`json:"0"`, "integer-like name"},
}

// tagClass: an option that is honoured by encoding/json names the class,
// whatever else is in the tag; else the declared class.
func tagClass(tc tagCase) string {
	tag, _ := reflect.StructTag(tc.tag).Lookup("json")
	_, opts, _ := strings.Cut(tag, ",")
	for _, o := range []string{"string", "omitzero"} {
		for _, have := range strings.Split(opts, ",") {
			if have == o {
				return "option " + o
			}
		}
	}
	return tc.cls
}

type zeroer struct{ A int }

func (z zeroer) IsZero() bool { return z.A == 7 } // omitzero consults IsZero

// tagFieldValues are the field values: for each kind an empty and a non-empty one.
func tagFieldValues() []*val {
	five := 5
	return []*val{
		base("int:0", "", 0), base("int:5", "", 5), base(`string:""`, "", ""), base(`string:"x"`, "", "x\"<"), base("string:12", "", "12"),
		base("false", "", false), base("true", "", true), base("float64:0", "", 0.0), base("float64:1.5", "", 1.5), base("float64:-0", "", math.Copysign(0, -1)),
		base("uint8:0", "", uint8(0)), base("int64:max", "", int64(math.MaxInt64)),
		base("*int:nil", "", (*int)(nil)), base("*int:&5", "", &five), base("[]int:nil", "", []int(nil)), base("[]int:empty", "", []int{}), base("[]int:{1}", "", []int{1}),
		base("map:nil", "", map[string]int(nil)), base("map:empty", "", map[string]int{}), base("map:{a:1}", "", map[string]int{"a": 1}),
		base("[0]int", "", [0]int{}), base("[2]int:zero", "", [2]int{}), base("[2]int:{1,2}", "", [2]int{1, 2}),
		base("struct:zero", "", struct{ A int }{}), base("struct:{1}", "", struct{ A int }{1}),
		base("IsZeroer:reports zero", "", zeroer{7}), base("IsZeroer:zero but reports non-zero", "", zeroer{}),
		base("time:zero", "", time.Time{}), base("time:UTC", "", time.Date(2020, 2, 29, 23, 59, 58, 0, time.UTC)),
		{label: "any:nil"}, {label: "any:5", rv: reflect.ValueOf(5), jsonRef: true /* marks: field of type any */},
	}
}

func tagValues() []*val {
	var out []*val
	for _, tc := range tagCases {
		for _, fv := range tagFieldValues() {
			t, x := fv.elem()
			if fv.jsonRef {
				t = anyT
			}
			st := reflect.StructOf([]reflect.StructField{
				{Name: "F", Type: t, Tag: reflect.StructTag(tc.tag)},
				{Name: "Last", Type: reflect.TypeFor[int](), Tag: `json:"last"`},
			})
			s := reflect.New(st).Elem()
			s.Field(0).Set(x)
			s.Field(1).SetInt(1)
			out = append(out, &val{
				label: fmt.Sprintf("struct{ F %s `%s`; Last int `json:\"last\"` } with F = %s", t, tc.tag, fv.label),
				rv:    s, jsonRef: true, forceCls: "struct tag: " + tagClass(tc),
			})
		}
	}
	one := func(label, cls string, x any) {
		v := &val{label: label, rv: reflect.ValueOf(x), jsonRef: true}
		if cls == "duplicate names" { // the embedded families fall in classOf's "struct with an embedded struct"
			v.forceCls = "struct: " + cls
		}
		out = append(out, v)
	}
	in, in0 := EInner{N: 7, S: "s"}, EInner{}
	intT := reflect.TypeFor[int]()
	one("embedded struct, non-empty", "embedded struct", TEmbed{in})
	one("embedded struct, empty", "embedded struct", TEmbed{in0})
	one("embedded *struct, non-nil", "embedded pointer to struct", TEmbedPtr{&in})
	one("embedded *struct, nil", "embedded pointer to struct", TEmbedPtr{})
	one("embedded struct with a name tag, non-empty", "embedded struct with a tag", TEmbedTagged{in})
	one("embedded struct with a name tag, empty", "embedded struct with a tag", TEmbedTagged{in0})
	one("embedded *struct with tag in,omitempty, non-nil", "embedded struct with a tag", TEmbedPtrTagged{&in})
	one("embedded *struct with tag in,omitempty, nil", "embedded struct with a tag", TEmbedPtrTagged{})
	one("embedded struct with tag -", "embedded struct with a tag", TEmbedDash{in, 1})
	// (built with reflect: go vet rejects a declared struct that repeats a json name)
	shadow := reflect.New(reflect.StructOf([]reflect.StructField{ // the outer n wins over the promoted one
		{Name: "EInner", Type: reflect.TypeFor[EInner](), Anonymous: true}, {Name: "N", Type: intT, Tag: `json:"n"`},
	})).Elem()
	shadow.Field(0).Set(reflect.ValueOf(in))
	shadow.Field(1).SetInt(9)
	one("embedded struct shadowed by an outer field", "embedded struct and name conflicts", shadow.Interface())
	conflict := reflect.New(reflect.StructOf([]reflect.StructField{ // n is ambiguous at one depth: encoding/json drops it
		{Name: "EInner", Type: reflect.TypeFor[EInner](), Anonymous: true}, {Name: "EOther", Type: reflect.TypeFor[EOther](), Anonymous: true},
	})).Elem()
	conflict.Field(0).Set(reflect.ValueOf(in))
	conflict.Field(1).Set(reflect.ValueOf(EOther{8, 9}))
	one("two embedded structs with a common name", "embedded struct and name conflicts", conflict.Interface())
	one("embedded unexported struct type", "embedded unexported struct type", TEmbedLower{eLower{3}})
	one("embedded non-struct type", "embedded non-struct type", TEmbedNonStruct{4, 5})
	one("struct embedding a struct that embeds a struct", "embedded struct", TEmbedDeep{TEmbed{in}})
	dup := reflect.New(reflect.StructOf([]reflect.StructField{ // two fields with one JSON name: encoding/json drops both
		{Name: "A", Type: intT, Tag: `json:"x"`}, {Name: "B", Type: intT, Tag: `json:"x"`}, {Name: "C", Type: intT},
	})).Elem()
	dup.Field(0).SetInt(1)
	dup.Field(1).SetInt(2)
	dup.Field(2).SetInt(3)
	one("two fields tagged with one name", "duplicate names", dup.Interface())
	one("a tagged name equal to an untagged field name", "duplicate names", TDupTagWins{1, 2})
	one("names differing only in case", "duplicate names", TDupCase{1, 2})
	one("pointer to a struct with an embedded struct", "embedded struct", &TEmbed{in})
	return out
}

// ---- 2. unusual string content in every string-bearing position ----

type textKey struct{ s string }

func (k textKey) String() string { return k.s }

type textErr struct{ s string }

func (e textErr) Error() string { return e.s }

func unusualStrings() []string {
	var ss []string
	for c := 0; c < 0x20; c++ {
		ss = append(ss, "a"+string(rune(c))+"b")
	}
	return append(ss,
		"a\x7fb", "a\u0080b", "a\u0085b", "a\u00a0b", "a\u2028b", "a\u2029b", "\ufeffab", "a\ufeffb", "a\ufffdb", "a\ufffeb", "a\uffffb", "a\U0001F600b", "a\U0010FFFFb",
		"a\xffb", "a\xc3", "\x80a", "a\xc0\xafb", "a\xe0\xa0", "a\xf0\x90\x80b", "a\xf8\x88\x80\x80\x80b",
		"a\xed\xa0\x80b", "a\xed\xb0\x80b", "a\xed\xa0\xbd\xed\xb8\x80b", // WTF-8 / CESU-8 surrogates
		"</script>", "</SCRIPT >", "<script>", "<!--", "-->", "]]>", "<![CDATA[", "&amp;&#0;", "a'b\"c`d\\e", "\\u0041", "\\", "${x}", "*/ /*", "//", "\r\n", "\n\r", "\x00",
	)
}

// stringPositions puts s in every position where the renderer emits a string.
func stringPositions(s string) []*val {
	pos := func(label, cls string, x any) *val {
		v := &val{label: fmt.Sprintf("%s with %+q", label, s), rv: reflect.ValueOf(x)}
		if cls != "" {
			v.forceCls = cls + contentSuffix(s)
		}
		return v
	}
	return []*val{
		pos("string", "", s),
		pos("MyString", "", MyString(s)),
		pos("map key", "", map[string]int{s: 1}),
		pos("map key next to another key", "", map[string]int{s: 1, "k": 2}),
		pos("map value", "", map[string]string{"k": s}),
		pos("[]string element", "", []string{"x", s}),
		pos("struct field", "", struct {
			A string `json:"a"`
			B string `json:"b,omitempty"`
		}{s, s}),
		pos("error text", "error text", errors.New(s)),
		pos("error text (struct error)", "error text", textErr{s}),
		pos("error in a slice", "", []error{textErr{s}}),
		pos("String() of a map key", "Stringer map key", map[textKey]int{{s}: 1}),
		pos("any holding the string in a struct", "", struct{ V any }{s}),
	}
}

func stringValues() []*val {
	var out []*val
	for _, s := range unusualStrings() {
		out = append(out, stringPositions(s)...)
	}
	return out
}

// ---- 3. numbers ----

type (
	NI8  int8
	NI64 int64
	NU64 uint64
	NF32 float32
	NF64 float64
	NUP  uintptr
)

func numberValues() []*val {
	var vs []*val
	add := func(label string, x any) { vs = append(vs, base(label, "", x)) }
	for _, n := range []int64{1<<53 - 1, 1 << 53, 1<<53 + 1, 1<<53 + 2, 1<<53 + 3, -(1 << 53), -(1<<53 + 1), 1<<62 + 1, math.MaxInt64, math.MaxInt64 - 1, math.MinInt64, math.MinInt64 + 1, 999999999999999999, 123456789012345678} {
		add(fmt.Sprintf("int64:%d", n), n)
		add(fmt.Sprintf("NI64:%d", n), NI64(n))
		add(fmt.Sprintf("int:%d", n), int(n))
	}
	for _, n := range []uint64{1<<53 + 1, 1 << 63, 1<<63 + 1, 1<<64 - 1, 1<<64 - 2, 1<<64 - 1025, 18446744073709549568, 10000000000000000001} {
		add(fmt.Sprintf("uint64:%d", n), n)
		add(fmt.Sprintf("NU64:%d", n), NU64(n))
		add(fmt.Sprintf("uint:%d", n), uint(n))
		add(fmt.Sprintf("uintptr:%d", n), uintptr(n))
		add(fmt.Sprintf("NUP:%d", n), NUP(n))
	}
	add("NI8:-128", NI8(-128))
	add("int32:-0", int32(0))
	negZero := math.Copysign(0, -1)
	for _, f := range []float64{negZero, 5e-324, 1e-323, 2.2250738585072014e-308, 2.225073858507201e-308, math.MaxFloat64, 1.7976931348623155e308, 1e23, 1e22, 8.41e21, 1e21, 999999999999999868928,
		1e-6, 1e-7, 9.999999999999999e-7, 0.1 + 0.2, 0.1, 1.0 / 3, 2.0 / 3, 123456789012345680000, 4.35, 0.000001234, 5e-7, 1.5e300, -1e-300, 9007199254740993, 4503599627370496.5, 1e15 + 0.3, 100, 1e2 + 0.5} {
		add("float64:"+strconv.FormatFloat(f, 'g', -1, 64), f)
		add("NF64:"+strconv.FormatFloat(f, 'g', -1, 64), NF64(f))
	}
	for _, f := range []float32{float32(negZero), 1e-45, 1.1754944e-38, math.MaxFloat32, 16777216, 16777217, 0.1, 0.3, 1.0 / 3, 1e10, 3.4e38, 1e-7, 123456.79, 8388608.5, 1e21, 1e-10} {
		add("float32:"+strconv.FormatFloat(float64(f), 'g', -1, 32), f)
		add("NF32:"+strconv.FormatFloat(float64(f), 'g', -1, 32), NF32(f))
	}
	// each number also inside a slice, a struct field and as a map value and key
	var out []*val
	for _, v := range vs {
		t, x := v.elem()
		out = append(out, v)
		sl := reflect.MakeSlice(reflect.SliceOf(t), 2, 2)
		sl.Index(0).Set(x)
		sl.Index(1).Set(x)
		out = append(out, &val{label: "[]T{x,x} of " + v.label, rv: sl})
		st := reflect.New(reflect.StructOf([]reflect.StructField{{Name: "N", Type: t, Tag: `json:"n"`}, {Name: "O", Type: t, Tag: `json:"o,omitempty"`}})).Elem()
		st.Field(0).Set(x)
		st.Field(1).Set(x)
		out = append(out, &val{label: "struct{N,O T} of " + v.label, rv: st})
		m := reflect.MakeMap(reflect.MapOf(t, t))
		if x.Kind() < reflect.Float32 || x.Float() == x.Float() {
			m.SetMapIndex(x, x)
			out = append(out, &val{label: "map[T]T{x:x} of " + v.label, rv: m})
		}
	}
	return out
}

// ---- 5. named types and marshaler combinations ----

type (
	mJ struct{}
	mT struct{}
	mS struct{}
	mE struct{}
)

func (mJ) MarshalJSON() ([]byte, error) { return []byte(`{"by":"MarshalJSON"}`), nil }
func (mT) MarshalText() ([]byte, error) { return []byte("by MarshalText <&>"), nil }
func (mS) String() string               { return "by String" }
func (mE) Error() string                { return "by Error" }

// Every subset of {json.Marshaler, encoding.TextMarshaler, fmt.Stringer, error}.
type (
	C0000 struct{ V int }
	C000E struct {
		mE
		V int
	}
	C00S0 struct {
		mS
		V int
	}
	C00SE struct {
		mS
		mE
		V int
	}
	C0T00 struct {
		mT
		V int
	}
	C0T0E struct {
		mT
		mE
		V int
	}
	C0TS0 struct {
		mT
		mS
		V int
	}
	C0TSE struct {
		mT
		mS
		mE
		V int
	}
	CJ000 struct {
		mJ
		V int
	}
	CJ00E struct {
		mJ
		mE
		V int
	}
	CJ0S0 struct {
		mJ
		mS
		V int
	}
	CJ0SE struct {
		mJ
		mS
		mE
		V int
	}
	CJT00 struct {
		mJ
		mT
		V int
	}
	CJT0E struct {
		mJ
		mT
		mE
		V int
	}
	CJTS0 struct {
		mJ
		mT
		mS
		V int
	}
	CJTSE struct {
		mJ
		mT
		mS
		mE
		V int
	}
)

type (
	NStr    string
	NBool   bool
	NMapT   map[string]int
	NSliceT []int
	NArrT   [2]int
	NStrucT struct {
		A int `json:"a"`
	}
	NTime  time.Time
	NPtr   *int
	NAny   any
	NB16   []uint16
	NArrB  [2]byte
	NBB    [][]byte
	NStrs  []NStr
	NMapNS map[NStr]NStr
	NErrS  string // string-kinded error
	NStrS  string // string-kinded Stringer
	NTextS string // string-kinded TextMarshaler
	NTextI int    // int-kinded TextMarshaler
	PtrTM  struct{ V int }
	PtrJM  struct{ V int }
)

func (e NErrS) Error() string                 { return "error:" + string(e) }
func (s NStrS) String() string                { return "String:" + string(s) }
func (s NTextS) MarshalText() ([]byte, error) { return []byte("text:" + string(s)), nil }
func (i NTextI) MarshalText() ([]byte, error) { return []byte("n" + strconv.Itoa(int(i))), nil }
func (p *PtrTM) MarshalText() ([]byte, error) { return []byte("ptr-text"), nil }
func (p *PtrJM) MarshalJSON() ([]byte, error) { return []byte(`"ptr-json"`), nil }

func namedValues() []*val {
	var vs []*val
	add := func(label string, x any) { vs = append(vs, base(label, "", x)) }
	n := 5
	add("C0000", C0000{V: 1})
	add("C000E", C000E{V: 1})
	add("C00S0", C00S0{V: 1})
	add("C00SE", C00SE{V: 1})
	add("C0T00", C0T00{V: 1})
	add("C0T0E", C0T0E{V: 1})
	add("C0TS0", C0TS0{V: 1})
	add("C0TSE", C0TSE{V: 1})
	add("CJ000", CJ000{V: 1})
	add("CJ00E", CJ00E{V: 1})
	add("CJ0S0", CJ0S0{V: 1})
	add("CJ0SE", CJ0SE{V: 1})
	add("CJT00", CJT00{V: 1})
	add("CJT0E", CJT0E{V: 1})
	add("CJTS0", CJTS0{V: 1})
	add("CJTSE", CJTSE{V: 1})
	add("NStr", NStr("s<\""))
	add("NBool", NBool(true))
	add("MyInt", MyInt(-3))
	add("NMapT", NMapT{"b": 1, "a": 2})
	add("NMapT:nil", NMapT(nil))
	add("NSliceT", NSliceT{1, 2})
	add("NSliceT:nil", NSliceT(nil))
	add("NArrT", NArrT{1, 2})
	add("NStrucT", NStrucT{1})
	add("NTime", NTime(time.Date(2020, 1, 2, 3, 4, 5, 0, time.UTC)))
	add("NPtr", NPtr(&n))
	add("NPtr:nil", NPtr(nil))
	add("NB16", NB16{1, 65535})
	add("NArrB", NArrB{1, 2})
	add("NBB", NBB{{1, 2}, nil, {}})
	add("NStrs", NStrs{"a", "b"})
	add("NMapNS", NMapNS{"k": "v"})
	add("MyBytes", MyBytes{1, 2, 3})
	add("MyBytes:nil", MyBytes(nil))
	add("MyBytes:empty", MyBytes{})
	add("NErrS", NErrS("e"))
	add("NStrS", NStrS("s"))
	add("NTextS", NTextS("t"))
	add("NTextI", NTextI(4))
	add("PtrTM value", PtrTM{1})
	add("PtrTM pointer", &PtrTM{1})
	add("PtrJM value", PtrJM{1})
	add("PtrJM pointer", &PtrJM{1})
	add("[]PtrJM (addressable elements)", []PtrJM{{1}})
	add("Duration", 90*time.Minute)
	add("map[NTextS]int", map[NTextS]int{"b": 1, "a": 2})
	add("map[NTextI]int", map[NTextI]int{2: 1, 10: 2})
	add("map[C0T00]int (struct TextMarshaler key)", map[C0T00]int{{V: 1}: 1})
	add("map[C0TS0]int (TextMarshaler and Stringer key)", map[C0TS0]int{{V: 1}: 1})
	add("map[NStrS]int (string-kinded Stringer key)", map[NStrS]int{"b": 1, "a": 2})
	add("map[NErrS]int (string-kinded error key)", map[NErrS]int{"b": 1})
	add("map[MyInt]int", map[MyInt]int{10: 1, 9: 2})
	add("map[NBool]int", map[NBool]int{true: 1, false: 2})
	add("map[int]int{10,9,-1}", map[int]int{10: 1, 9: 2, -1: 3})
	add("map[uint8]string", map[uint8]string{200: "a", 30: "b"})
	add("map[int64]int{2^53+1}", map[int64]int{1<<53 + 1: 1, 1 << 53: 2})
	add("map[string]NStr", map[string]NStr{"a": "b"})
	var out []*val
	for _, v := range vs {
		t, x := v.elem()
		out = append(out, v)
		out = append(out, &val{label: "&x of " + v.label, rv: ptrTo(t, x)})
		out = append(out, &val{label: "nil *T of " + v.label, rv: reflect.Zero(reflect.PointerTo(t))})
		st := reflect.New(reflect.StructOf([]reflect.StructField{{Name: "F", Type: t, Tag: `json:"f"`}, {Name: "P", Type: reflect.PointerTo(t), Tag: `json:"p"`}})).Elem()
		st.Field(0).Set(x)
		st.Field(1).Set(ptrTo(t, x))
		out = append(out, &val{label: "struct{F T; P *T} of " + v.label, rv: st})
		sl := reflect.MakeSlice(reflect.SliceOf(t), 1, 1)
		sl.Index(0).Set(x)
		out = append(out, &val{label: "[]T{x} of " + v.label, rv: sl})
	}
	return out
}

// ---- 4. writers that do not copy ----

// pipeWriter does not copy what it is given when Write is called: it hands
// the slice to a consumer goroutine, which yields a few times and only then
// reads it; Write returns when the consumer is done, as io.Writer requires
// (an implementation must not retain p after Write returns — a writer that
// does would flag encoding/base64's own legal reuse of its internal buffer,
// which showInJS/showInJSON write through). A scratch buffer that the renderer
// shares between runs, or hands back to a pool before its Write has returned,
// is overwritten while the consumer has not read it yet.
type pipeWriter struct {
	ch  chan []byte
	ack chan struct{}
	buf bytes.Buffer
	wg  sync.WaitGroup
}

func newPipeWriter() *pipeWriter {
	w := &pipeWriter{ch: make(chan []byte), ack: make(chan struct{})}
	w.wg.Add(1)
	go func() {
		defer w.wg.Done()
		for p := range w.ch {
			for i := 0; i < 3; i++ {
				runtime.Gosched()
			}
			w.buf.Write(p)
			w.ack <- struct{}{}
		}
	}()
	return w
}

func (w *pipeWriter) Write(p []byte) (int, error) {
	w.ch <- p
	<-w.ack
	return len(p), nil
}

func (w *pipeWriter) close() []byte {
	close(w.ch)
	w.wg.Wait()
	return w.buf.Bytes()
}

var _ io.Writer = (*pipeWriter)(nil)

type writerCase struct {
	c    *shownIn
	n    int    // size of the values
	mode string // "sequential" | "8 goroutines x 4 rounds"
}

// writerValues are eight different values of about n bytes of output each.
func writerValues(n int) []any {
	return []any{
		longString(n), longBytes(n), []string{longString(n / 2), "x", longString(n / 3)}, map[string]any{longString(n / 4): longBytes(n / 2), "k": longString(n / 4)},
		struct {
			A string `json:"a"`
			B []byte `json:"b"`
		}{longString(n / 2), longBytes(n / 2)},
		[]any{1.5, longString(n / 2), nil, longBytes(n / 3), true}, errors.New(longString(n)), []int{n, n + 1, n + 2},
	}
}

func evalWriters(wc writerCase, two *scriggo.Template) kit.Outcome {
	vals := writerValues(wc.n)
	lang := "JSON"
	if wc.c.js {
		lang = "JS"
	}
	// reference: each (v, w) pair rendered alone into a copying writer
	ref := func(v, w any) []byte {
		var b bytes.Buffer
		if err := two.Run(&b, map[string]any{"v": &v, "w": &w}, nil); err != nil {
			panic("C08 writers: reference run failed: " + err.Error())
		}
		return append([]byte{}, b.Bytes()...)
	}
	fail := func(what string, i int, want, got []byte) kit.Outcome {
		at := 0
		for at < len(want) && at < len(got) && want[at] == got[at] {
			at++
		}
		return kit.Outcome{
			Key:        lang + "|" + what,
			Class:      "fail",
			Nontrivial: true,
			Detail: fmt.Sprintf("file %s = %q, values of about %d bytes, pair #%d (v = %T, w = %T)\nthe bytes differ from the copying writer's at offset %d of %d\ncopying writer …%+q\nthis writer    …%+q",
				wc.c.file, wc.c.pre+"[{{ v }},{{ w }}]"+wc.c.post, wc.n, i, vals[i], vals[(i+1)%len(vals)], at, len(want), clip(want, at), clip(got, at)),
		}
	}
	goroutines, rounds := len(vals), 4
	if wc.mode == "sequential" {
		goroutines, rounds = 1, 1
	}
	// 8 goroutines, 4 rounds, each run through a pipe-like writer
	refs := make([][]byte, len(vals))
	for i := range vals {
		refs[i] = ref(vals[i], vals[(i+1)%len(vals)])
	}
	type res struct {
		i   int
		got []byte
	}
	bad := make(chan res, len(vals)*4)
	var wg sync.WaitGroup
	for g := 0; g < goroutines; g++ {
		wg.Add(1)
		go func(g int) {
			defer wg.Done()
			for round := 0; round < rounds; round++ {
				for i := g; i < len(vals); i += goroutines { // sequential: all pairs back to back; concurrent: one pair per goroutine
					pw := newPipeWriter()
					v, w := vals[i], vals[(i+1)%len(vals)]
					err := two.Run(pw, map[string]any{"v": &v, "w": &w}, nil)
					got := pw.close()
					if err == nil && !bytes.Equal(got, refs[i]) {
						bad <- res{i, append([]byte{}, got...)}
						return
					}
				}
			}
		}(g)
	}
	wg.Wait()
	close(bad)
	first := res{i: -1}
	for r := range bad {
		if first.i < 0 || r.i < first.i {
			first = r
		}
	}
	if first.i >= 0 {
		return fail("writers: runs through a blocking writer ("+wc.mode+") produce other bytes than alone with a copying writer (a buffer is reused while a Write is in progress)", first.i, refs[first.i], first.got)
	}
	return kit.Outcome{OK: true, Class: lang + ": runs through a blocking writer (" + wc.mode + ") equal the runs alone", Nontrivial: true, Ops: len(vals) * rounds}
}

func clip(b []byte, at int) []byte {
	from, to := max(0, at-20), min(len(b), at+40)
	return b[from:to]
}

func writerSpace() kit.Space {
	var cases []writerCase
	for _, c := range contexts {
		for _, n := range longLengths {
			for _, m := range []string{"sequential", "8 goroutines x 4 rounds"} {
				cases = append(cases, writerCase{c, n, m})
			}
		}
	}
	tmpls := map[*shownIn]*scriggo.Template{}
	for _, c := range contexts {
		t, err := scriggo.BuildTemplate(scriggo.Files{c.file: []byte(c.pre + "[{{ v }},{{ w }}]" + c.post)}, c.file,
			&scriggo.BuildOptions{Globals: native.Declarations{"v": (*any)(nil), "w": (*any)(nil)}})
		if err != nil {
			panic("C08 writers: " + err.Error())
		}
		tmpls[c] = t
	}
	return kit.Space{
		Name: "writers that do not copy: 4 contexts x 14 sizes x {8 runs of two shows back to back, 8 goroutines x 4 rounds} through a blocking writer that reads the slice late",
		Size: uint64(len(cases)),
		Eval: func(i uint64) kit.Outcome { return evalWriters(cases[i], tmpls[cases[i].c]) },
		Describe: func(i uint64) any {
			wc := cases[i]
			return map[string]string{"file": wc.c.file, "template": wc.c.pre + "[{{ v }},{{ w }}]" + wc.c.post, "size of the values": strconv.Itoa(wc.n), "writer": wc.mode}
		},
	}
}

func round2Spaces() []kit.Space {
	jsAndJSON := []*shownIn{contexts[1], contexts[2]} // .js and .json
	return []kit.Space{
		valueSpace("struct tags: 35 tags x 31 field values, embedded and duplicate-name structs x {.js, .json} x {any, concrete type}; encoding/json referees both", tagValues(), jsAndJSON...),
		valueSpace("unusual strings: 83 contents x 12 positions x 4 contexts x {any, concrete type}", stringValues()),
		valueSpace("numbers at the limits of exactness, alone, in a slice, a struct and a map x {.js, .json} x {any, concrete type}", numberValues(), jsAndJSON...),
		valueSpace("named types and marshaler combinations, alone, behind pointers, in a struct and a slice x {.js, .json} x {any, concrete type}", namedValues(), jsAndJSON...),
		writerSpace(),
	}
}

var _ = strings.Contains
