// C08 — values shown as JavaScript or JSON are valid literals for the same data.
//
// A compositional universe of Go values (every basic kind at its boundaries,
// byte slices, times, errors, typed nils → slices, arrays, pointers, maps of
// every key kind, structs with json tags) is shown in a JavaScript context
// (<script> and .js) and in a JSON context (.json and <script
// type=application/ld+json>), as a global of static type any and of its
// concrete type. node must parse the JavaScript output as exactly one
// expression whose value is the corresponding data; encoding/json must accept
// the JSON output and decode it to what json.Marshal of the value decodes to.
package main

import (
	"bytes"
	"encoding"
	"encoding/base64"
	"encoding/json"
	"errors"
	"fmt"
	"math"
	"math/big"
	"reflect"
	"regexp"
	"runtime/debug"
	"sort"
	"strconv"
	"strings"
	"sync"
	"time"
	"unicode/utf16"
	"unicode/utf8"

	"verif/gen/blocks"
	"verif/kit"
	"verif/oracle/htmltok"
	"verif/oracle/nodejs"

	"github.com/open2b/scriggo"
	"github.com/open2b/scriggo/native"
	"golang.org/x/net/html"
)

// ---- types used by the universe ----

type MyString string
type MyBytes []byte
type MyInt int

// Inner is embedded by the "struct-embedded" constructor.
type Inner struct {
	N int `json:"n"`
}

// Celsius implements json.Marshaler.
type Celsius float64

func (c Celsius) MarshalJSON() ([]byte, error) {
	return []byte(`"` + strconv.FormatFloat(float64(c), 'g', -1, 64) + `C"`), nil
}

// StrKey is a map key type that implements fmt.Stringer.
type StrKey struct{ A int }

func (k StrKey) String() string { return "k" + strconv.Itoa(k.A) }

type jsCode struct{}

func (jsCode) JS() native.JS { return "[1,2]" }

type jsonCode struct{}

func (jsonCode) JSON() native.JSON { return `{"a":[1,2]}` }

type myErr struct{ Code int }

func (e myErr) Error() string { return "error \"" + strconv.Itoa(e.Code) + "\" </script>" }

var (
	anyT      = reflect.TypeFor[any]()
	timeT     = reflect.TypeFor[time.Time]()
	bytesT    = reflect.TypeFor[[]byte]()
	errorT    = reflect.TypeFor[error]()
	stringerT = reflect.TypeFor[fmt.Stringer]()
)

// ---- the value universe ----

type val struct {
	label string
	cls   string        // class of the value, used in failure keys
	rv    reflect.Value // the zero Value is the untyped nil
	kids  []*val
	// forceCls, when set, is the class used in the key when the value itself
	// (not a value inside it) is the smallest one with the problem.
	forceCls string
	// jsonRef: in JavaScript too the referee is encoding/json (the evaluated
	// value must be the data json.Marshal's output decodes to).
	jsonRef bool
}

func (v *val) iface() any {
	if !v.rv.IsValid() {
		return nil
	}
	return v.rv.Interface()
}

// elem returns the element type and value a constructor uses for v.
func (v *val) elem() (reflect.Type, reflect.Value) {
	if !v.rv.IsValid() {
		return anyT, reflect.Zero(anyT)
	}
	return v.rv.Type(), v.rv
}

func base(label, cls string, x any) *val {
	if cls == "" {
		cls = label
	}
	return &val{label: label, cls: cls, rv: reflect.ValueOf(x)}
}

func baseValues() []*val {
	utc := time.Date(2020, 2, 29, 23, 59, 58, 0, time.UTC)
	negZero := math.Copysign(0, -1)
	vs := []*val{
		{label: "nil", cls: "untyped nil"},
		base("false", "bool", false), base("true", "bool", true),
		base("int:0", "int", 0), base("int:-1", "int", -1), base("int:max", "int:|n|>2^53", math.MaxInt), base("int:min", "int:|n|>2^53", math.MinInt),
		base("int8:min", "int", int8(math.MinInt8)), base("int8:max", "int", int8(math.MaxInt8)),
		base("int16:min", "int", int16(math.MinInt16)), base("int16:max", "int", int16(math.MaxInt16)),
		base("int32:min", "int", int32(math.MinInt32)), base("int32:max", "int", int32(math.MaxInt32)),
		base("int64:min", "int:|n|>2^53", int64(math.MinInt64)), base("int64:max", "int:|n|>2^53", int64(math.MaxInt64)),
		base("int64:2^53+1", "int:|n|>2^53", int64(1<<53+1)), base("MyInt:7", "int", MyInt(7)),
		base("uint:max", "int:|n|>2^53", uint(math.MaxUint)), base("uint8:max", "int", uint8(math.MaxUint8)), base("uint16:max", "int", uint16(math.MaxUint16)),
		base("uint32:max", "int", uint32(math.MaxUint32)), base("uint64:max", "int:|n|>2^53", uint64(math.MaxUint64)), base("uintptr:9", "uintptr", uintptr(9)),
		base("float64:0", "float", 0.0), base("float64:-0", "float:-0", negZero), base("float64:1.5", "float", 1.5), base("float64:-2.5e-7", "float", -2.5e-7),
		base("float64:1e21", "float", 1e21), base("float64:max", "float", math.MaxFloat64), base("float64:denormal-min", "float", math.SmallestNonzeroFloat64),
		base("float64:NaN", "float:non-finite", math.NaN()), base("float64:+Inf", "float:non-finite", math.Inf(1)), base("float64:-Inf", "float:non-finite", math.Inf(-1)),
		base("float32:0.1", "float", float32(0.1)), base("float32:max", "float", float32(math.MaxFloat32)), base("float32:NaN", "float:non-finite", float32(math.NaN())),
		base("float32:-Inf", "float:non-finite", float32(math.Inf(-1))),
		base(`string:""`, "string", ""), base(`string:"a"`, "string", "a"), base("string:</script>", "string", "</script><!--<script>"),
		base("string:U+2028 U+2029", "string:U+2028/U+2029", "\u2028\u2029"), base("string:non-UTF-8", "string:invalid UTF-8", "a\xffb\xc3"), base("string:quotes", "string:control character", "\x00\"'\\<>&\r\n\t\x7f"),
		base("string:astral", "string", "\U0001F600é"), base(`MyString:"x"`, "string", MyString("x\"")),
		base("[]byte:nil", "[]byte:nil", []byte(nil)), base("[]byte:empty", "[]byte", []byte{}), base("[]byte:{1,2,255}", "[]byte", []byte{1, 2, 255}),
		base("MyBytes:{1,2}", "named []byte", MyBytes{1, 2}), base("[2]byte", "array", [2]byte{1, 2}),
		base("*int:nil", "typed nil", (*int)(nil)), base("[]int:nil", "typed nil", []int(nil)), base("map[string]int:nil", "typed nil", map[string]int(nil)),
		base("time:UTC", "time.Time:whole seconds", utc),
		base("time:+02:00,123ms", "time.Time:with fraction of a second", time.Date(2021, 7, 1, 12, 0, 0, 123000000, time.FixedZone("CEST", 2*3600))),
		base("time:-03:30", "time.Time:whole seconds", time.Date(1999, 12, 31, 23, 59, 59, 0, time.FixedZone("NST", -(3*3600+1800)))),
		base("time:year 0", "time.Time:whole seconds", time.Date(0, 1, 1, 0, 0, 0, 0, time.UTC)),
		base("time:year 10000", "time.Time:year>9999", time.Date(10000, 1, 1, 0, 0, 0, 0, time.UTC)),
		base("time:year -1", "time.Time:year<0", time.Date(-1, 3, 4, 5, 6, 7, 0, time.UTC)),
		base("time:zone offset +00:19:32", "time.Time:zone offset with seconds", time.Date(1930, 5, 6, 7, 8, 9, 0, time.FixedZone("AMT", 19*60+32))),
		base("error", "error", errors.New("boom \"q\" </script>")), base("myErr", "error", myErr{3}),
		base("native.JS", "trusted code", native.JS("[1,2]")), base("native.JSON", "trusted code", native.JSON(`{"a":[1,2]}`)),
		base("JSStringer", "trusted code", jsCode{}), base("JSONStringer", "trusted code", jsonCode{}),
		base("json.Marshaler", "json.Marshaler implementer", Celsius(21.5)),
		base("complex128", "complex", complex(1, 2)), base("func", "func", func() {}), base("chan", "chan", make(chan int)),
		base("struct{}", "struct", struct{}{}), base("StrKey(Stringer struct)", "struct", StrKey{4}),
		// maps, one per accepted key kind, <= 2 entries
		base("map[string]int{b,a}", "map[string]", map[string]int{"b": 1, "a": 2}),
		base(`map[string]int{""}`, "map[string]", map[string]int{"": 1}),
		base("map[string]int{__proto__}", "map[string] with key __proto__", map[string]int{"__proto__": 1}),
		base("map[string]any{__proto__:nil}", "map[string] with key __proto__", map[string]any{"__proto__": nil, "a": 1}),
		base("map[string]int{a,2,10}", "map[string]", map[string]int{"a": 3, "2": 1, "10": 2}),
		base("map[string]int{</script>}", "map[string] with key:invalid UTF-8", map[string]int{"</script>\u2028\"": 1, "\xff": 2}),
		base("map[MyString]int", "map[string]", map[MyString]int{"z": 1, "y": 2}),
		base("map[bool]int", "map[bool]", map[bool]int{true: 1, false: 2}),
		base("map[int]int", "map[int]", map[int]int{2: 1, -1: 2}), base("map[int8]int", "map[int]", map[int8]int{-128: 1, 127: 2}),
		base("map[int16]int", "map[int]", map[int16]int{300: 1}), base("map[int32]int", "map[int]", map[int32]int{-70000: 1}),
		base("map[int64]string", "map[int]", map[int64]string{math.MinInt64: "min", math.MaxInt64: "max"}),
		base("map[uint]int", "map[int]", map[uint]int{math.MaxUint: 1, 0: 2}), base("map[uint8]int", "map[int]", map[uint8]int{255: 1, 9: 2}),
		base("map[uint16]int", "map[int]", map[uint16]int{65535: 1}), base("map[uint32]int", "map[int]", map[uint32]int{4294967295: 1, 4294967294: 2}),
		base("map[uint64]int", "map[int]", map[uint64]int{math.MaxUint64: 1}), base("map[uintptr]int", "map[uintptr]", map[uintptr]int{1: 1}),
		base("map[float64]int", "map[float]", map[float64]int{1.5: 1, -0.25: 2}), base("map[float32]int", "map[float]", map[float32]int{0.5: 1}),
		base("map[complex128]int{1+2i,3+2i}", "map[complex]", map[complex128]int{complex(1, 2): 1, complex(3, 2): 2}),
		base("map[complex64]int{1+2i}", "map[complex]", map[complex64]int{complex(1, 2): 1}),
		base("map[StrKey]int", "map[Stringer]", map[StrKey]int{{2}: 1, {1}: 2}),
		base("map[any]int", "map[interface]", map[any]int{"a": 1, 2: 2}),
		base("map[[1]int]int", "map[array]", map[[1]int]int{{1}: 1}),
		base("map[string]any{}", "map[string]", map[string]any{}),
		base("[]any{}", "slice", []any{}), base("[0]int{}", "array", [0]int{}),
	}
	return vs
}

// classOf names the class of a value; failure keys are made of it, so that
// every value hitting one defect shares one key.
func classOf(v reflect.Value) string {
	if !v.IsValid() {
		return "untyped nil"
	}
	t := v.Type()
	switch {
	case implementsJSCode(t) || implementsJSONCode(t):
		return "trusted code"
	case t == timeT:
		tm := v.Interface().(time.Time)
		_, off := tm.Zone()
		switch {
		case off%60 != 0:
			return "time.Time:zone offset with seconds"
		case tm.Year() < 0:
			return "time.Time:year<0"
		case tm.Year() > 9999:
			return "time.Time:year>9999"
		case tm.Nanosecond() != 0:
			return "time.Time:with fraction of a second"
		}
		return "time.Time:whole seconds"
	case t.Implements(reflect.TypeFor[json.Marshaler]()):
		return "json.Marshaler implementer"
	case t.Implements(reflect.TypeFor[encoding.TextMarshaler]()):
		return "encoding.TextMarshaler implementer"
	case t.Implements(errorT):
		if v.Kind() == reflect.Pointer && v.IsNil() {
			return "error"
		}
		return "error" + contentSuffix(v.Interface().(error).Error())
	}
	switch v.Kind() {
	case reflect.Bool:
		return "bool"
	case reflect.Int, reflect.Int8, reflect.Int16, reflect.Int32, reflect.Int64:
		if n := v.Int(); n > 1<<53 || n < -(1<<53) {
			return "int:|n|>2^53"
		}
		return "int"
	case reflect.Uintptr:
		return "uintptr"
	case reflect.Uint, reflect.Uint8, reflect.Uint16, reflect.Uint32, reflect.Uint64:
		if v.Uint() > 1<<53 {
			return "int:|n|>2^53"
		}
		return "int"
	case reflect.Float32, reflect.Float64:
		f := v.Float()
		switch {
		case math.IsNaN(f) || math.IsInf(f, 0):
			return "float:non-finite"
		case f == 0 && math.Signbit(f):
			return "float:-0"
		}
		return "float"
	case reflect.String:
		return "string" + contentSuffix(v.String())
	case reflect.Complex64, reflect.Complex128:
		return "complex"
	case reflect.Func:
		return "func"
	case reflect.Chan:
		return "chan"
	case reflect.Slice:
		switch {
		case byteSlice(t) && v.IsNil():
			return "[]byte:nil" // plain or named: a nil byte slice
		case t == bytesT:
			return "[]byte"
		case t.Elem().Kind() == reflect.Uint8:
			return "named []byte"
		case v.IsNil():
			return "typed nil"
		case ptrMarshaler(t.Elem()):
			return "slice whose element type has a pointer-receiver marshaler"
		}
		return "slice"
	case reflect.Array:
		return "array"
	case reflect.Pointer:
		if v.IsNil() {
			return "typed nil"
		}
		return "pointer"
	case reflect.Interface:
		if v.IsNil() {
			return "untyped nil"
		}
		return classOf(v.Elem())
	case reflect.Map:
		if v.IsNil() {
			return "typed nil"
		}
		k := t.Key()
		switch {
		case k.Implements(stringerT):
			return "map[Stringer]"
		case k.Kind() == reflect.String:
			if v.MapIndex(reflect.ValueOf("__proto__").Convert(k)).IsValid() {
				return "map[string] with key __proto__"
			}
			for _, c := range []string{"invalid UTF-8", "control character", "U+2028/U+2029", "U+FEFF"} { // map order must not matter
				for _, mk := range v.MapKeys() {
					if contentClass(mk.String()) == c {
						return "map[string] with key:" + c
					}
				}
			}
			return "map[string]"
		case k.Kind() == reflect.Bool:
			return "map[bool]"
		case k.Kind() == reflect.Uintptr:
			return "map[uintptr]"
		case reflect.Int <= k.Kind() && k.Kind() <= reflect.Uint64:
			return "map[int]"
		case k.Kind() == reflect.Float32 || k.Kind() == reflect.Float64:
			return "map[float]"
		case k.Kind() == reflect.Complex64 || k.Kind() == reflect.Complex128:
			return "map[complex]"
		}
		return "map[" + k.Kind().String() + "]"
	case reflect.Struct:
		for i := 0; i < t.NumField(); i++ {
			if t.Field(i).Anonymous {
				return "struct with an embedded struct"
			}
		}
		return "struct"
	}
	return v.Kind().String()
}

// contentClass names what is unusual in a string.
func contentClass(s string) string {
	if !utf8.ValidString(s) {
		return "invalid UTF-8"
	}
	cls := ""
	for _, r := range s {
		switch {
		case r < 0x20 || r == 0x7f:
			return "control character"
		case r == 0x2028 || r == 0x2029:
			cls = "U+2028/U+2029"
		case r == 0xFEFF && cls == "":
			cls = "U+FEFF"
		}
	}
	return cls
}

func contentSuffix(s string) string {
	if c := contentClass(s); c != "" {
		return ":" + c
	}
	return ""
}

// byteSlice reports whether encoding/json encodes values of t as base64: a
// slice whose element type is of kind uint8 and has no marshaler of its own.
func byteSlice(t reflect.Type) bool {
	if t.Kind() != reflect.Slice || t.Elem().Kind() != reflect.Uint8 {
		return false
	}
	p := reflect.PointerTo(t.Elem())
	return !p.Implements(reflect.TypeFor[json.Marshaler]()) && !p.Implements(reflect.TypeFor[encoding.TextMarshaler]())
}

// ptrMarshaler reports whether *t, but not t, implements json.Marshaler or
// encoding.TextMarshaler (encoding/json uses it for addressable values, such
// as slice elements).
func ptrMarshaler(t reflect.Type) bool {
	jm, tm := reflect.TypeFor[json.Marshaler](), reflect.TypeFor[encoding.TextMarshaler]()
	p := reflect.PointerTo(t)
	return !t.Implements(jm) && !t.Implements(tm) && (p.Implements(jm) || p.Implements(tm))
}

// children returns the values directly inside v.
func children(v reflect.Value) []reflect.Value {
	var out []reflect.Value
	if !v.IsValid() {
		return nil
	}
	switch v.Kind() {
	case reflect.Interface, reflect.Pointer:
		if !v.IsNil() {
			out = append(out, v.Elem())
		}
	case reflect.Slice, reflect.Array:
		if v.Type().Elem().Kind() == reflect.Uint8 {
			return nil // bytes are not descended into
		}
		for i := 0; i < v.Len(); i++ {
			out = append(out, v.Index(i))
		}
	case reflect.Map:
		keys := v.MapKeys()
		sort.Slice(keys, func(a, b int) bool { return fmt.Sprint(keys[a]) < fmt.Sprint(keys[b]) })
		for _, k := range keys {
			out = append(out, v.MapIndex(k))
		}
	case reflect.Struct:
		if v.Type() == timeT {
			return nil
		}
		for i := 0; i < v.NumField(); i++ {
			if v.Type().Field(i).PkgPath == "" {
				out = append(out, v.Field(i))
			}
		}
	}
	return out
}

// zeroClass is the class of the zero value of t (the classes of baseValues).
func zeroClass(t reflect.Type) string {
	switch {
	case t == bytesT:
		return "[]byte:nil"
	case t == timeT:
		return "time.Time:whole seconds"
	case t.Kind() == reflect.Pointer || t.Kind() == reflect.Slice || t.Kind() == reflect.Map:
		return "typed nil"
	}
	return "zero value"
}

type ctor struct {
	name string
	make func(t reflect.Type, x reflect.Value) reflect.Value
}

func field(name string, t reflect.Type, tag string) reflect.StructField {
	f := reflect.StructField{Name: name, Type: t, Tag: reflect.StructTag(tag)}
	if name[0] >= 'a' && name[0] <= 'z' {
		f.PkgPath = "main"
	}
	return f
}

func ptrTo(t reflect.Type, x reflect.Value) reflect.Value {
	p := reflect.New(t)
	p.Elem().Set(x)
	return p
}

var ctors = []ctor{
	{"[]any{x}", func(t reflect.Type, x reflect.Value) reflect.Value {
		s := reflect.MakeSlice(reflect.SliceOf(anyT), 1, 1)
		s.Index(0).Set(x)
		return s
	}},
	{"[]T{x}", func(t reflect.Type, x reflect.Value) reflect.Value {
		s := reflect.MakeSlice(reflect.SliceOf(t), 1, 1)
		s.Index(0).Set(x)
		return s
	}},
	{"[]T{zero,x}", func(t reflect.Type, x reflect.Value) reflect.Value {
		s := reflect.MakeSlice(reflect.SliceOf(t), 2, 2)
		s.Index(1).Set(x)
		return s
	}},
	{"[1]T{x}", func(t reflect.Type, x reflect.Value) reflect.Value {
		a := reflect.New(reflect.ArrayOf(1, t)).Elem()
		a.Index(0).Set(x)
		return a
	}},
	{"&x", ptrTo},
	{"map[string]any{k:x}", func(t reflect.Type, x reflect.Value) reflect.Value {
		m := reflect.MakeMap(reflect.MapOf(reflect.TypeFor[string](), anyT))
		m.SetMapIndex(reflect.ValueOf("k"), x)
		return m
	}},
	{"map[string]T{b:x,a:zero}", func(t reflect.Type, x reflect.Value) reflect.Value {
		m := reflect.MakeMap(reflect.MapOf(reflect.TypeFor[string](), t))
		m.SetMapIndex(reflect.ValueOf("b"), x)
		m.SetMapIndex(reflect.ValueOf("a"), reflect.Zero(t))
		return m
	}},
	{"struct-tags", func(t reflect.Type, x reflect.Value) reflect.Value {
		// A renamed, B renamed+omitempty, C "-", D untagged, E omitempty only, F other option, u unexported
		st := reflect.StructOf([]reflect.StructField{
			field("A", t, `json:"a"`), field("B", t, `json:"b,omitempty"`), field("C", t, `json:"-"`),
			field("D", t, ""), field("E", t, `json:",omitempty"`), field("F", t, `json:"f,string,omitempty"`), field("u", t, `json:"u"`),
		})
		s := reflect.New(st).Elem()
		for i := 0; i < 6; i++ {
			if i == 5 {
				continue // F stays zero: omitted by omitempty whatever ",string" means
			}
			s.Field(i).Set(x)
		}
		return s
	}},
	{"struct-embedded", func(t reflect.Type, x reflect.Value) reflect.Value {
		st := reflect.StructOf([]reflect.StructField{
			{Name: "Inner", Type: reflect.TypeFor[Inner](), Anonymous: true}, field("X", t, `json:"x"`),
		})
		s := reflect.New(st).Elem()
		s.Field(0).Field(0).SetInt(7)
		s.Field(1).Set(x)
		return s
	}},
	{"struct-pointer-fields", func(t reflect.Type, x reflect.Value) reflect.Value {
		pt := reflect.PointerTo(t)
		st := reflect.StructOf([]reflect.StructField{field("P", pt, `json:"p,omitempty"`), field("Q", pt, `json:"q"`), field("R", pt, `json:"r,omitempty"`), field("S", pt, "")})
		s := reflect.New(st).Elem()
		s.Field(1).Set(ptrTo(t, x))
		s.Field(2).Set(ptrTo(t, x))
		return s
	}},
	{"struct-any-fields", func(t reflect.Type, x reflect.Value) reflect.Value {
		st := reflect.StructOf([]reflect.StructField{field("V", anyT, `json:"v"`), field("W", anyT, `json:"w,omitempty"`), field("X", anyT, `json:"x,omitempty"`)})
		s := reflect.New(st).Elem()
		s.Field(0).Set(x)
		s.Field(2).Set(x)
		return s
	}},
}

// longLengths are lengths around the usual chunk and buffer sizes of
// streaming encoders and writers (and none is special for Base64's 3-byte
// groups by construction: n-1, n, n+1 cover the three residues).
var longLengths = []int{255, 256, 257, 511, 512, 513, 767, 768, 769, 1023, 1024, 1025, 3000, 5000}

// longBytes has position-dependent content, so that a dropped, repeated or
// reordered chunk changes the data.
func longBytes(n int) []byte {
	b := make([]byte, n)
	for i := range b {
		b[i] = byte(i*7 + i/256 + 3)
	}
	return b
}

// longString is exactly n bytes of valid UTF-8 with every kind of escaped
// character spread over its whole length (no position is a multiple of a
// power of two for long).
func longString(n int) string {
	pieces := []string{"a", "<", "b\"", "\\", "c", "\n", "\u00e9", "d", "\u2028", "'", "&", "\x00", "e</script>", "\U0001F600", "f>", "\t", "\u2029", "\r"}
	var b strings.Builder
	for i := 0; b.Len() < n; i++ {
		p := pieces[i%len(pieces)] + strconv.Itoa(i%10)
		if b.Len()+len(p) > n {
			p = strings.Repeat("x", n-b.Len())
		}
		b.WriteString(p)
	}
	return b.String()
}

// longValues are the long byte slices and strings, alone and inside every
// constructor.
func longValues() []*val {
	var level []*val
	for _, n := range longLengths {
		level = append(level, base(fmt.Sprintf("[]byte of %d bytes", n), "[]byte", longBytes(n)))
	}
	for _, n := range longLengths {
		level = append(level, base(fmt.Sprintf("string of %d bytes with escapes", n), "string", longString(n)))
	}
	level = append(level, base("MyBytes of 1025 bytes", "named []byte", MyBytes(longBytes(1025))))
	all := level
	for _, k := range level {
		t, x := k.elem()
		for _, c := range ctors {
			all = append(all, &val{label: c.name + " of " + k.label, cls: c.name, rv: c.make(t, x), kids: []*val{k}})
		}
	}
	return all
}

func universe(depth int) []*val {
	level := baseValues()
	for _, b := range level {
		if got := classOf(b.rv); got != b.cls {
			panic(fmt.Sprintf("C08: base value %s is declared of class %q but classOf says %q", b.label, b.cls, got))
		}
	}
	all := level
	for d := 1; d < depth; d++ {
		var next []*val
		for _, k := range level {
			t, x := k.elem()
			for _, c := range ctors {
				kids := []*val{k}
				if strings.Contains(c.name, "zero") {
					kids = append(kids, &val{label: "zero value of " + t.String(), cls: zeroClass(t), rv: reflect.Zero(t)})
				}
				next = append(next, &val{label: c.name + " of " + k.label, cls: c.name, rv: c.make(t, x), kids: kids})
			}
		}
		if d == 1 {
			// two-element slices over six representatives
			reps := []*val{level[0], base("int:1", "int", 1), base(`string:"a"`, "string", "a"), base("true", "bool", true), base("[]any{}", "slice", []any{}), base("map[string]any{}", "map[string]", map[string]any{})}
			for _, a := range reps {
				for _, b := range reps {
					s := reflect.MakeSlice(reflect.SliceOf(anyT), 2, 2)
					_, ax := a.elem()
					_, bx := b.elem()
					s.Index(0).Set(ax)
					s.Index(1).Set(bx)
					next = append(next, &val{label: "[]any{" + a.label + "," + b.label + "}", cls: "[]any{x,y}", rv: s, kids: []*val{a, b}})
				}
			}
		}
		all = append(all, next...)
		level = next
	}
	return all
}

// ---- the expected JavaScript data ----

type (
	wNull  struct{}
	wUndef struct{}
	wAny   struct{} // no firm expectation (trusted code)
	wBool  bool
	wNum   float64
	wInt   struct { // an integer: f is the nearest float64
		f     float64
		exact *big.Int
	}
	wStr  string
	wDate string
	wArr  []any
	wObj  struct {
		keys    []string
		vals    []any
		anyKeys int // > 0: the key texts are not modelled, only their number
	}
)

func implementsJSCode(t reflect.Type) bool {
	return t == reflect.TypeFor[native.JS]() || t.Implements(reflect.TypeFor[native.JSStringer]()) || t.Implements(reflect.TypeFor[native.JSEnvStringer]())
}

func implementsJSONCode(t reflect.Type) bool {
	return t == reflect.TypeFor[native.JSON]() || t.Implements(reflect.TypeFor[native.JSONStringer]()) || t.Implements(reflect.TypeFor[native.JSONEnvStringer]())
}

// isoDate is Date.prototype.toISOString for t.
func isoDate(t time.Time) string {
	t = t.UTC().Truncate(time.Millisecond)
	y := t.Year()
	ys := fmt.Sprintf("%04d", y)
	if y < 0 {
		ys = fmt.Sprintf("-%06d", -y)
	} else if y > 9999 {
		ys = fmt.Sprintf("+%06d", y)
	}
	return ys + t.Format("-01-02T15:04:05.000Z")
}

// emptyJSON is encoding/json's definition of an empty value for omitempty.
func emptyJSON(v reflect.Value) bool {
	switch v.Kind() {
	case reflect.Array, reflect.Map, reflect.Slice, reflect.String:
		return v.Len() == 0
	case reflect.Bool, reflect.Int, reflect.Int8, reflect.Int16, reflect.Int32, reflect.Int64,
		reflect.Uint, reflect.Uint8, reflect.Uint16, reflect.Uint32, reflect.Uint64, reflect.Uintptr,
		reflect.Float32, reflect.Float64, reflect.Interface, reflect.Pointer:
		return v.IsZero()
	}
	return false
}

// isArrayIndex reports whether s is a canonical array index (ECMAScript:
// integer-indexed own properties are enumerated first, in ascending order).
func isArrayIndex(s string) (uint64, bool) {
	if s == "" || len(s) > 10 || (s[0] == '0' && s != "0") {
		return 0, false
	}
	n, err := strconv.ParseUint(s, 10, 64)
	if err != nil || n >= 1<<32-1 {
		return 0, false
	}
	return n, true
}

// jsObject orders the properties as Object.keys of an object literal with
// these properties in this source order would.
func jsObject(keys []string, vals []any) wObj {
	var o wObj
	pos := map[string]int{}
	for i, k := range keys {
		if p, ok := pos[k]; ok {
			o.vals[p] = vals[i]
			continue
		}
		pos[k] = len(o.keys)
		o.keys = append(o.keys, k)
		o.vals = append(o.vals, vals[i])
	}
	idx := make([]int, len(o.keys))
	for i := range idx {
		idx[i] = i
	}
	sort.SliceStable(idx, func(a, b int) bool {
		na, ia := isArrayIndex(o.keys[idx[a]])
		nb, ib := isArrayIndex(o.keys[idx[b]])
		if ia != ib {
			return ia
		}
		return ia && na < nb
	})
	r := wObj{}
	for _, i := range idx {
		r.keys = append(r.keys, o.keys[i])
		r.vals = append(r.vals, o.vals[i])
	}
	return r
}

// keyText is the text of a map key, when there is an unambiguous one.
func keyText(k reflect.Value) (string, bool) {
	if k.Kind() == reflect.Interface {
		if k.IsNil() {
			return "", false
		}
		k = k.Elem()
	}
	if k.Type().Implements(stringerT) {
		return k.Interface().(fmt.Stringer).String(), true
	}
	switch k.Kind() {
	case reflect.String:
		return k.String(), true
	case reflect.Bool:
		return strconv.FormatBool(k.Bool()), true
	case reflect.Int, reflect.Int8, reflect.Int16, reflect.Int32, reflect.Int64:
		return strconv.FormatInt(k.Int(), 10), true
	case reflect.Uint, reflect.Uint8, reflect.Uint16, reflect.Uint32, reflect.Uint64, reflect.Uintptr:
		return strconv.FormatUint(k.Uint(), 10), true
	case reflect.Float32:
		return strconv.FormatFloat(k.Float(), 'f', -1, 32), true
	case reflect.Float64:
		return strconv.FormatFloat(k.Float(), 'f', -1, 64), true
	}
	return "", false
}

// expectJS is the data a Go value corresponds to in JavaScript.
func expectJS(v reflect.Value) any {
	if !v.IsValid() {
		return wNull{}
	}
	t := v.Type()
	if v.Kind() == reflect.Interface {
		if v.IsNil() {
			return wNull{}
		}
		return expectJS(v.Elem())
	}
	switch {
	case implementsJSCode(t):
		return wAny{}
	case t == timeT:
		return wDate(isoDate(v.Interface().(time.Time)))
	case t.Implements(errorT):
		if v.Kind() == reflect.Pointer && v.IsNil() {
			return wAny{}
		}
		return wStr(v.Interface().(error).Error())
	}
	switch v.Kind() {
	case reflect.Bool:
		return wBool(v.Bool())
	case reflect.Int, reflect.Int8, reflect.Int16, reflect.Int32, reflect.Int64:
		return wInt{float64(v.Int()), big.NewInt(v.Int())}
	case reflect.Uint, reflect.Uint8, reflect.Uint16, reflect.Uint32, reflect.Uint64, reflect.Uintptr:
		return wInt{float64(v.Uint()), new(big.Int).SetUint64(v.Uint())}
	case reflect.Float32:
		f := v.Float()
		if !math.IsNaN(f) && !math.IsInf(f, 0) {
			f, _ = strconv.ParseFloat(strconv.FormatFloat(f, 'g', -1, 32), 64)
		}
		return wNum(f)
	case reflect.Float64:
		return wNum(v.Float())
	case reflect.String:
		return wStr(v.String())
	case reflect.Slice:
		if byteSlice(t) { // plain or named, as encoding/json; nil is "" (the renderer's choice, see the assumptions)
			return wStr(base64.StdEncoding.EncodeToString(v.Bytes()))
		}
		if v.IsNil() {
			return wNull{}
		}
		fallthrough
	case reflect.Array:
		a := wArr{}
		for i := 0; i < v.Len(); i++ {
			a = append(a, expectJS(v.Index(i)))
		}
		return a
	case reflect.Pointer:
		if v.IsNil() {
			return wNull{}
		}
		return expectJS(v.Elem())
	case reflect.Struct:
		var keys []string
		var vals []any
		for i := 0; i < t.NumField(); i++ {
			f := t.Field(i)
			if f.PkgPath != "" {
				continue
			}
			name := f.Name
			if tag, ok := f.Tag.Lookup("json"); ok {
				if tag == "-" {
					continue
				}
				n, opts, _ := strings.Cut(tag, ",")
				if n != "" {
					name = n
				}
				omit := false
				for _, o := range strings.Split(opts, ",") {
					omit = omit || o == "omitempty"
				}
				if omit && emptyJSON(v.Field(i)) {
					continue
				}
			}
			keys = append(keys, name)
			vals = append(vals, expectJS(v.Field(i)))
		}
		return jsObject(keys, vals)
	case reflect.Map:
		if v.IsNil() {
			return wNull{}
		}
		type kv struct {
			k string
			v any
		}
		var kvs []kv
		firm := true
		it := v.MapRange()
		for it.Next() {
			s, ok := keyText(it.Key())
			firm = firm && ok
			kvs = append(kvs, kv{s, expectJS(it.Value())})
		}
		if !firm {
			return wObj{anyKeys: len(kvs)}
		}
		sort.Slice(kvs, func(a, b int) bool { return kvs[a].k < kvs[b].k })
		var keys []string
		var vals []any
		for _, e := range kvs {
			keys = append(keys, e.k)
			vals = append(vals, e.v)
		}
		return jsObject(keys, vals)
	}
	return wUndef{} // complex, func, chan, unsafe pointer: not representable
}

// units are the UTF-16 code units of the string the data holds: json.Marshal
// (the referee of C08) turns every byte that is not UTF-8 into one U+FFFD, as
// converting to []rune does. (The rendered output itself must be valid UTF-8,
// which is checked before; how a consumer would decode invalid bytes is C07's
// question, not this one.)
func units(s string) []uint16 { return utf16.Encode([]rune(s)) }

func sameUnits(a, b []uint16) bool {
	if len(a) != len(b) {
		return false
	}
	for i := range a {
		if a[i] != b[i] {
			return false
		}
	}
	return true
}

func showUnits(u []uint16) string { return strconv.QuoteToASCII(string(utf16.Decode(u))) }

func kindOfJS(v any) string {
	switch x := v.(type) {
	case nil:
		return "null"
	case bool:
		return "boolean"
	case nodejs.Num:
		return "number"
	case nodejs.Str:
		return "string"
	case nodejs.Arr:
		return "array"
	case nodejs.Date:
		return "Date"
	case nodejs.Obj:
		return "object"
	case nodejs.Other:
		return string(x)
	}
	return fmt.Sprintf("%T", v)
}

// compareJS returns "" when got is the data want, else (kind of difference,
// description); the kind has no values in it and goes into the failure key.
func compareJS(want, got any, path string) (kind, desc string) {
	mism := func(k, d string) (string, string) { return k, path + ": " + d }
	switch w := want.(type) {
	case wAny:
		return "", ""
	case wNull:
		if got != nil {
			return mism("null expected, "+kindOfJS(got)+" found", "")
		}
	case wUndef:
		if got != nodejs.Other("undefined") {
			return mism("undefined expected, "+kindOfJS(got)+" found", "")
		}
	case wBool:
		g, ok := got.(bool)
		if !ok {
			return mism("boolean expected, "+kindOfJS(got)+" found", "")
		}
		if g != bool(w) {
			return mism("boolean differs", fmt.Sprintf("expected %v found %v", w, g))
		}
	case wInt:
		return compareJS(wNum(w.f), got, path)
	case wNum:
		g, ok := got.(nodejs.Num)
		if !ok {
			return mism("number expected, "+kindOfJS(got)+" found", "")
		}
		gf := math.Float64frombits(uint64(g))
		if math.IsNaN(float64(w)) && math.IsNaN(gf) {
			return "", ""
		}
		if math.Float64bits(float64(w)) != uint64(g) {
			k := "number differs"
			if float64(w) == 0 && gf == 0 {
				k = "sign of zero differs"
			}
			return mism(k, fmt.Sprintf("expected %v found %v", float64(w), gf))
		}
	case wStr:
		g, ok := got.(nodejs.Str)
		if !ok {
			return mism("string expected, "+kindOfJS(got)+" found", "")
		}
		if !sameUnits(units(string(w)), g) {
			return mism("string differs", fmt.Sprintf("expected %s found %s", showUnits(units(string(w))), showUnits(g)))
		}
	case wDate:
		g, ok := got.(nodejs.Date)
		if !ok {
			return mism("Date expected, "+kindOfJS(got)+" found", "")
		}
		if string(g) != string(w) {
			k := "Date differs"
			if g == "invalid" {
				k = "Invalid Date"
			}
			return mism(k, fmt.Sprintf("expected %s found %s", w, g))
		}
	case wArr:
		g, ok := got.(nodejs.Arr)
		if !ok {
			return mism("array expected, "+kindOfJS(got)+" found", "")
		}
		if len(g) != len(w) {
			return mism("array length differs", fmt.Sprintf("expected %d found %d", len(w), len(g)))
		}
		for i := range w {
			if k, d := compareJS(w[i], g[i], fmt.Sprintf("%s[%d]", path, i)); k != "" {
				return k, d
			}
		}
	case wObj:
		g, ok := got.(nodejs.Obj)
		if !ok {
			return mism("object expected, "+kindOfJS(got)+" found", "")
		}
		var gk []string
		for _, k := range g.Keys {
			gk = append(gk, showUnits(k))
		}
		if w.anyKeys > 0 {
			if len(g.Keys) != w.anyKeys {
				return mism("object has fewer own properties than the map has entries", fmt.Sprintf("map has %d entries, object has the own properties %v", w.anyKeys, gk))
			}
			return "", ""
		}
		same := len(g.Keys) == len(w.keys)
		var wk []string
		for i, k := range w.keys {
			wk = append(wk, showUnits(units(k)))
			same = same && sameUnits(units(k), g.Keys[i])
		}
		if !same {
			return mism("own property names differ", fmt.Sprintf("expected Object.keys %v found %v (prototype: %q)", wk, gk, g.Proto))
		}
		if g.Proto != "" {
			return mism("object prototype changed", "prototype is "+g.Proto)
		}
		for i := range w.vals {
			if k, d := compareJS(w.vals[i], g.Vals[i], path+"."+wk[i]); k != "" {
				return k, d
			}
		}
	default:
		panic(fmt.Sprintf("compareJS: %T", want))
	}
	return "", ""
}

// ---- the JSON oracle ----

func decodeExact(b []byte) (any, error) {
	d := json.NewDecoder(bytes.NewReader(b))
	d.UseNumber()
	var v any
	if err := d.Decode(&v); err != nil {
		return nil, err
	}
	return v, nil
}

func kindOfJSON(v any) string {
	switch v.(type) {
	case nil:
		return "null"
	case bool:
		return "boolean"
	case json.Number:
		return "number"
	case string:
		return "string"
	case []any:
		return "array"
	case map[string]any:
		return "object"
	}
	return fmt.Sprintf("%T", v)
}

// compareJSON compares two decoded JSON texts exactly (numbers as rationals).
func compareJSON(want, got any, path string) (kind, desc string) {
	mism := func(k, d string) (string, string) { return k, path + ": " + d }
	if kindOfJSON(want) != kindOfJSON(got) {
		return mism(kindOfJSON(want)+" expected, "+kindOfJSON(got)+" found", "")
	}
	switch w := want.(type) {
	case bool:
		if w != got.(bool) {
			return mism("boolean differs", "")
		}
	case json.Number:
		a, ok1 := new(big.Rat).SetString(string(w))
		b, ok2 := new(big.Rat).SetString(string(got.(json.Number)))
		if !ok1 || !ok2 || a.Cmp(b) != 0 {
			return mism("number differs", fmt.Sprintf("encoding/json %s, shown %s", w, got))
		}
	case string:
		if w != got.(string) {
			return mism("string differs", fmt.Sprintf("encoding/json %+q, shown %+q", w, got))
		}
	case []any:
		g := got.([]any)
		if len(g) != len(w) {
			return mism("array length differs", fmt.Sprintf("encoding/json %d, shown %d", len(w), len(g)))
		}
		for i := range w {
			if k, d := compareJSON(w[i], g[i], fmt.Sprintf("%s[%d]", path, i)); k != "" {
				return k, d
			}
		}
	case map[string]any:
		g := got.(map[string]any)
		var wk, gk []string
		for k := range w {
			wk = append(wk, k)
		}
		for k := range g {
			gk = append(gk, k)
		}
		sort.Strings(wk)
		sort.Strings(gk)
		if fmt.Sprintf("%q", wk) != fmt.Sprintf("%q", gk) {
			return mism("object member names differ", fmt.Sprintf("encoding/json %q, shown %q", wk, gk))
		}
		for _, k := range wk {
			if kk, d := compareJSON(w[k], g[k], path+"."+strconv.Quote(k)); kk != "" {
				return kk, d
			}
		}
	}
	return "", ""
}

// scan reports whether pred holds for the type of v or of a value inside it.
func scan(v reflect.Value, pred func(reflect.Type) bool) bool {
	if !v.IsValid() {
		return false
	}
	if pred(v.Type()) {
		return true
	}
	switch v.Kind() {
	case reflect.Interface, reflect.Pointer:
		return !v.IsNil() && scan(v.Elem(), pred)
	case reflect.Slice, reflect.Array:
		for i := 0; i < v.Len(); i++ {
			if scan(v.Index(i), pred) {
				return true
			}
		}
	case reflect.Map:
		it := v.MapRange()
		for it.Next() {
			if scan(it.Key(), pred) || scan(it.Value(), pred) {
				return true
			}
		}
	case reflect.Struct:
		if v.Type() == timeT {
			return false
		}
		for i := 0; i < v.NumField(); i++ {
			if v.Type().Field(i).PkgPath == "" && scan(v.Field(i), pred) {
				return true
			}
		}
	}
	return false
}

// ---- contexts ----

type shownIn struct {
	name      string
	js        bool
	file      string
	pre, post string
	anyTmpl   *scriggo.Template
}

var contexts = []*shownIn{
	{name: "JS in <script>", js: true, file: "index.html", pre: "<script>", post: "</script>"},
	{name: "JS in .js", js: true, file: "index.js"},
	{name: "JSON in .json", file: "index.json"},
	{name: "JSON in <script type=application/ld+json>", file: "index.html", pre: `<script type="application/ld+json">`, post: "</script>"},
}

func (c *shownIn) source() string { return c.pre + "{{ v }}" + c.post }

func (c *shownIn) build(decl any) (*scriggo.Template, error) {
	return scriggo.BuildTemplate(scriggo.Files{c.file: []byte(c.source())}, c.file, &scriggo.BuildOptions{Globals: native.Declarations{"v": decl}})
}

var tmplCache sync.Map // tmplKey → *tmplEntry

type tmplKey struct {
	c *shownIn
	t reflect.Type
}

type tmplEntry struct {
	once sync.Once
	t    *scriggo.Template
	err  error
}

// template returns the context's template for a global v of static type t
// (nil = any).
func (c *shownIn) template(t reflect.Type) (*scriggo.Template, error) {
	if t == nil {
		return c.anyTmpl, nil
	}
	e, _ := tmplCache.LoadOrStore(tmplKey{c, t}, &tmplEntry{})
	te := e.(*tmplEntry)
	te.once.Do(func() {
		te.t, te.err = c.build(reflect.Zero(reflect.PointerTo(t)).Interface())
	})
	return te.t, te.err
}

// code returns the JavaScript / JSON text a consumer of the output sees.
func (c *shownIn) code(out []byte) ([]byte, error) {
	if c.file != "index.html" {
		return out, nil
	}
	toks := htmltok.Tokenize(string(out))
	if len(toks) == 3 && toks[0].Type == html.StartTagToken && toks[0].Data == "script" && toks[1].Type == html.TextToken &&
		toks[2].Type == html.EndTagToken && toks[2].Data == "script" {
		return []byte(toks[1].Data), nil
	}
	return nil, fmt.Errorf("the HTML tokenizer does not see <script>TEXT</script> but %d tokens", len(toks))
}

// ---- evaluation ----

type shown struct {
	v        *val
	c        *shownIn
	static   bool // global of the concrete type instead of any
	na       bool
	buildErr error
	runErr   error
	panicked bool
	out      []byte
	code     []byte
	codeErr  error
	js       nodejs.ValueResult
}

func (s *shown) run() {
	var t reflect.Type
	if s.static {
		if !s.v.rv.IsValid() {
			s.na = true
			return
		}
		t = s.v.rv.Type()
	}
	tmpl, err := s.c.template(t)
	if err != nil {
		s.buildErr = err
		return
	}
	s.out, s.runErr, s.panicked = runTemplate(tmpl, s.v, s.static, true)
	if s.runErr == nil && !s.panicked {
		s.code, s.codeErr = s.c.code(s.out)
	}
}

func runTemplate(tmpl *scriggo.Template, v *val, static, protect bool) (out []byte, err error, panicked bool) {
	if protect {
		defer func() {
			if recover() != nil {
				panicked = true
			}
		}()
	}
	var vars map[string]any
	if static {
		vars = map[string]any{"v": v.iface()}
	} else {
		x := v.iface()
		vars = map[string]any{"v": &x}
	}
	var b bytes.Buffer
	err = tmpl.Run(&b, vars, nil)
	return b.Bytes(), err, false
}

// emptyCode reports whether v contains an empty native.JS / native.JSON: the
// zero value of a trusted-code type is not valid code, which is the host's
// responsibility.
func emptyCode(v reflect.Value) bool {
	if !v.IsValid() {
		return false
	}
	if t := v.Type(); t == reflect.TypeFor[native.JS]() || t == reflect.TypeFor[native.JSON]() {
		return v.Len() == 0
	}
	switch v.Kind() {
	case reflect.Interface, reflect.Pointer:
		return !v.IsNil() && emptyCode(v.Elem())
	case reflect.Slice, reflect.Array:
		for i := 0; i < v.Len(); i++ {
			if emptyCode(v.Index(i)) {
				return true
			}
		}
	case reflect.Map:
		it := v.MapRange()
		for it.Next() {
			if emptyCode(it.Value()) {
				return true
			}
		}
	case reflect.Struct:
		for i := 0; i < v.NumField(); i++ {
			if v.Type().Field(i).PkgPath == "" && emptyCode(v.Field(i)) {
				return true
			}
		}
	}
	return false
}

// judge returns the problem ("" if none) of a successfully rendered case.
func (s *shown) judge() (problem, detail string) {
	if emptyCode(s.v.rv) {
		return "", "not judged"
	}
	if s.codeErr != nil {
		return "the value ends the <script> element", s.codeErr.Error()
	}
	if !utf8.Valid(s.code) {
		return "the output is not valid UTF-8", fmt.Sprintf("first invalid byte at offset %d", firstInvalid(s.code))
	}
	if s.c.js {
		if s.js.Err != nil {
			if s.js.Err.Phase == "parse" {
				return "not one JavaScript expression", "node: " + s.js.Err.Msg
			}
			name, _, _ := strings.Cut(s.js.Err.Msg, ":")
			return "evaluating the expression throws " + name, "node: " + s.js.Err.Msg
		}
		want := expectJS(s.v.rv)
		if s.v.jsonRef {
			if mb, err := json.Marshal(s.v.iface()); err == nil {
				want = mergeWant(wantFromJSON(mb), want)
				if k, d := compareJS(want, s.js.Value, "$"); k != "" {
					return "evaluates to other data than json.Marshal's output decodes to: " + k, d + "\njson.Marshal gives " + string(mb)
				}
				return "", ""
			}
		}
		k, d := compareJS(want, s.js.Value, "$")
		if k != "" {
			return "evaluates to other data: " + k, d
		}
		if json.Valid(s.code) { // a literal without Date/undefined: its integers can be read exactly
			if dec, err := decodeExact(s.code); err == nil {
				if d := exactInts(want, dec, "$"); d != "" {
					return "an integer literal does not denote the exact value", d
				}
			}
		}
		return "", ""
	}
	if !json.Valid(s.code) {
		return "not valid JSON", "json.Valid reports false"
	}
	if scan(s.v.rv, implementsJSONCode) || scan(s.v.rv, func(t reflect.Type) bool {
		return t.Implements(errorT) && !t.Implements(reflect.TypeFor[json.Marshaler]()) && !t.Implements(reflect.TypeFor[encoding.TextMarshaler]())
	}) {
		return "", "valid only" // trusted JSON code / error values shown as their message: no encoding/json counterpart
	}
	mb, err := json.Marshal(s.v.iface())
	if err != nil {
		return "", ""
	}
	want, err1 := decodeExact(mb)
	got, err2 := decodeExact(s.code)
	if err1 != nil || err2 != nil {
		return "not decodable by encoding/json", fmt.Sprint(err1, err2)
	}
	if k, d := compareJSON(want, got, "$"); k != "" {
		return "decodes to other data than json.Marshal's output: " + k, d + "\njson.Marshal gives " + string(mb)
	}
	return "", ""
}

// alone returns the problem of v shown alone (as any) in the context.
func (c *shownIn) alone(v *val) (problem, detail string) {
	s := &shown{v: v, c: c}
	s.run()
	if s.buildErr != nil || s.runErr != nil || s.panicked {
		return "", ""
	}
	if c.js && s.codeErr == nil {
		s.js = nodejs.EvalValues([][]byte{s.code})[0]
	}
	return s.judge()
}

// culprit descends to the smallest value inside v that has a problem on its
// own and returns it with that problem.
func (c *shownIn) culprit(v reflect.Value, jsonRef bool, problem, detail string) (reflect.Value, string, string) {
	for _, k := range children(v) {
		if k.Kind() == reflect.Interface && !k.IsNil() {
			k = k.Elem()
		}
		kv := &val{label: "sub-value", rv: k, jsonRef: jsonRef}
		if k.Kind() == reflect.Interface { // nil interface
			kv.rv = reflect.Value{}
		}
		if p, d := c.alone(kv); p != "" {
			return c.culprit(kv.rv, jsonRef, p, d)
		}
	}
	return v, problem, detail
}

var nilReceiver = regexp.MustCompile(`value method .* called using nil \*.* pointer|invalid memory address or nil pointer dereference`)

// rerunPanicking runs the case again. A panic raised by calling a method of
// the shown value through a nil pointer is host code panicking (not judged);
// any other panic propagates to the kit, which keys it by its first scriggo
// frame.
func (s *shown) rerunPanicking() (o kit.Outcome, handled bool) {
	tmpl := s.c.anyTmpl
	if s.static {
		tmpl, _ = s.c.template(s.v.rv.Type())
	}
	defer func() {
		e := recover()
		if e == nil {
			return
		}
		msg := fmt.Sprint(e)
		if err, ok := e.(error); ok {
			msg = err.Error()
		}
		st := string(debug.Stack())
		if !nilReceiver.MatchString(msg) || !nilPointerInside(s.v.rv) {
			panic(e)
		}
		// The panic is raised by the host's own method (called through a nil
		// pointer); scriggo propagates panics of host code by design.
		o = kit.Outcome{OK: true, Class: "not judged: a nil pointer whose type has an Error/JS/JSON method is inside (the host method panics on it)", Ops: 1}
		_ = st
		handled = true
	}()
	runTemplate(tmpl, s.v, s.static, false)
	return kit.Outcome{}, false
}

// nilPointerInside reports whether v contains a nil pointer whose type
// implements error, JSStringer or JSONStringer.
func nilPointerInside(v reflect.Value) bool {
	if !v.IsValid() {
		return false
	}
	switch v.Kind() {
	case reflect.Pointer:
		if v.IsNil() {
			t := v.Type()
			return t.Implements(errorT) || implementsJSCode(t) || implementsJSONCode(t)
		}
		return nilPointerInside(v.Elem())
	case reflect.Interface:
		return !v.IsNil() && nilPointerInside(v.Elem())
	case reflect.Slice, reflect.Array:
		for i := 0; i < v.Len(); i++ {
			if nilPointerInside(v.Index(i)) {
				return true
			}
		}
	case reflect.Map:
		it := v.MapRange()
		for it.Next() {
			if nilPointerInside(it.Value()) {
				return true
			}
		}
	case reflect.Struct:
		for i := 0; i < v.NumField(); i++ {
			if v.Type().Field(i).PkgPath == "" && nilPointerInside(v.Field(i)) {
				return true
			}
		}
	}
	return false
}

func (s *shown) outcome() kit.Outcome {
	lang := "JSON"
	if s.c.js {
		lang = "JS"
	}
	switch {
	case s.na:
		return kit.Outcome{OK: true, Class: "n/a (the untyped nil has no concrete type)"}
	case s.buildErr != nil:
		return kit.Outcome{OK: true, Class: lang + ": rejected at build"}
	case s.panicked:
		if o, handled := s.rerunPanicking(); handled { // else it panics again, on the stack the kit inspects
			return o
		}
	case s.runErr != nil:
		return kit.Outcome{OK: true, Class: lang + ": run-time error (C09's business)", Nontrivial: true}
	}
	problem, detail := s.judge()
	if problem == "" {
		cl := "valid, same data"
		if s.c.js && losesPrecision(s.v.rv) {
			cl = "valid, same data; an exact integer literal beyond 2^53 evaluates to the nearest double (inherent to JavaScript numbers)"
		}
		if detail == "not judged" {
			cl = "not judged (empty trusted code inside)"
		} else if detail == "valid only" {
			cl = "valid (trusted code or an error value inside: no encoding/json counterpart)"
		} else if !s.c.js {
			if _, err := json.Marshal(s.v.iface()); err != nil {
				cl = "valid (json.Marshal rejects the value: nothing to compare)"
			}
		}
		return kit.Outcome{OK: true, Class: lang + ": " + cl, Nontrivial: true, Ops: len(s.out)}
	}
	cu, cproblem, cdetail := s.c.culprit(s.v.rv, s.v.jsonRef, problem, detail)
	cuv := &val{rv: cu}
	inner := ""
	if cu != s.v.rv {
		inner = fmt.Sprintf("\nsmallest value inside it with a problem of its own: %s\n%s: %s", goValue(cuv), cproblem, cdetail)
	}
	mode := "any"
	decl := "(*any)(nil)"
	if s.static {
		mode = "the concrete type"
		decl = fmt.Sprintf("(*%s)(nil)", s.v.rv.Type())
	}
	cls := classOf(cu)
	if cu == s.v.rv && s.v.forceCls != "" {
		cls = s.v.forceCls
		if s.v.jsonRef && cproblem != "the output is not valid UTF-8" {
			cproblem = "differs from encoding/json" // the class names the defect; how it differs is in the detail
		}
	}
	if cproblem == "the output is not valid UTF-8" {
		cls = "string content: invalid UTF-8" // one defect, whatever the position of the string
	}
	return kit.Outcome{
		Key:        lang + "|" + cproblem + "|" + cls,
		Class:      "fail",
		Nontrivial: true,
		Ops:        len(s.out),
		Detail: fmt.Sprintf("file %s = %q, global v declared as %s (%s), run with v = %s\nGo value: %s\nrendered: %+q\n%s: %s%s",
			s.c.file, s.c.source(), decl, mode, s.v.label, goValue(s.v), string(s.out), problem, detail, inner),
	}
}

func goValue(v *val) string {
	s := fmt.Sprintf("%#v", v.iface())
	if len(s) > 300 {
		s = s[:300] + "…"
	}
	return s
}

func spaces(tier string) []kit.Space {
	depth := 2
	if tier == "thorough" {
		depth = 3
	}
	for _, c := range contexts {
		t, err := c.build((*any)(nil))
		if err != nil {
			panic("C08: " + c.name + ": " + err.Error())
		}
		c.anyTmpl = t
	}
	return append([]kit.Space{
		valueSpace(fmt.Sprintf("values to depth %d x 4 contexts x {any, concrete type}", depth), universe(depth)),
		valueSpace("long byte slices and strings, alone and in every constructor x 4 contexts x {any, concrete type}", longValues()),
	}, round2Spaces()...)
}

func valueSpace(name string, u []*val, ctxs ...*shownIn) kit.Space {
	if len(ctxs) == 0 {
		ctxs = contexts
	}
	per := uint64(len(ctxs) * 2)
	size := uint64(len(u)) * per
	at := func(i uint64) *shown {
		r := i % per
		return &shown{v: u[i/per], c: ctxs[r/2], static: r%2 == 1}
	}
	cache := &blocks.Cache[*shown]{}
	compute := func(from, to uint64) []*shown {
		ss := make([]*shown, 0, to-from)
		var codes [][]byte
		var idx []int
		for i := from; i < to; i++ {
			s := at(i)
			s.run()
			if s.c.js && s.code != nil && s.codeErr == nil {
				codes = append(codes, s.code)
				idx = append(idx, len(ss))
			}
			ss = append(ss, s)
		}
		for k, r := range nodejs.EvalValues(codes) {
			ss[idx[k]].js = r
		}
		return ss
	}
	return kit.Space{
		Name: name,
		Size: size,
		Eval: func(i uint64) kit.Outcome { return cache.Get(i, size, compute).outcome() },
		Describe: func(i uint64) any {
			s := at(i)
			st := "any"
			if s.static && s.v.rv.IsValid() {
				st = s.v.rv.Type().String()
			}
			return map[string]string{"value": s.v.label, "Go value": goValue(s.v), "file": s.c.file, "template": s.c.source(), "static type of the global v": st}
		},
	}
}

func main() {
	kit.Main(&kit.Check{
		ID:    "C08",
		Level: "model_checking",
		Rule:  "value universe = 101 base values (untyped nil; bools; min/max of every int and uint width, 2^53+1, uintptr; floats 0, -0, 1.5, 1e21, max, smallest denormal, NaN, ±Inf, float32 0.1/max/NaN/-Inf; strings empty, </script><!--<script>, U+2028/9, non-UTF-8, quotes and controls, astral; named string/int/[]byte; nil/empty/non-empty []byte; typed nil pointer/slice/map; time.Time in UTC, +02:00 with milliseconds, -03:30, year 0, year 10000, year -1, zone offset with seconds; error values; trusted native.JS/JSON and JSStringer/JSONStringer; a json.Marshaler; complex, func, chan; maps with <= 3 entries for every key kind: string incl. \"\", __proto__, integer-like and </script> keys, named string, bool, every int/uint width, uintptr, float32/64, complex64/128, a Stringer struct, interface, array) closed under 11 constructors ([]any{x}, []T{x}, []T{zero,x}, [1]T{x}, &x, map[string]any{k:x}, map[string]T{b:x,a:zero}, struct with json tags rename/omitempty/-/untagged/option-only/unexported, struct embedding a struct, struct of nil and non-nil *T fields with and without omitempty, struct of any fields) plus all 36 two-element []any over 6 representatives, to depth 2 (quick) / 3 (thorough); plus, in both tiers, []byte values of 255, 256, 257, 511, 512, 513, 767, 768, 769, 1023, 1024, 1025, 3000 and 5000 bytes with position-dependent content, strings of the same byte lengths with every escaped character spread over them, and a named []byte of 1025 bytes, each alone and inside each of the 11 constructors; each value x {JS in <script>, JS in .js, JSON in .json, JSON in <script type=application/ld+json>} x {global of type any, global of the value's concrete type}. Round 2 spaces (both tiers): (1) struct tags: 34 tags (,string; omitempty in every position of the option list, with string/omitzero/unknown options, alone, and as a NAME; omitzero; the tags -, '-,' and '-,omitempty'; empty names; no json key; unknown and space-padded options; names with punctuation, unicode letters, quotes/backslash/emoji; integer-like name) x 31 field values (an empty and a non-empty value of int, string, bool, float incl. -0, uint8, int64 max, *int, []int nil/empty/non-empty, map nil/empty/non-empty, [0]int, [2]int, struct, an IsZero implementer, time.Time, any) plus 18 structs with embedded struct / *struct (nil and not) with and without tags, shadowed and conflicting promoted names, unexported and non-struct embedded types, duplicate and case-differing names, in .js and .json; (2) 83 unusual strings (every C0 control character, U+007F, U+0080, U+0085, U+00A0, U+2028, U+2029, U+FEFF first and inside, U+FFFD, U+FFFE, U+FFFF, astral, seven kinds of invalid UTF-8 incl. overlong, truncated and WTF-8/CESU-8 surrogates, </script>, </SCRIPT >, <script>, <!--, -->, ]]>, <![CDATA[, entities, quotes, backslash-u, template-literal and comment delimiters, CR LF) x 12 positions (string, named string, map key alone and beside another, map value, []string element, struct fields with and without omitempty, text of errors.New and of a struct error, error in a slice, String() of a map key, any in a struct) in all 4 contexts; (3) numbers: int64/int/named int64 around ±2^53 and at min/max, uint64/uint/uintptr/named at 2^53+1, 2^63, 2^64-1 and neighbours, 30 float64 and 16 float32 values at the limits of the shortest representation (denormals, max, 1e21..1e23, 1e-6/1e-7, 0.1+0.2, -0, 2^24+1 as float32) and their named types, each alone, in a slice, in a struct with omitempty and as map key and value, in .js and .json; (4) named string/bool/int/map/slice/array/struct/time/pointer/any/[]uint16/[2]byte/[][]byte types, the 16 struct types implementing every subset of {json.Marshaler, encoding.TextMarshaler, fmt.Stringer, error}, string- and int-kinded error/Stringer/TextMarshaler types, pointer-receiver marshalers, maps keyed by TextMarshalers, Stringers, named ints/bools and integers, each alone, behind a pointer, as a nil pointer, in a struct and in a slice, in .js and .json; (5) writers: the template [{{ v }},{{ w }}] in the 4 contexts with 8 values of 14 sizes, 8 runs back to back and 8 goroutines x 4 rounds through a blocking writer that reads the slice only after yielding, compared with a copying writer. Non-trivial = the template built and ran, so an oracle judged the output",
		Assumptions: []string{
			"JavaScript oracle: /usr/bin/node v20 parses the output both as `[OUT\\n]` (exactly one element) and as `(OUT\\n)`, i.e. as exactly one AssignmentExpression, evaluates it, and the value is compared structurally (numbers by IEEE bits so -0 and NaN count, strings by UTF-16 code units, Date by toISOString, objects by Object.keys order and prototype) with the data model: nil → null; bool; every int/uint/float kind → the nearest float64 (float32 through its shortest decimal form, as encoding/json does); string → string (a non-UTF-8 byte → U+FFFD); error → its message; []byte → base64 string; other slices, arrays → array (nil slice → null); pointer → pointee or null; time.Time → Date of the same instant truncated to milliseconds; map → object whose properties are in ascending key order (integer-like keys first, ascending, as ECMAScript orders own properties), keys being the string / decimal / true|false / String() text; struct → object of the exported fields in field order honouring json tags (name, -, omitempty with encoding/json's notion of empty); complex, func, chan → undefined",
			"where JavaScript has no standard counterpart the model follows the renderer and does not judge it: an embedded struct is a property named after its type, a nil []byte (plain or named) is \"\"; a named []byte is a base64 string like a plain one, as for encoding/json; map keys of complex kind are only counted (the object must have as many own properties as the map has entries); trusted code (native.JS, JSStringer) is only required to parse and evaluate",
			"every output must be valid UTF-8 (RFC 8259 §8.1 for JSON; a JavaScript source with other bytes is changed by the decoder before it is parsed); keyed apart from the data comparison, which treats an invalid byte as U+FFFD exactly as encoding/json (JSON) and the WHATWG decoder (JS) do",
			"integers beyond 2^53: the statement asks JavaScript for the corresponding data, and a double is all JavaScript has, so an exact literal that evaluates to the nearest double is not judged a breach (classed apart: 'an exact integer literal beyond 2^53 evaluates to the nearest double'); but the literal itself must denote the exact Go integer (read back with encoding/json when the output is also JSON), key 'an integer literal does not denote the exact value'. For JSON the rational value of every number must equal encoding/json's",
			"struct tag space: encoding/json referees the JavaScript context too (which members, under which names, with which values), except that a time.Time is a Date; the key names the tag class, the detail says how the data differ",
			"writers: io.Writer forbids an implementation to retain p after Write returns, and encoding/base64's encoder (through which []byte values are written) legally reuses its buffer between Writes, so a writer that reads the slice after Write has returned is NOT used (it fails on a correct renderer); the blocking writer reads late but within Write. The concurrent case is a race by nature: it passes deterministically on a correct tree, a shared buffer is found with high but not certain probability per run",
			"JSON oracle: json.Valid(output), and when json.Marshal accepts the value the two texts must decode (UseNumber, numbers compared as exact rationals) to equal data. Values containing trusted JSON code (native.JSON, JSONStringer) or error values (shown as their message by design, encoding/json has no counterpart) are only required to be valid JSON",
			"a Run error is classed apart and not judged here (C09); a build rejection of the concrete type is fine",
			"a value containing a nil pointer whose type has an Error, JS or JSON method makes Run panic inside that host method (fmt and encoding/json check for nil first; scriggo propagates panics of host code): such cases are classed apart and not judged; an empty native.JS / native.JSON (zero value of a trusted-code type) is not valid code and is not judged either",
			"values deeper than the tier's depth, slices/maps with more than 2-3 entries, cyclic values and duplicate JSON names in one struct are not explored",
		},
		Spaces: spaces,
	})
}
