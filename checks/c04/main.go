// C04 — building never crashes, hangs or leaks, whatever the source bytes.
//
// Every byte string up to a bound over lexer-relevant alphabets is built as a
// program, as a template of every format, inside Go-code wrappers and as the
// partial of multi-file templates; plus every truncation and every single
// byte substitution of the corpus files. Runs in crash-isolated workers: an
// input that kills the process (panic on the lexer goroutine, fatal error) or
// hangs it is identified by heartbeat and re-confirmed alone.
package main

import (
	"errors"
	"fmt"
	"io/fs"
	"os"
	"path/filepath"
	"runtime"
	"sort"
	"strings"
	"time"

	"verif/kit"

	"github.com/open2b/scriggo"
)

// byte alphabet chosen from the lexer's switches (template level)
var tplAlphabet = []string{"{", "}", "%", "#", "\"", "'", "`", "\\", "<", ">", "/", "*", "=", "-", ".", "0", "x", "_", "\n", "\r", " ", "a", "\x00", "\xef", "\xff"}

// token alphabet for Go code inside {% %}, {{ }} and function bodies
var goAlphabet = []string{"(", ")", "[", "]", "{", "}", "\"", "'", "`", "\\", "0", "x", ".", "e", "+", "-", "*", "/", "<", "=", "!", "&", "|", ":", ",", ";", " ", "a", "_", "\n", "\xff", "%", "#"}

var formats = []string{"html", "css", "js", "json", "md", "txt"}

type variant struct {
	name  string
	alpha []string
	files func(s string) (scriggo.Files, string, bool) // files, entry name, isProgram
}

func tplVariant(ext, pre, post string, alpha []string, tag string) variant {
	return variant{
		name:  "template." + ext + tag,
		alpha: alpha,
		files: func(s string) (scriggo.Files, string, bool) {
			return scriggo.Files{"index." + ext: []byte(pre + s + post)}, "index." + ext, false
		},
	}
}

func variants() []variant {
	vs := []variant{
		{name: "program.raw", alpha: tplAlphabet, files: func(s string) (scriggo.Files, string, bool) {
			return scriggo.Files{"main.go": []byte(s)}, "", true
		}},
		{name: "program.body", alpha: goAlphabet, files: func(s string) (scriggo.Files, string, bool) {
			return scriggo.Files{"main.go": []byte("package main\nfunc main() { " + s + " }\n")}, "", true
		}},
		{name: "program.decl", alpha: goAlphabet, files: func(s string) (scriggo.Files, string, bool) {
			return scriggo.Files{"main.go": []byte("package main\nvar v = " + s + "\nfunc main() { }\n")}, "", true
		}},
	}
	for _, f := range formats {
		vs = append(vs, tplVariant(f, "", "", tplAlphabet, ""))
	}
	vs = append(vs,
		tplVariant("html", "{{ ", " }}", goAlphabet, ".show"),
		tplVariant("html", "{% ", " %}", goAlphabet, ".stmt"),
		tplVariant("html", "{%% ", " %%}", goAlphabet, ".block"),
		tplVariant("html", "<a href=\"", "\">", tplAlphabet, ".attr"),
		tplVariant("html", "<script>", "</script>", tplAlphabet, ".script"),
		tplVariant("html", "<style>", "</style>", tplAlphabet, ".style"),
		tplVariant("md", "    ", "\n", tplAlphabet, ".code"),
	)
	for _, how := range []string{"render", "import", "extends"} {
		how := how
		vs = append(vs, variant{name: "partial." + how, alpha: tplAlphabet, files: func(s string) (scriggo.Files, string, bool) {
			var idx string
			switch how {
			case "render":
				idx = `a{{ render "p.html" }}b`
			case "import":
				idx = `{% import "p.html" %}a`
			case "extends":
				idx = `{% extends "p.html" %}{% macro M %}x{% end %}`
			}
			return scriggo.Files{"index.html": []byte(idx), "p.html": []byte(s)}, "index.html", false
		}})
	}
	return vs
}

var baseGoroutines = -1

// buildOnce builds the files and checks the C04 oracle.
func buildOnce(files scriggo.Files, name string, isProgram bool) kit.Outcome {
	return buildOnceOpts(files, name, isProgram, nil)
}

func buildOnceOpts(files scriggo.Files, name string, isProgram bool, opts *scriggo.BuildOptions) kit.Outcome {
	if baseGoroutines < 0 {
		baseGoroutines = runtime.NumGoroutine()
	}
	o := kit.Outcome{OK: true, Nontrivial: true}
	var err error
	if isProgram {
		var p *scriggo.Program
		p, err = scriggo.Build(files, opts)
		if err == nil {
			o.Class = "program-built"
			if _, derr := p.Disassemble("main"); derr != nil {
				return kit.Outcome{Key: "disassemble-error|" + kit.NormMsg(derr.Error()), Detail: derr.Error(), Class: "fail", Nontrivial: true}
			}
		}
	} else {
		var t *scriggo.Template
		t, err = scriggo.BuildTemplate(files, name, opts)
		if err == nil {
			o.Class = "template-built"
			_ = t.Disassemble(-1)
			_ = t.Disassemble(3)
			_ = t.UsedVars()
		}
	}
	if err != nil {
		var be *scriggo.BuildError
		switch {
		case errors.As(err, &be):
			o.Class = "BuildError"
		case errors.Is(err, fs.ErrNotExist):
			o.Class = "fs.ErrNotExist"
		default:
			return kit.Outcome{Key: "error-type|" + fmt.Sprintf("%T", err) + "|" + kit.NormMsg(err.Error()), Detail: fmt.Sprintf("Build returned %T: %v (want *BuildError or fs error)", err, err), Class: "fail", Nontrivial: true}
		}
	}
	// leak oracle: the lexer goroutine must be gone once Build has returned.
	// Build is synchronous, so a compiler goroutine that is still BLOCKED
	// (chan send/receive/select) after Build returned can never be woken: a
	// leak. One that is merely runnable/running has not been scheduled yet;
	// wait for it (a spinning one is reported after 20 s).
	if runtime.NumGoroutine() > baseGoroutines {
		start := time.Now()
		for k := 0; runtime.NumGoroutine() > baseGoroutines; k++ {
			runtime.Gosched()
			if k%200 != 199 {
				continue
			}
			buf := make([]byte, 1<<16)
			buf = buf[:runtime.Stack(buf, true)]
			found := false
			for _, g := range strings.Split(string(buf), "\n\n") {
				if !strings.Contains(g, "scriggo/internal/compiler") || strings.Contains(g, "checks/c04") {
					continue
				}
				found = true
				hdr := g
				if i := strings.IndexByte(g, '\n'); i >= 0 {
					hdr = g[:i]
				}
				blocked := strings.Contains(hdr, "[chan ") || strings.Contains(hdr, "[select") || strings.Contains(hdr, "[sync.") || strings.Contains(hdr, "[semacquire")
				if blocked || time.Since(start) > 20*time.Second {
					state := "spinning"
					if blocked {
						state = "blocked"
					}
					return kit.Outcome{Key: "goroutine-leak|" + kit.FirstRepoFrame(g) + "|" + state, Detail: "goroutine of the compiler still alive after Build returned:\n" + g, Class: "fail", Nontrivial: true}
				}
			}
			if !found {
				baseGoroutines = runtime.NumGoroutine() // a goroutine of the harness/runtime, not of the compiler
			}
			time.Sleep(time.Millisecond)
		}
	}
	return o
}

// tableSource generates a program or template with n distinct entries of one kind.
func tableSource(kind string, n int) (scriggo.Files, string, bool) {
	var b strings.Builder
	switch kind {
	case "texts":
		for i := 0; i < n; i++ {
			fmt.Fprintf(&b, "text %d {{ %d }}\n", i, i)
		}
		return scriggo.Files{"index.html": []byte(b.String())}, "index.html", false
	case "tmpl-strings":
		b.WriteString("{% var t = \"\" %}")
		for i := 0; i < n; i++ {
			fmt.Fprintf(&b, "{%% t = \"k%d\" %%}{{ t }}", i)
		}
		return scriggo.Files{"index.html": []byte(b.String())}, "index.html", false
	case "macros":
		for i := 0; i < n; i++ {
			fmt.Fprintf(&b, "{%% macro M%d %%}m%d{%% end %%}", i, i)
		}
		for i := 0; i < n; i++ {
			fmt.Fprintf(&b, "{{ M%d() }}", i)
		}
		return scriggo.Files{"index.html": []byte(b.String())}, "index.html", false
	}
	b.WriteString("package main\n")
	switch kind {
	case "types":
		for i := 0; i < n; i++ {
			fmt.Fprintf(&b, "type T%d struct{ F%d int }\n", i, i)
		}
	case "functions":
		for i := 0; i < n; i++ {
			fmt.Fprintf(&b, "func f%d() int { return %d }\n", i, i)
		}
	}
	b.WriteString("func main() {\n\ts := 0\n\tt := \"\"\n\t_ = t\n\tvar e interface{}\n\t_ = e\n")
	for i := 0; i < n; i++ {
		switch kind {
		case "strings":
			// a non-constant use: len("lit") would be folded and never reach the table
			fmt.Fprintf(&b, "\tt = \"str-%d\"\n\ts += len(t)\n", i)
		case "ints":
			fmt.Fprintf(&b, "\ts += %d\n", 1000+i*7)
		case "floats":
			fmt.Fprintf(&b, "\ts += int(%d.5 * float64(s))\n", i)
		case "generals":
			fmt.Fprintf(&b, "\te = %d + %di\n", i, i+1)
		case "types":
			fmt.Fprintf(&b, "\te = T%d{%d}\n", i, i)
		case "functions":
			fmt.Fprintf(&b, "\ts += f%d()\n", i)
		}
	}
	b.WriteString("\tprintln(s)\n}\n")
	return scriggo.Files{"main.go": []byte(b.String())}, "", true
}

type corpusFile struct {
	rel     string
	data    []byte
	program bool
}

func loadCorpus(maxSize int) []corpusFile {
	var out []corpusFile
	root := "/repo/test/compare/testdata"
	filepath.WalkDir(root, func(p string, d fs.DirEntry, err error) error {
		if err != nil || d.IsDir() {
			return nil
		}
		ext := filepath.Ext(p)
		if ext != ".go" && ext != ".html" && ext != ".md" {
			return nil
		}
		if strings.Contains(p, ".dir/") || strings.Contains(p, "github.com-golang-go/") || strings.Contains(p, "/limits/") {
			// multi-file tests; gc's own torture tests (arrays of 10^9 elements make a
			// single build take seconds and gigabytes) and the limit tests
			return nil
		}
		b, err := os.ReadFile(p)
		if err != nil || len(b) > maxSize || len(b) == 0 {
			return nil
		}
		rel, _ := filepath.Rel(root, p)
		out = append(out, corpusFile{rel: rel, data: b, program: ext == ".go"})
		return nil
	})
	sort.Slice(out, func(a, b int) bool { return out[a].rel < out[b].rel })
	return out
}

func corpusFiles(cf corpusFile, data []byte) (scriggo.Files, string, bool) {
	if cf.program {
		return scriggo.Files{"main.go": data}, "", true
	}
	name := "index" + filepath.Ext(cf.rel)
	return scriggo.Files{name: data}, name, false
}

func spaces(tier string) []kit.Space {
	n := 3
	maxCorpus := 300
	subst := []byte("{}%#\"'`\\<\n\x00\xff")
	if tier == "thorough" {
		n = 4
		maxCorpus = 1500
	}
	var sps []kit.Space
	for _, v := range variants() {
		v := v
		k := n
		if v.name == "program.raw" || v.name == "template.html" || tier == "thorough" && strings.HasPrefix(v.name, "template.") && !strings.Contains(v.name[9:], ".") {
			k = n + 1 // raw byte variants are the primary space: one symbol deeper
		}
		en := kit.NewStringsUpTo(v.alpha, k)
		sps = append(sps, kit.Space{
			Name: v.name,
			Size: en.Size(),
			Eval: func(i uint64) kit.Outcome {
				files, name, prog := v.files(en.At(i))
				o := buildOnce(files, name, prog)
				o.Ops = 1
				return o
			},
			Describe: func(i uint64) any {
				files, name, _ := v.files(en.At(i))
				m := map[string]string{}
				for k, b := range files {
					m[k] = string(b)
				}
				return map[string]any{"entry": name, "files": m}
			},
		})
	}
	// Disassemble of artefacts that are rich in one kind of table entry: n
	// distinct string / int / float / general constants, types, functions,
	// text chunks, for n around the sign and size boundaries of the operand
	// encodings (operands are int8/uint8 in the instructions).
	kinds := []string{"strings", "ints", "floats", "generals", "types", "functions", "texts", "macros", "tmpl-strings"}
	counts := []int{1, 2, 126, 127, 128, 129, 130, 200, 254, 255, 256, 257}
	sps = append(sps, kit.Space{
		Name: "disassemble.table-sizes",
		Size: uint64(len(kinds) * len(counts)),
		Eval: func(i uint64) kit.Outcome {
			files, name, prog := tableSource(kinds[int(i)/len(counts)], counts[int(i)%len(counts)])
			o := buildOnce(files, name, prog)
			o.Ops = 1
			return o
		},
		Describe: func(i uint64) any {
			return map[string]any{"kind": kinds[int(i)/len(counts)], "n": counts[int(i)%len(counts)]}
		},
	})
	// unusual constructs that need a dozen tokens in the right order
	cons := constructs(tier)
	sps = append(sps, kit.Space{
		Name: "constructs",
		Size: uint64(len(cons)),
		Eval: func(i uint64) kit.Outcome {
			c := cons[i]
			var opts *scriggo.BuildOptions
			if c.goStmt {
				opts = &scriggo.BuildOptions{AllowGoStmt: true}
			}
			if c.globals != nil {
				opts = &scriggo.BuildOptions{Globals: c.globals}
			}
			o := buildOnceOpts(c.scriggoFiles(), c.entry, c.entry == "", opts)
			o.Ops = 1
			return o
		},
		Describe: func(i uint64) any {
			return map[string]any{"family": cons[i].name, "entry": cons[i].entry, "files": cons[i].files}
		},
	})
	corpus := loadCorpus(maxCorpus)
	// truncations: one case per (file, offset)
	var offs []uint64
	tot := uint64(0)
	for _, cf := range corpus {
		offs = append(offs, tot)
		tot += uint64(len(cf.data))
	}
	locate := func(i uint64) (corpusFile, int) {
		k := sort.Search(len(offs), func(k int) bool { return offs[k] > i }) - 1
		return corpus[k], int(i - offs[k])
	}
	sps = append(sps, kit.Space{
		Name: "corpus.truncate",
		Size: tot,
		Eval: func(i uint64) kit.Outcome {
			cf, off := locate(i)
			return buildOnce(corpusFiles(cf, cf.data[:off]))
		},
		Describe: func(i uint64) any {
			cf, off := locate(i)
			return map[string]any{"file": cf.rel, "truncate_at": off}
		},
	})
	ns := uint64(len(subst))
	sps = append(sps, kit.Space{
		Name: "corpus.substitute",
		Size: tot * ns,
		Eval: func(i uint64) kit.Outcome {
			cf, off := locate(i / ns)
			b := append([]byte{}, cf.data...)
			c := subst[i%ns]
			if b[off] == c {
				o := buildOnce(corpusFiles(cf, b))
				o.Nontrivial = false
				return o
			}
			b[off] = c
			return buildOnce(corpusFiles(cf, b))
		},
		Describe: func(i uint64) any {
			cf, off := locate(i / ns)
			return map[string]any{"file": cf.rel, "offset": off, "byte": fmt.Sprintf("%q", subst[i%ns])}
		},
	})
	return sps
}

func main() {
	kit.Main(&kit.Check{
		ID:       "C04",
		Level:    "model_checking",
		Isolated: true,
		Rule:     "every string up to the tier's length over a 25-byte lexer alphabet (raw program, raw template in 6 formats, attribute/script/style/code-block wrappers, partial reached by render/import/extends) and over a 33-token Go alphabet (inside {{ }}, {% %}, {%% %%}, a function body, a package-level initialiser); every truncation and every substitution by 12 special bytes at every offset of corpus files up to the tier's size; Disassemble of artefacts with n table entries of each kind for n around 127/128/255/256; and a list of ~1900 generated unusual constructs (types of unallocatable size in 18 shapes, every callee form after defer and go, 16 statements/shows/comments placed in 25 tag/attribute/script/style positions with 0-2 trailing {% end %}, all conversions between format types without a converter, declaration dependency graphs with 2^n paths, nesting depths up to 10^4, huge constant expressions, multi-byte texts around the Disassemble(n) limit). Each case is a distinct source text; non-trivial = all (every case reaches the lexer), except substitutions that leave the byte unchanged",
		Assumptions: []string{
			"inputs longer than the bound are explored only as corpus mutations",
			"hang = no heartbeat for 30 s, re-confirmed by re-running the single input alone 3 times",
			"goroutine leak = a goroutine with internal/compiler frames still alive after Build returned and 1000 scheduler yields",
		},
		Spaces: spaces,
		Budget: map[string]time.Duration{},
	})
}
