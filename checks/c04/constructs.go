package main

import (
	"fmt"
	"sort"
	"strings"

	"github.com/open2b/scriggo"
	"github.com/open2b/scriggo/native"
)

// construct is one source built by the "constructs" space: programs and
// templates made of legal-looking but unusual constructs that the byte- and
// token-level spaces cannot reach (they need a dozen tokens in the right
// order): types of unreasonable size, every callee form after defer/go,
// statements and shows inside attribute values and special attributes,
// conversions between format types, big declaration dependency graphs,
// deeply nested expressions.
type construct struct {
	name    string
	files   map[string]string
	entry   string // "" = program
	goStmt  bool
	comment string
	globals native.Declarations
}

// recursive native types, declared as template globals
type recTree map[string]recTree
type recList []recList
type recNode struct {
	Next *recNode
	Kids []recNode
	M    map[string]*recNode
}
type recChan chan recChan
type recFunc func() recFunc
type recPtr *recPtr
type recArr [2]*recArr

func prog(name, body string) construct {
	return construct{name: name, files: map[string]string{"main.go": "package main\n\n" + body}}
}

func tmpl(name, src string) construct {
	return construct{name: name, entry: "index.html", files: map[string]string{"index.html": src}}
}

func constructs(tier string) []construct {
	var cs []construct
	// 1. types whose size cannot be allocated (the sizes are chosen so that
	// nothing is really allocated: above the address space, or a channel
	// element above 64 KiB)
	sizes := []string{"8200", "100000", "1<<61", "1<<62", "1<<63 - 1"}
	shapes := []string{
		"var c chan [N]int\n_ = c", "c := make(chan [N]int)\n_ = c", "var c <-chan [N]int\n_ = c",
		"var c [N]int\n_ = c", "var c [N][N]int\n_ = c", "var c [][N]int\n_ = c", "var c map[int][N]int\n_ = c",
		"var c struct{ a [N]int }\n_ = c", "var c func([N]int)\n_ = c", "var c *[N]int\n_ = c", "type T [N]int\nvar c T\n_ = c",
		"_ = new([N]int)", "var c [N]struct{}\n_ = c", "var c [N][0]int\n_ = c", "const n = N\nvar c [n]byte\n_ = c",
		"var c interface{ m([N]int) }\n_ = c", "var c chan chan [N]int\n_ = c", "var c [N]string\n_ = c",
	}
	for _, sh := range shapes {
		for _, sz := range sizes {
			if (sz == "8200" || sz == "100000") && !strings.Contains(sh, "chan") {
				continue // small arrays are ordinary programs
			}
			cs = append(cs, prog("type-size", "func main() {\n"+strings.ReplaceAll(sh, "N", sz)+"\n}\n"))
		}
	}
	// 2. defer / go × callee form
	callees := []struct{ decls, setup, call string }{
		{"", "var e error", "e.Error()"},
		{"", "var e interface{ M(int) }", "e.M(1)"},
		{"type T struct{ f func() }", "t := T{func() {}}", "t.f()"},
		{"func f() func() { return func() {} }", "", "f()()"},
		{"func f(xs ...int) {}", "", "f(1, 2, 3)"},
		{"func f(xs ...int) {}", "s := []int{1}", "f(s...)"},
		{"", "c := make(chan int)", "close(c)"},
		{"", "", "panic(1)"},
		{"", "", "recover()"},
		{"", "", "print(1, \"a\")"},
		{"", "", "println()"},
		{"", "m := map[int]int{}", "delete(m, 1)"},
		{"", "", "func() {}()"},
		{"", "", "func(a int, b ...string) {}(1)"},
		{"", "var f func()", "f()"},
		{"", "fs := []func(){func() {}}", "fs[0]()"},
		{"", "m := map[string]func(){}", "m[\"k\"]()"},
		{"", "a, b := []int{1}, []int{2}", "copy(a, b)"},
		{"", "s := []int{}", "append(s, 1)"},
		{"", "s := []int{}", "len(s)"},
		{"", "", "new(int)"},
		{"", "", "int(1)"},
		{"", "var p *struct{ f func() }", "p.f()"},
		{"", "", "(func())(nil)()"},
	}
	for _, kw := range []string{"defer", "go"} {
		for _, ce := range callees {
			cs = append(cs, construct{name: kw + "-callee", goStmt: true, files: map[string]string{"main.go": "package main\n\n" + ce.decls + "\n\nfunc main() {\n" + ce.setup + "\n" + kw + " " + ce.call + "\n}\n"}})
		}
		// callee in an imported Scriggo package
		cs = append(cs, construct{name: kw + "-callee", goStmt: true, files: map[string]string{
			"go.mod": "module m\n", "main.go": "package main\n\nimport \"m/p\"\n\nfunc main() {\n" + kw + " p.F()\n" + kw + " p.V.M()\n}\n",
			"p/p.go": "package p\n\ntype T struct{}\n\nfunc (T) M() {}\n\nvar V T\n\nfunc F() {}\n"}})
	}
	// 3. statements, shows and comments inside tags and attribute values
	holes := []string{`{% if true %}`, `{% if true %}x{% end %}`, `{% for i := 0; i < 1; i++ %}`, `{% end %}`, `{{ "x" }}`, `{# c #}`, `{% raw %}`, `{% raw %}x{% end raw %}`,
		`{% macro M %}`, `{% macro M %}m{% end %}`, `{%% x := 1 %%}`, `{% else %}`, `{% break %}`, `{% extends "l.html" %}`, `{% import "l.html" %}`, `{{ render "l.html" }}`}
	places := []string{
		`<a href="HOLE">x</a>TAIL`, `<a href=HOLE>x</a>TAIL`, `<a href='HOLE'>x</a>TAIL`, `<a title="HOLE">x</a>TAIL`, `<a HOLE>x</a>TAIL`, `<a HOLE="v">TAIL`,
		`<script type="HOLE">x</script>TAIL`, `<script type="text/HOLE">x</script>TAIL`, `<script type=HOLE>x</script>TAIL`, `<style type="HOLE">a{}</style>TAIL`, `<style type="text/HOLE">a{}</style>TAIL`,
		`<script HOLE>x</script>TAIL`, `<img srcset="a.jpg HOLE 2x">TAIL`, `<a href="?HOLE">x</a>TAIL`, `<a href="HOLE?x=HOLE">TAIL`,
		`<script>var a = "HOLE";</script>TAIL`, `<script>var a = HOLE;</script>TAIL`, `<style>a{b:"HOLE"}</style>TAIL`, `<!-- HOLE -->TAIL`, `<textarea>HOLE</textarea>TAIL`,
		`<a onclick="HOLE">TAIL`, `<a style="HOLE">TAIL`, `<HOLE>TAIL`, `</HOLE>TAIL`, `<a href="x" HOLE title="HOLE">TAIL`,
	}
	for _, pl := range places {
		for _, h := range holes {
			for _, tail := range []string{"", "{% end %}", "{% end %}{% end %}"} {
				src := strings.ReplaceAll(strings.ReplaceAll(pl, "HOLE", h), "TAIL", tail)
				cs = append(cs, construct{name: "template-hole", entry: "index.html", files: map[string]string{"index.html": src, "l.html": "{% macro L %}l{% end %}"}})
			}
		}
	}
	// 4. conversions between format types and strings, without any converter
	fts := []string{"html", "css", "js", "json", "markdown", "string"}
	for _, from := range fts {
		for _, to := range fts {
			cs = append(cs, tmpl("format-conversion", fmt.Sprintf(`{{ %s(%s("# a")) }}`, to, from)))
			cs = append(cs, tmpl("format-conversion", fmt.Sprintf(`{%% var v %s = %s("# a") %%}{{ %s(v) }}`, from, from, to)))
		}
	}
	// 5. dependency graphs that branch at every level: 2^n paths for the
	// initialisation-loop detection (constants, variables, functions)
	depths := []int{4, 10, 14, 16}
	if tier == "thorough" {
		// a build that does not finish counts as a hang after 40 s and is then
		// re-run three times: kept out of the quick tier. Only depths that are
		// clearly on one side of that threshold on a loaded machine are used
		// (18: seconds; 40: 2^40 paths, never finishes): depths 20-28 take 10 s
		// to minutes, hang in a busy worker but not when re-run alone, and made
		// the check exit 2 ("flaky").
		depths = append(depths, 18, 40)
	}
	for _, n := range depths {
		var b strings.Builder
		b.WriteString("const (\n")
		for i := 0; i < n; i++ {
			fmt.Fprintf(&b, "\ta%d = a%d + b%d\n\tb%d = a%d + b%d\n", i, i+1, i+1, i, i+1, i+1)
		}
		fmt.Fprintf(&b, "\ta%d = 1\n\tb%d = 1\n)\n\nfunc main() { _ = a0 }\n", n, n)
		cs = append(cs, prog("branching-dependencies", b.String()))
		s := strings.Replace(strings.Replace(b.String(), "const (", "var (", 1), "_ = a0", "_ = a0", 1)
		cs = append(cs, prog("branching-dependencies", s))
		var f strings.Builder
		for i := 0; i < n; i++ {
			fmt.Fprintf(&f, "func fa%d() int { return fa%d() + fb%d() }\nfunc fb%d() int { return fa%d() + fb%d() }\n", i, i+1, i+1, i, i+1, i+1)
		}
		fmt.Fprintf(&f, "func fa%d() int { return x }\nfunc fb%d() int { return x }\nvar x = 1\nvar y = fa0()\n\nfunc main() { _ = y }\n", n, n)
		cs = append(cs, prog("branching-dependencies", f.String()))
	}
	// 6. deep nesting and huge constants
	// depth 100000 takes tens of seconds (quadratic somewhere): too close to the
	// hang threshold to give the same verdict on a busy machine; left out
	nests := []int{100, 1000, 10000}
	for _, n := range nests {
		cs = append(cs, prog("deep-nesting", "func main() { _ = "+strings.Repeat("(", n)+"1"+strings.Repeat(")", n)+" }\n"))
		cs = append(cs, prog("deep-nesting", "func main() { _ = "+strings.Repeat("-", n)+"1 }\n"))
		cs = append(cs, prog("deep-nesting", "func main() { x := 1; _ = "+strings.Repeat("[]", n)+"int{} ; _ = x }\n"))
		cs = append(cs, prog("deep-nesting", "func main() { var p "+strings.Repeat("*", n)+"int; _ = p }\n"))
		cs = append(cs, prog("deep-nesting", "func main() {"+strings.Repeat(" if true {", n)+strings.Repeat(" }", n)+" }\n"))
		cs = append(cs, tmpl("deep-nesting", strings.Repeat("{% if true %}", n)+"x"+strings.Repeat("{% end %}", n)))
		cs = append(cs, tmpl("deep-nesting", "{{ "+strings.Repeat("(", n)+"1"+strings.Repeat(")", n)+" }}"))
	}
	huge := []string{"1e100000 * 1e100000", "1 << 100000 >> 99990", "1e1000000 / 3", "1e1000000 / 1e999999", "0x1p2000 / 0x1p1990", "1e-1000000 * 1e1000000", "1 % 1e1000"}
	// constants like 1e600000000 >> 2 take tens of seconds: too close to the hang
	// threshold to give the same verdict on a busy and on an idle machine; left out
	for _, c := range huge {
		cs = append(cs, prog("huge-constant", "const x = "+c+"\n\nfunc main() {}\n"))
		cs = append(cs, tmpl("huge-constant", "{% const x = "+c+" %}"))
	}
	// 7. texts with multi-byte characters of every length around the limit of Disassemble(n)
	for n := 1; n <= 12; n++ {
		for _, ch := range []string{"à", "€", "😀", "a"} {
			cs = append(cs, tmpl("multibyte-text", strings.Repeat(ch, n)+"{{ 1 }}"+strings.Repeat(ch, n)+"b"))
		}
	}
	// 8. globals of recursive native types shown in every context
	recs := native.Declarations{"v1": (*recTree)(nil), "v2": (*recList)(nil), "v3": (*recNode)(nil), "v4": (**recNode)(nil),
		"v5": (*recChan)(nil), "v6": (*recFunc)(nil), "v7": (*recPtr)(nil), "v8": (*recArr)(nil), "v9": (*map[string]interface{})(nil), "v10": (*[]recTree)(nil), "v11": (*map[string][]recNode)(nil)}
	shows := []struct{ entry, pre, post string }{
		{"index.html", "", ""}, {"index.html", "<script>var a = ", ";</script>"}, {"index.html", `<script type="application/ld+json">`, "</script>"},
		{"index.html", "<style>a{b:", "}</style>"}, {"index.html", `<a title="`, `">`}, {"index.html", `<a href="`, `">`}, {"index.html", `<a onclick="`, `">`},
		{"index.js", "var a = ", ";"}, {"index.json", `{"a": `, "}"}, {"index.css", "a{b:", "}"}, {"index.md", "# ", "\n"}, {"index.txt", "", ""},
	}
	var recNames []string
	for name := range recs {
		recNames = append(recNames, name)
	}
	sort.Strings(recNames)
	for _, name := range recNames {
		for _, sh := range shows {
			for _, expr := range []string{name, "&" + name, "[]interface{}{" + name + "}", "len(" + name + ")"} {
				if strings.HasPrefix(expr, "len(") && !(name == "v1" || name == "v2" || name == "v9" || name == "v10" || name == "v11") {
					continue
				}
				cs = append(cs, construct{name: "recursive-global-type", entry: sh.entry, globals: recs, files: map[string]string{sh.entry: sh.pre + "{{ " + expr + " }}" + sh.post}})
			}
		}
	}
	return cs
}

func (c construct) scriggoFiles() scriggo.Files {
	f := scriggo.Files{}
	for k, v := range c.files {
		f[k] = []byte(v)
	}
	return f
}
