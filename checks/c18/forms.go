// Further spaces of C18:
//
//	forms  every syntactic form of a file reference (extends, import plain /
//	       alias / for, render, render default, each also inside a {%% %%}
//	       block, with parenthesised import groups) x every path shape x the
//	       depth of the referencing file, through recording file systems;
//	dirs   one relative spelling used from different directories: the right
//	       file is opened, the wrong one never;
//	root   the name passed to BuildTemplate itself, through a lenient file
//	       system that serves whatever it is asked (so that an unvalidated
//	       name shows up in the log);
//	odd    a FormatFS whose Format fails for an existing file, and a directory
//	       referred to as a file.
package main

import (
	"errors"
	"fmt"
	"io/fs"
	"path"
	"sort"
	"strings"

	"verif/kit"

	"github.com/open2b/scriggo"
)

// validTemplatePath is the documented rule (doc comment of ValidTemplatePath):
// a valid file system path, not ".", that may start with "/" or alternatively
// with one or more "../" elements.
func validTemplatePath(p string) bool {
	if strings.HasPrefix(p, "/") {
		p = p[1:]
	} else {
		for strings.HasPrefix(p, "../") {
			p = p[3:]
		}
	}
	return p != "." && fs.ValidPath(p)
}

// resolveRef resolves a valid template path against the referencing file.
func resolveRef(from, p string) (name string, inside bool) {
	if strings.HasPrefix(p, "/") {
		return p[1:], true
	}
	dir := path.Dir(from)
	ups := 0
	for strings.HasPrefix(p, "../") {
		p = p[3:]
		ups++
	}
	parts := []string{}
	if dir != "." {
		parts = strings.Split(dir, "/")
	}
	if ups > len(parts) {
		return "", false
	}
	parts = append(parts[:len(parts)-ups], p)
	return strings.Join(parts, "/"), true
}

type refForm struct {
	name   string
	source func(quoted string) string
	kind   string // extends | import | render | render-default
}

var refForms = []refForm{
	{"extends", func(q string) string { return "{% extends " + q + " %}" }, "extends"},
	{"import", func(q string) string { return "{% import " + q + " %}" }, "import"},
	{"import-alias", func(q string) string { return "{% import l " + q + " %}" }, "import"},
	{"import-for", func(q string) string { return "{% import " + q + " for M %}" }, "import"},
	{"render", func(q string) string { return "a{{ render " + q + " }}b" }, "render"},
	{"render-default", func(q string) string { return "a{{ render " + q + ` default "d" }}b` }, "render-default"},
	{"block-extends", func(q string) string { return "{%% extends " + q + " %%}" }, "extends"},
	{"block-import", func(q string) string { return "{%%\n import " + q + "\n%%}" }, "import"},
	{"block-import-alias", func(q string) string { return "{%%\n import l " + q + "\n%%}" }, "import"},
	{"block-import-for", func(q string) string { return "{%%\n import " + q + " for M\n%%}" }, "import"},
	{"block-import-group", func(q string) string { return "{%%\n import (\n  " + q + "\n )\n%%}" }, "import"},
	{"block-import-group-alias", func(q string) string { return "{%%\n import (\n  l " + q + "\n )\n%%}" }, "import"},
	{"block-show-render", func(q string) string { return "a{%% show render " + q + " %%}b" }, "render"},
	{"block-show-render-default", func(q string) string { return "a{%% show render " + q + ` default "d" %%}b` }, "render-default"},
}

type pathShape struct{ name, path string }

var pathShapes = []pathShape{
	{"relative", "x.html"},
	{"relative-in-subdirectory", "d/x.html"},
	{"rooted", "/x.html"},
	{"rooted-dotdot", "/../x.html"},
	{"rooted-only-dotdot", "/.."},
	{"slash", "/"},
	{"dot", "."},
	{"dot-slash", "./x.html"},
	{"dotdot-inside", "d/../x.html"},
	{"one-dotdot", "../x.html"},
	{"two-dotdots", "../../x.html"},
	{"three-dotdots", "../../../x.html"},
	{"only-dotdot", ".."},
	{"trailing-slash", "x.html/"},
	{"empty", ""},
	{"double-slash", "//x.html"},
	{"double-slash-inside", "d//x.html"},
	{"backslash", `d\x.html`},
	{"dotdot-backslash", `..\x.html`},
	{"nul", "x\x00.html"},
}

var hostFiles = []string{"index.html", "a/index.html", "a/b/index.html"}

const targetBody = "{% macro M %}{% end %}"

// formFiles returns the tree: a target x.html in every directory a valid
// reference can reach.
func formFiles(host, src string) map[string][]byte {
	f := map[string][]byte{}
	for _, d := range []string{"", "a/", "a/b/", "d/", "a/d/", "a/b/d/"} {
		f[d+"x.html"] = []byte(targetBody)
	}
	f[`d\x.html`] = []byte(targetBody)
	f[`a/d\x.html`] = []byte(targetBody)
	f[`a/b/d\x.html`] = []byte(targetBody)
	f[host] = []byte(src)
	return f
}

// lenientFS serves the cleaned name whatever it is asked and records the raw name.
type lenientFS struct {
	files scriggo.Files
	log   *[]event
}

func (l lenientFS) Open(name string) (fs.File, error) {
	*l.log = append(*l.log, event{"Open", name})
	clean := strings.TrimPrefix(path.Clean("/"+name), "/")
	if clean == "" {
		clean = "."
	}
	return l.files.Open(clean)
}

func showLog(log []event) string {
	var b []string
	for _, e := range log {
		b = append(b, fmt.Sprintf("%s(%q)", e.op, e.name))
	}
	return strings.Join(b, " ")
}

// nameProblem classifies a name that must never reach the file system.
func nameProblem(n string) string {
	switch {
	case n == "":
		return "empty-name"
	case strings.HasPrefix(n, "/"):
		return "absolute-name"
	}
	for _, el := range strings.Split(n, "/") {
		switch el {
		case "..":
			return "dotdot-element"
		case ".":
			if n != "." {
				return "dot-element"
			}
		case "":
			return "empty-element"
		}
	}
	if !fs.ValidPath(n) {
		return "invalid-path"
	}
	return ""
}

type formCase struct{ form, shape, host int }

type formResult struct {
	symptom, detail, class string
}

func (c formCase) evaluate(variant string) formResult {
	form, shape, host := refForms[c.form], pathShapes[c.shape], hostFiles[c.host]
	src := form.source(fmt.Sprintf("%q", shape.path))
	files := formFiles(host, src)
	var log []event
	var fsys fs.FS
	switch variant {
	case "strict":
		fsys = recFS{inner: scriggo.Files(files), log: &log}
	case "strict-FormatFS":
		fsys = recFormatFS{recFS{inner: scriggo.Files(files), log: &log}}
	case "lenient":
		fsys = lenientFS{files: scriggo.Files(files), log: &log}
	}
	_, err := scriggo.BuildTemplate(fsys, host, nil)
	head := fmt.Sprintf("%s: %q (file system: %s)\nlog: %s\nerror: %v\n", host, src, variant, showLog(log), err)
	valid := validTemplatePath(shape.path)
	target, inside := "", false
	if valid {
		target, inside = resolveRef(host, shape.path)
	}
	allowed := map[string]bool{host: true}
	if valid && inside {
		allowed[target] = true
	}
	for _, e := range log {
		if p := nameProblem(e.name); p != "" {
			return formResult{symptom: "file-system-asked-for-a-name-with-" + p, detail: head + fmt.Sprintf("%s(%q)", e.op, e.name)}
		}
		if !allowed[e.name] {
			return formResult{symptom: "file-system-asked-for-a-name-that-is-not-the-resolution", detail: head + fmt.Sprintf("%s(%q); the reference resolves to %q (valid template path: %v, inside the root: %v)", e.op, e.name, target, valid, inside)}
		}
	}
	opens := 0
	for _, e := range log {
		if e.op != "Format" && e.name == target && valid && inside {
			opens++
		}
	}
	_, exists := files[target]
	switch {
	case !valid:
		if err == nil {
			return formResult{symptom: "invalid-path-accepted", detail: head + "the path is not a valid template path but the build succeeds"}
		}
		return formResult{class: "forms: invalid path rejected"}
	case !inside:
		if err == nil && form.kind != "render-default" {
			return formResult{symptom: "reference-leaving-the-root-accepted", detail: head}
		}
		return formResult{class: "forms: reference leaving the root fails (or falls back to its default)"}
	case !exists:
		if err == nil && form.kind != "render-default" {
			return formResult{symptom: "reference-to-a-missing-file-accepted", detail: head + fmt.Sprintf("%q does not exist", target)}
		}
		return formResult{class: "forms: missing file fails (or falls back to its default)"}
	}
	if err != nil {
		return formResult{symptom: "valid-reference-to-an-existing-file-refused", detail: head + fmt.Sprintf("the reference resolves to the existing file %q", target)}
	}
	if opens != 1 {
		return formResult{symptom: "referenced-file-not-opened-exactly-once", detail: head + fmt.Sprintf("%q opened %d times", target, opens)}
	}
	return formResult{class: "forms: resolved and read once"}
}

var formVariants = []string{"strict", "strict-FormatFS", "lenient"}

func formsSpace() kit.Space {
	var cases []formCase
	for f := range refForms {
		for s := range pathShapes {
			for h := range hostFiles {
				cases = append(cases, formCase{f, s, h})
			}
		}
	}
	return kit.Space{
		Name: "forms.reference-forms-and-path-shapes",
		Size: uint64(len(cases)),
		Eval: func(i uint64) kit.Outcome {
			c := cases[i]
			o := kit.Outcome{OK: true, Nontrivial: true}
			for _, v := range formVariants {
				r := c.evaluate(v)
				o.Ops++
				if r.symptom == "" {
					if o.Class == "" {
						o.Class = r.class
					}
					continue
				}
				// the smallest discriminating tuple
				same := func(x formCase) bool { return x.evaluate(v).symptom == r.symptom }
				formName, depth := refForms[c.form].name, fmt.Sprint(c.host)
				all := true
				for f := range refForms {
					all = all && same(formCase{f, c.shape, c.host})
				}
				if all {
					formName = "any"
				} else {
					// every form of the same kind?
					allKind := true
					for f := range refForms {
						if refForms[f].kind == refForms[c.form].kind {
							allKind = allKind && same(formCase{f, c.shape, c.host})
						}
					}
					if allKind {
						formName = "every-" + refForms[c.form].kind
					}
				}
				all = true
				for h := range hostFiles {
					all = all && same(formCase{c.form, c.shape, h})
				}
				if all {
					depth = "any"
				}
				fsName := v
				allV := true
				for _, v2 := range formVariants {
					allV = allV && c.evaluate(v2).symptom == r.symptom
				}
				if allV {
					fsName = "any"
				}
				o.OK = false
				o.Class = "forms: " + r.symptom
				o.Key = fmt.Sprintf("forms|path-shape=%s|form=%s|depth-of-referencing-file=%s|file-system=%s|%s", pathShapes[c.shape].name, formName, depth, fsName, r.symptom)
				o.Detail = r.detail
				return o
			}
			return o
		},
		Describe: func(i uint64) any {
			c := cases[i]
			return map[string]any{"file": hostFiles[c.host], "source": refForms[c.form].source(fmt.Sprintf("%q", pathShapes[c.shape].path))}
		},
	}
}

// ---- dirs ----

type dirCase struct {
	inner   string // render | render-default | import | import-alias | extends-from-imported? (no)
	spell   string // sibling | parent | sibling-in-subdirectory
	reach   string // render | import
	bFirst  bool
	variant string
}

func (c dirCase) build() (files map[string][]byte, wantOpen []string, wantOut string) {
	files = map[string][]byte{}
	var ref string
	targets := map[string]string{} // per directory: the file its reference resolves to
	switch c.spell {
	case "sibling":
		ref = "footer.html"
		targets["blog"], targets["shop"] = "blog/footer.html", "shop/footer.html"
		files["footer.html"] = nil // decoy in the root
	case "parent":
		ref = "../common.html"
		targets["blog"], targets["shop"] = "common.html", "common.html"
		files["blog/common.html"], files["shop/common.html"] = nil, nil // decoys
	case "sibling-in-subdirectory":
		ref = "inc/footer.html"
		targets["blog"], targets["shop"] = "blog/inc/footer.html", "shop/inc/footer.html"
		files["inc/footer.html"] = nil // decoy
	}
	mark := func(t string) string { return "<" + strings.ReplaceAll(strings.TrimSuffix(t, ".html"), "/", ".") + ">" }
	isImport := strings.HasPrefix(c.inner, "import")
	for n := range files { // decoys
		if isImport {
			files[n] = []byte("{% macro F %}DECOY{% end %}")
		} else {
			files[n] = []byte("DECOY")
		}
	}
	for _, t := range targets {
		if isImport {
			files[t] = []byte("{% macro F %}" + mark(t) + "{% end %}")
		} else {
			files[t] = []byte(mark(t))
		}
	}
	innerSrc := func() string {
		switch c.inner {
		case "render":
			return fmt.Sprintf(`{{ render %q }}`, ref)
		case "render-default":
			return fmt.Sprintf(`{{ render %q default "d" }}`, ref)
		case "import":
			return fmt.Sprintf(`{%% import %q %%}`, ref)
		}
		return fmt.Sprintf(`{%% import l %q %%}`, ref)
	}()
	call := "{{ F() }}"
	if c.inner == "import-alias" {
		call = "{{ l.F() }}"
	}
	pages := map[string]string{"blog": "blog/post.html", "shop": "shop/item.html"}
	order := []string{"blog", "shop"}
	if c.bFirst {
		order = []string{"shop", "blog"}
	}
	var idx strings.Builder
	for _, d := range []string{"blog", "shop"} {
		body := d + "(" + innerSrc + ")"
		if isImport {
			body = innerSrc + d + "(" + call + ")"
		}
		if c.reach == "import" {
			// the page is an imported file: its content is a macro
			name := strings.ToUpper(d[:1]) + d[1:]
			if isImport {
				body = innerSrc + "{% macro " + name + " %}" + d + "(" + call + "){% end %}"
			} else {
				body = "{% macro " + name + " %}" + d + "(" + innerSrc + "){% end %}"
			}
		}
		files[pages[d]] = []byte(body)
	}
	if c.reach == "import" {
		for _, d := range order {
			fmt.Fprintf(&idx, `{%% import %q %%}`, pages[d])
		}
		for _, d := range order {
			idx.WriteString("{{ " + strings.ToUpper(d[:1]) + d[1:] + "() }}|")
		}
	} else {
		for _, d := range order {
			fmt.Fprintf(&idx, `{{ render %q }}|`, pages[d])
		}
	}
	files["index.html"] = []byte(idx.String())
	set := map[string]bool{"index.html": true}
	for _, d := range order {
		set[pages[d]] = true
		set[targets[d]] = true
		wantOut += d + "(" + mark(targets[d]) + ")|"
	}
	for n := range set {
		wantOpen = append(wantOpen, n)
	}
	sort.Strings(wantOpen)
	return
}

func dirsSpace() kit.Space {
	var cases []dirCase
	for _, inner := range []string{"render", "render-default", "import", "import-alias"} {
		for _, spell := range []string{"sibling", "parent", "sibling-in-subdirectory"} {
			for _, reach := range []string{"render", "import"} {
				for _, bf := range []bool{false, true} {
					for _, v := range []string{"strict", "strict-FormatFS"} {
						cases = append(cases, dirCase{inner, spell, reach, bf, v})
					}
				}
			}
		}
	}
	return kit.Space{
		Name: "dirs.one-spelling-from-two-directories",
		Size: uint64(len(cases)),
		Eval: func(i uint64) kit.Outcome {
			c := cases[i]
			files, wantOpen, wantOut := c.build()
			var log []event
			var fsys fs.FS = recFS{inner: scriggo.Files(files), log: &log}
			if c.variant == "strict-FormatFS" {
				fsys = recFormatFS{recFS{inner: scriggo.Files(files), log: &log}}
			}
			o := kit.Outcome{OK: true, Nontrivial: true, Class: "dirs: " + c.spell}
			key := func(sym string) string {
				return fmt.Sprintf("dirs|reference=%s|spelling=%s|pages-reached-by=%s|%s", c.inner, c.spell, c.reach, sym)
			}
			head := fmt.Sprintf("files:\n%s", showFiles(scriggo.Files(files)))
			t, err := scriggo.BuildTemplate(fsys, "index.html", nil)
			head += "log: " + showLog(log) + "\n"
			if err != nil {
				o.OK, o.Key, o.Detail = false, key("does-not-build"), head+"BuildTemplate: "+err.Error()
				return o
			}
			count := map[string]int{}
			for _, e := range log {
				if e.op != "Format" {
					count[e.name]++
				}
			}
			var got []string
			for n, k := range count {
				got = append(got, n)
				if k > 1 {
					o.OK, o.Key, o.Detail = false, key("file-opened-more-than-once"), head+fmt.Sprintf("%q opened %d times", n, k)
					return o
				}
			}
			sort.Strings(got)
			if strings.Join(got, " ") != strings.Join(wantOpen, " ") {
				o.OK, o.Key, o.Detail = false, key("wrong-set-of-files-opened"), head+fmt.Sprintf("opened %v, expected %v", got, wantOpen)
				return o
			}
			var b strings.Builder
			if err := t.Run(&b, nil, nil); err != nil {
				o.OK, o.Key, o.Detail = false, key("run-error"), head+"Run: "+err.Error()
				return o
			}
			if b.String() != wantOut {
				o.OK, o.Key, o.Detail = false, key("output-shows-another-directory's-file"), head+fmt.Sprintf("expected %q, observed %q", wantOut, b.String())
			}
			return o
		},
		Describe: func(i uint64) any {
			files, _, want := cases[i].build()
			m := map[string]string{}
			for k, v := range files {
				m[k] = string(v)
			}
			return map[string]any{"files": m, "expected": want}
		},
	}
}

// ---- root ----

var rootNames = []pathShape{
	{"plain", "pages/index.html"},
	{"leading-slash", "/pages/index.html"},
	{"dot-slash", "./pages/index.html"},
	{"dotdot-outside", "../out/pages/index.html"},
	{"dotdot-inside", "pages/../pages/index.html"},
	{"double-slash", "pages//index.html"},
	{"trailing-slash", "pages/index.html/"},
	{"backslash", `pages\index.html`},
	{"empty", ""},
	{"dot", "."},
	{"nul", "pages/index.html\x00"},
}

var rootBodies = []pathShape{
	{"text-only", "hello"},
	{"renders-sibling", `a{{ render "x.html" }}b`},
	{"renders-three-levels-up", `a{{ render "../../../y.html" }}b`},
	{"renders-itself-by-its-plain-name", `a{{ render "/pages/index.html" }}b`},
}

func rootSpace() kit.Space {
	type rc struct{ name, body int }
	var cases []rc
	for n := range rootNames {
		for b := range rootBodies {
			cases = append(cases, rc{n, b})
		}
	}
	return kit.Space{
		Name: "root.name-passed-to-BuildTemplate",
		Size: uint64(len(cases)),
		Eval: func(i uint64) kit.Outcome {
			c := cases[i]
			name := rootNames[c.name]
			files := scriggo.Files{
				"pages/index.html":     []byte(rootBodies[c.body].path),
				"pages/x.html":         []byte("X"),
				"y.html":               []byte("Y"),
				`pages\index.html`:     []byte("B"),
				"out/pages/index.html": []byte("O"),
			}
			var log []event
			_, err := scriggo.BuildTemplate(lenientFS{files: files, log: &log}, name.path, nil)
			o := kit.Outcome{OK: true, Nontrivial: true, Class: "root: " + name.name}
			head := fmt.Sprintf("BuildTemplate(fsys, %q, nil) with pages/index.html = %q, through a file system that serves the cleaned name of whatever it is asked\nlog: %s\nerror: %v\n", name.path, rootBodies[c.body].path, showLog(log), err)
			// a problem with a referenced name is reported rather than the one
			// of the root name (which the text-only body shows by itself)
			for k := len(log) - 1; k >= 0; k-- {
				e := log[k]
				if p := nameProblem(e.name); p != "" {
					which := "root-name"
					if k > 0 {
						which = "referenced-name"
					}
					o.OK = false
					o.Key = "root|invalid-root-name-reaches-the-file-system"
					if which == "referenced-name" {
						o.Key = "root|name-resolved-against-an-invalid-root-name-reaches-the-file-system"
					}
					o.Class = "root: " + which + " with " + p
					o.Detail = head + fmt.Sprintf("%s(%q)", e.op, e.name)
					return o
				}
			}
			valid := fs.ValidPath(name.path) && name.path != "."
			if !valid && err == nil {
				o.OK, o.Key, o.Detail = false, fmt.Sprintf("root|root-name-shape=%s|invalid-root-name-accepted", name.name), head
				return o
			}
			if valid && rootBodies[c.body].name == "renders-itself-by-its-plain-name" && name.path == "pages/index.html" && err == nil {
				o.OK, o.Key, o.Detail = false, "root|cycle-not-reported", head
			}
			return o
		},
		Describe: func(i uint64) any {
			c := cases[i]
			return map[string]any{"name": rootNames[c.name].path, "pages/index.html": rootBodies[c.body].path}
		},
	}
}

// ---- odd ----

// failingFormatFS fails Format for the existing file x.html.
type failingFormatFS struct {
	recFS
	err error
}

func (f failingFormatFS) Format(name string) (scriggo.Format, error) {
	*f.log = append(*f.log, event{"Format", name})
	if name == "x.html" {
		return 0, f.err
	}
	return scriggo.FormatHTML, nil
}

func oddSpace() kit.Space {
	type oc struct {
		what string // format-error-not-exist | format-error-other | directory
		form int
	}
	var cases []oc
	for _, w := range []string{"format-error-wrapping-ErrNotExist", "format-error-other", "directory"} {
		for f := range refForms {
			cases = append(cases, oc{w, f})
		}
	}
	return kit.Space{
		Name: "odd.format-errors-and-directories",
		Size: uint64(len(cases)),
		Eval: func(i uint64) kit.Outcome {
			c := cases[i]
			form := refForms[c.form]
			o := kit.Outcome{OK: true, Nontrivial: true, Class: "odd: " + c.what}
			var log []event
			var fsys fs.FS
			var src string
			files := scriggo.Files{"x.html": []byte(targetBody), "sub/inner.html": []byte(targetBody)}
			switch c.what {
			case "directory":
				src = form.source(`"sub"`)
				files["index.html"] = []byte(src)
				fsys = recFS{inner: files, log: &log}
			default:
				src = form.source(`"x.html"`)
				files["index.html"] = []byte(src)
				e := errors.New("format database unavailable")
				if c.what == "format-error-wrapping-ErrNotExist" {
					e = fmt.Errorf("no format recorded for the file: %w", fs.ErrNotExist)
				}
				fsys = failingFormatFS{recFS{inner: files, log: &log}, e}
			}
			_, err := scriggo.BuildTemplate(fsys, "index.html", nil)
			if err == nil {
				o.OK = false
				what := map[string]string{
					"directory":                         "directory-loaded-as-a-template-file",
					"format-error-wrapping-ErrNotExist": "error-of-Format-for-an-existing-file-swallowed",
					"format-error-other":                "error-of-Format-for-an-existing-file-swallowed",
				}[c.what]
				o.Key = fmt.Sprintf("odd|%s|%s", c.what, what)
				if c.what != "directory" {
					o.Key = fmt.Sprintf("odd|%s|form-kind=%s|%s", c.what, form.kind, what)
				}
				o.Detail = fmt.Sprintf("index.html: %q\nlog: %s\nBuildTemplate returned no error", src, showLog(log))
			}
			return o
		},
		Describe: func(i uint64) any {
			c := cases[i]
			return map[string]any{"what": c.what, "form": refForms[c.form].name}
		},
	}
}
