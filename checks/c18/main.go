// C18 — template file loading stays inside the file system and terminates.
//
// Three files (index.html, a/p.html, a/b/q.html) carry every combination of
// extends / import / render references with 8 path strings; each graph is
// built through a recording fs.FS and through a recording FormatFS. An
// independent path/cycle model decides which names may be opened, which
// references cannot resolve, and whether the reference graph has a cycle.
package main

import (
	"errors"
	"fmt"
	"io/fs"
	"path"
	"runtime/debug"
	"sort"
	"strings"

	"verif/kit"

	"github.com/open2b/scriggo"
)

var fileNames = []string{"index.html", "a/p.html", "a/b/q.html"}

var kinds = []string{"extends", "import", "render", "render-default"}

var paths = []string{"p.html", "/a/p.html", "../index.html", "../../x", "../../../etc", "b/q.html", "./p.html", "..a/p.html"}

type ref struct {
	kind, path string
}

func (r ref) String() string { return r.kind + " " + r.path }

var refMenu = func() []ref {
	var m []ref
	for _, k := range kinds {
		for _, p := range paths {
			m = append(m, ref{k, p})
		}
	}
	return m
}()

// ---- the model ----

// resolve returns the rooted name a reference denotes, or ok=false when it
// would leave the root.
func resolve(from string, p string) (name string, ok bool) {
	if strings.HasPrefix(p, "/") {
		name = path.Clean(p[1:])
	} else {
		name = path.Join(path.Dir(from), p)
	}
	if name == ".." || strings.HasPrefix(name, "../") {
		return "", false
	}
	return name, true
}

type graph struct {
	refs [3][]ref // references of each file
}

func (g *graph) fileIndex(name string) int {
	for i, n := range fileNames {
		if n == name {
			return i
		}
	}
	return -1
}

// body generates a file that is valid apart from its references: the extends
// comes first, imports follow, every render sits in a macro (allowed in
// extending, imported, rendered and extended files alike).
func (g *graph) body(i int) string {
	var ext, imp, ren strings.Builder
	for j, r := range g.refs[i] {
		switch r.kind {
		case "extends":
			fmt.Fprintf(&ext, "{%% extends %q %%}\n", r.path)
		case "import":
			fmt.Fprintf(&imp, "{%% import %q %%}\n", r.path)
		case "render":
			fmt.Fprintf(&ren, "{%% macro M%d%d %%}{{ render %q }}{%% end %%}\n", i+1, j+1, r.path)
		case "render-default":
			// falls back to the default expression when the file does not exist
			fmt.Fprintf(&ren, "{%% macro M%d%d %%}{{ render %q default \"fallback\" }}{%% end %%}\n", i+1, j+1, r.path)
		}
	}
	return ext.String() + imp.String() + ren.String()
}

func (g *graph) files() scriggo.Files {
	f := scriggo.Files{}
	for i, n := range fileNames {
		f[n] = []byte(g.body(i))
	}
	return f
}

type modelInfo struct {
	reachable   map[string]bool // existing files reachable from index.html
	escaping    []string        // reachable references that leave the root
	missing     []string        // reachable references that resolve inside the root to no file
	cyclic      bool
	cycleDetail string
}

func (g *graph) model() modelInfo {
	m := modelInfo{reachable: map[string]bool{}}
	state := map[int]int{} // 0 new, 1 on stack, 2 done
	var stack []string
	var visit func(i int)
	visit = func(i int) {
		state[i] = 1
		stack = append(stack, fileNames[i])
		m.reachable[fileNames[i]] = true
		for _, r := range g.refs[i] {
			name, ok := resolve(fileNames[i], r.path)
			if !ok {
				if r.kind != "render-default" { // with a default, a file that is not found is not an error
					m.escaping = append(m.escaping, fileNames[i]+": "+r.String())
				}
				continue
			}
			t := g.fileIndex(name)
			if t < 0 {
				if r.kind != "render-default" {
					m.missing = append(m.missing, fileNames[i]+": "+r.String()+" -> "+name)
				}
				continue
			}
			switch state[t] {
			case 0:
				visit(t)
			case 1:
				if !m.cyclic {
					m.cyclic = true
					m.cycleDetail = strings.Join(stack, " -> ") + " -> " + name
				}
			}
		}
		stack = stack[:len(stack)-1]
		state[i] = 2
	}
	visit(0)
	return m
}

// ---- recording file systems ----

type event struct{ op, name string }

type recFS struct {
	inner scriggo.Files
	log   *[]event
}

func (r recFS) Open(name string) (fs.File, error) {
	*r.log = append(*r.log, event{"Open", name})
	return r.inner.Open(name)
}

type recFormatFS struct{ recFS }

func (r recFormatFS) Format(name string) (scriggo.Format, error) {
	*r.log = append(*r.log, event{"Format", name})
	return scriggo.FormatHTML, nil
}

// recReadFileFS also implements fs.ReadFileFS, the method fs.ReadFile prefers.
type recReadFileFS struct{ recFS }

func (r recReadFileFS) ReadFile(name string) ([]byte, error) {
	*r.log = append(*r.log, event{"ReadFile", name})
	return fs.ReadFile(r.inner, name)
}

var fsVariants = []string{"fs.FS", "FormatFS", "ReadFileFS"}

func (g *graph) build(variant string) (log []event, err error) {
	rec := recFS{inner: g.files(), log: &log}
	var fsys fs.FS = rec
	switch variant {
	case "FormatFS":
		fsys = recFormatFS{rec}
	case "ReadFileFS":
		fsys = recReadFileFS{rec}
	}
	_, err = scriggo.BuildTemplate(fsys, "index.html", nil)
	return log, err
}

// judge applies the oracle to one build. It returns "" or a defect key and an explanation.
func (g *graph) judge(m modelInfo, log []event, err error) (key, why string) {
	files := g.files()
	// names that may be opened: index.html and the resolution of every
	// reference of a file that was itself opened and exists
	allowed := map[string]bool{"index.html": true}
	opened := map[string]int{}
	for _, e := range log {
		if !fs.ValidPath(e.name) {
			cls := "other"
			switch {
			case strings.Contains(e.name, ".."):
				cls = "contains-dotdot"
			case strings.HasPrefix(e.name, "/"):
				cls = "rooted-with-slash"
			case strings.Contains(e.name, "./") || strings.HasSuffix(e.name, "/."):
				cls = "contains-dot-element"
			}
			return "invalid-name-passed-to-" + e.op + "|" + cls, fmt.Sprintf("%s(%q): not an fs.ValidPath", e.op, e.name)
		}
		if !allowed[e.name] {
			return "name-passed-to-" + e.op + "-is-not-the-resolution-of-a-reference", fmt.Sprintf("%s(%q): allowed at this point %v", e.op, e.name, keys(allowed))
		}
		if _, exists := files[e.name]; !exists {
			continue
		}
		if e.op == "Format" {
			continue
		}
		opened[e.name]++
		if opened[e.name] > 1 {
			return fmt.Sprintf("file-read-more-than-once|model-graph-cyclic=%v", m.cyclic), fmt.Sprintf("%s(%q) a second time", e.op, e.name)
		}
		if i := g.fileIndex(e.name); i >= 0 {
			for _, r := range g.refs[i] {
				if n, ok := resolve(e.name, r.path); ok {
					allowed[n] = true
				}
			}
		}
	}
	if m.cyclic && err == nil {
		return "cycle-not-reported", "the reference graph has the cycle " + m.cycleDetail + " but BuildTemplate returned no error"
	}
	if err == nil {
		if len(m.escaping) > 0 {
			return "build-succeeds-with-a-reference-leaving-the-root", fmt.Sprintf("escaping references reachable from index.html: %v", m.escaping)
		}
		if len(m.missing) > 0 {
			return "build-succeeds-with-a-reference-to-a-missing-file", fmt.Sprintf("unresolvable references reachable from index.html: %v", m.missing)
		}
		for n := range m.reachable {
			if opened[n] == 0 {
				return "build-succeeds-without-reading-a-referenced-file", fmt.Sprintf("%q is referenced but was never opened", n)
			}
		}
		for n := range opened {
			if !m.reachable[n] {
				return "build-reads-an-unreferenced-file", fmt.Sprintf("%q was opened but no chain of references leads to it", n)
			}
		}
	}
	return "", ""
}

func keys(m map[string]bool) []string {
	var k []string
	for s := range m {
		k = append(k, s)
	}
	sort.Strings(k)
	return k
}

func showFiles(files scriggo.Files) string {
	var names []string
	for k := range files {
		names = append(names, k)
	}
	sort.Strings(names)
	var b strings.Builder
	for _, n := range names {
		fmt.Fprintf(&b, "    %-12s %q\n", n, files[n])
	}
	return b.String()
}

func (g *graph) eval() kit.Outcome {
	m := g.model()
	o := kit.Outcome{OK: true, Nontrivial: len(g.refs[0]) > 0}
	var firstErr error
	type verdict struct{ variant, key, why, log string }
	var bad []verdict
	for vi, variant := range fsVariants {
		log, err := g.build(variant)
		if vi == 0 {
			firstErr = err
		}
		o.Ops += len(log) + 1
		if key, why := g.judge(m, log, err); key != "" {
			bad = append(bad, verdict{variant, key, why, fmt.Sprintf("%v, error: %v", log, err)})
		}
	}
	switch {
	case firstErr == nil:
		o.Class = fmt.Sprintf("built, %d file(s) read", len(m.reachable))
	case m.cyclic:
		o.Class = "error; model: cycle"
	case len(m.escaping) > 0:
		o.Class = "error; model: a reference leaves the root"
	case len(m.missing) > 0:
		o.Class = "error; model: a reference resolves to no file"
	default:
		o.Class = "error; model: resolvable and acyclic (kind rules: " + errClass(firstErr) + ")"
	}
	if len(bad) == 0 {
		return o
	}
	o.OK = false
	o.Key = bad[0].key
	if len(bad) < len(fsVariants) {
		var vs []string
		for _, b := range bad {
			if b.key == bad[0].key {
				vs = append(vs, b.variant)
			}
		}
		o.Key += "|only-through=" + strings.Join(vs, "+")
	}
	o.Detail = fmt.Sprintf("files:\n%s%s (through %s)\nlog: %s\nmodel: reachable %v, escaping %v, missing %v, cycle %q",
		showFiles(g.files()), bad[0].why, bad[0].variant, bad[0].log, keys(m.reachable), m.escaping, m.missing, m.cycleDetail)
	return o
}

func errClass(err error) string {
	var be *scriggo.BuildError
	if errors.As(err, &be) {
		msg := be.Message()
		for _, s := range []string{"can not have extends", "extends is not at the beginning", "of file extended", "of file imported", "of file rendered", "does not exist", "cycle", "invalid", "extends can only be used"} {
			if strings.Contains(msg, s) || strings.Contains(err.Error(), s) {
				return s
			}
		}
		return "other build error"
	}
	return fmt.Sprintf("%T", err)
}

// refsOf decodes a reference list index: 0 = none, 1..n = one, then pairs.
func refsOf(i uint64, max int) []ref {
	n := uint64(len(refMenu))
	if i == 0 {
		return nil
	}
	i--
	if i < n {
		return []ref{refMenu[i]}
	}
	i -= n
	if max < 2 {
		panic("index out of range")
	}
	return []ref{refMenu[i/n], refMenu[i%n]}
}

func spaces(tier string) []kit.Space {
	// An unbounded recursion on a cyclic graph must kill the worker at once
	// (and be reported as a crash), not after growing a 1 GB stack (a legitimate build of these tiny files needs a few KB).
	debug.SetMaxStack(4 << 20)
	n := uint64(len(refMenu))
	first := 1 + n
	max1 := 1
	if tier == "thorough" {
		first = 1 + n + n*n
		max1 = 2
	}
	other := 1 + n
	mk := func(i uint64) *graph {
		d := kit.Mixed(i, other, other, first)
		g := &graph{}
		g.refs[2] = refsOf(d[0], 1)
		g.refs[1] = refsOf(d[1], 1)
		g.refs[0] = refsOf(d[2], max1)
		return g
	}
	desc := func(g *graph) any {
		f := map[string]string{}
		for k, v := range g.files() {
			f[k] = string(v)
		}
		m := g.model()
		return map[string]any{"files": f, "model": map[string]any{"reachable": keys(m.reachable), "escaping": m.escaping, "missing": m.missing, "cycle": m.cycleDetail}}
	}
	// a directory whose name starts with two dots is inside the root: observation only
	var dd []*graph
	for _, k := range kinds {
		g := &graph{}
		g.refs[0] = []ref{{k, "..a/p.html"}}
		dd = append(dd, g)
	}
	return []kit.Space{
		{
			Name:     "reference-graphs",
			Size:     kit.Product(other, other, first),
			Eval:     func(i uint64) kit.Outcome { return mk(i).eval() },
			Describe: func(i uint64) any { return desc(mk(i)) },
		},
		{
			Name: "observation.directory-named-dotdot-a",
			Size: uint64(len(dd)),
			Eval: func(i uint64) kit.Outcome {
				g := dd[i]
				files := g.files()
				files["..a/p.html"] = []byte("{% macro P %}p{% end %}\n")
				var log []event
				_, err := scriggo.BuildTemplate(recFS{inner: files, log: &log}, "index.html", nil)
				o := kit.Outcome{OK: true, Nontrivial: true}
				// The statement does not say that references staying inside the root
				// must succeed, so this is recorded as a class, not as a failure.
				if err == nil {
					o.Class = "observation: reference into the existing directory ..a resolves"
				} else {
					o.Class = "observation: reference into the existing directory ..a is refused (" + kit.NormMsg(err.Error()) + ")"
				}
				for _, e := range log {
					if !fs.ValidPath(e.name) {
						return kit.Outcome{OK: false, Nontrivial: true, Key: "invalid-name-passed-to-Open|other", Detail: fmt.Sprintf("Open(%q)", e.name)}
					}
				}
				return o
			},
			Describe: func(i uint64) any {
				return map[string]any{"index.html": dd[i].body(0), "..a/p.html": "{% macro P %}p{% end %}\n"}
			},
		},
		formsSpace(), dirsSpace(), rootSpace(), oddSpace(),
	}
}

func main() {
	kit.Main(&kit.Check{
		ID:       "C18",
		Level:    "model_checking",
		Isolated: true,
		Rule: "every assignment of references (4 kinds — extends, import, render, render with default — x 8 path strings) to the three files index.html, a/p.html, a/b/q.html with at most 1 (quick) / 2 (thorough) references in index.html and at most 1 in each of the others; every graph is built three times, through a recording fs.FS, a recording FormatFS and a recording fs.ReadFileFS; " +
			"a case is non-trivial when index.html carries at least one reference. Indices enumerate distinct reference assignments (mixed radix)",
		Assumptions: []string{
			"forms, dirs, root and odd (see forms.go), identical in both tiers: forms = 14 reference forms x 20 path shapes x 3 depths of the referencing file x 3 file systems (recording scriggo.Files, the same as FormatFS, and a lenient one that serves the cleaned name of whatever it is asked); the valid shapes are those of the documented rule (a valid file system path, not '.', that may start with / or with ../ elements); no name with a '..', '.', or empty element, no empty or absolute name may reach the file system; invalid shapes must be build errors; dirs = 4 inner references x 3 spellings x 2 ways to reach the pages x both orders x 2 file systems, with decoy files where a wrong resolution would look; root = 11 shapes of the name passed to BuildTemplate x 4 bodies through the lenient file system; odd = Format failing for an existing file (wrapping fs.ErrNotExist or not) and a directory referred to as a file x 14 forms: the build must fail",
			"model resolution: a path starting with / is taken from the root, any other is path.Join(dir of the referencing file, path); a result that is .. or starts with ../ leaves the root",
			"file bodies are valid apart from the references: extends first, then imports, renders inside macros; two extends in a file or an extends after another statement cannot be made valid and are expected to fail",
			"'read at most once' counts successful opens of existing files; repeated attempts to open a name that does not exist are not counted",
			"a successful build must have read exactly the files reachable in the model; a failed build is only required not to have opened a name outside the model",
			"runs in crash-isolated workers: a stack overflow or hang on a cyclic graph would be reported as a crash/hang failure",
		},
		Spaces: spaces,
	})
}
