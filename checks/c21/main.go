// C21 — Build errors point at a real location in the reported file.
//
// *scriggo.BuildError values are harvested from (i) every first-order C03
// mutant of the seed programs (as written, with CRLF line endings and with a
// BOM), (ii) segment and byte level spaces for programs and for templates of
// every format, and (iii) two and three file template sets whose error is in
// the rendered / imported / extended file. The build reads its files through
// a recording fs.FS. For every error: Path() must be one of the files the
// build opened; 0 <= Start <= len(file), Start-1 <= End <= len(file); Line is
// 1 + the number of '\n' before Start; Column is 1 + the number of runes
// between the start of that line and Start.
package main

import (
	"errors"
	"fmt"
	"io/fs"
	"regexp"
	"runtime/debug"
	"sort"
	"strings"
	"sync"
	"time"
	"unicode/utf8"

	"verif/gen/gomutants"
	"verif/kit"

	"github.com/open2b/scriggo"
)

// recFS records the names opened by a build.
type recFS struct {
	files  scriggo.Files
	mu     sync.Mutex
	opened map[string]bool
}

func (r *recFS) Open(name string) (fs.File, error) {
	r.mu.Lock()
	r.opened[name] = true
	r.mu.Unlock()
	return r.files.Open(name)
}

func newRec(files scriggo.Files) *recFS { return &recFS{files: files, opened: map[string]bool{}} }

// neutralisers remove, one class at a time, the features of a source text
// that position bookkeeping is sensitive to. If an inconsistent error becomes
// consistent once a class is neutralised, the inconsistency depends on that
// class: it names the cause in the failure key.
var neutralisers = []struct {
	name string
	fn   func(string) string
	tpl  bool // template syntax: not applied to Go files
}{
	{name: "multiline-{#-comment", fn: func(s string) string { return flattenBetween(s, "{#", "#}") }, tpl: true},
	{name: "multiline-/*-comment", fn: func(s string) string { return flattenBetween(s, "/*", "*/") }},
	{name: "multiline-raw-string", fn: func(s string) string { return flattenBetween(s, "`", "`") }},
	{name: "/*-comment", fn: func(s string) string { return blankBetween(s, "/*", "*/") }},
	{name: "multibyte-rune-literal", fn: func(s string) string { return asciiRunes(s, "'") }},
	{name: "multibyte-string-literal", fn: func(s string) string { return asciiRunes(s, "\"`") }},
	{name: "multibyte-rune", fn: func(s string) string { return asciiRunes(s, "") }},
	{name: "tab", fn: func(s string) string { return strings.ReplaceAll(s, "\t", " ") }},
	{name: "CRLF", fn: func(s string) string { return strings.ReplaceAll(s, "\r\n", "\n") }},
	{name: "CR", fn: func(s string) string { return strings.ReplaceAll(s, "\r", " ") }},
	{name: "BOM", fn: func(s string) string { return strings.ReplaceAll(s, "\ufeff", "") }},
	{name: "invalid-utf8", fn: func(s string) string { return strings.ToValidUTF8(s, "?") }},
	{name: "multiline-{{-}}", fn: func(s string) string { return flattenBetween(s, "{{", "}}") }, tpl: true},
	{name: "multiline-{%-%}", fn: func(s string) string { return flattenBetween(s, "{%", "%}") }, tpl: true},
	{name: "line break inside an end tag", fn: func(s string) string { return flattenBetween(s, "</", ">") }, tpl: true},
	{name: "backslash-newline in a script or style string", fn: func(s string) string {
		return strings.NewReplacer("\\\r\n", "   ", "\\\n", "  ").Replace(s)
	}, tpl: true},
	{name: "line break inside a tag", fn: func(s string) string { return flattenBetween(s, "<", ">") }, tpl: true},
	{name: "URL in Markdown", fn: func(s string) string {
		return strings.NewReplacer("https://", "https_  ", "http://", "http_  ").Replace(s)
	}, tpl: true},
}

// flattenBetween replaces the line breaks between open and the next close by spaces.
func flattenBetween(s, open, close string) string {
	var b strings.Builder
	for {
		i := strings.Index(s, open)
		if i < 0 {
			break
		}
		j := strings.Index(s[i+len(open):], close)
		if j < 0 {
			break
		}
		j += i + len(open)
		b.WriteString(s[:i])
		b.WriteString(strings.NewReplacer("\r\n", " ", "\n", " ", "\r", " ").Replace(s[i : j+len(close)]))
		s = s[j+len(close):]
	}
	b.WriteString(s)
	return b.String()
}

// blankBetween overwrites every open...close on one line with spaces (same length).
func blankBetween(s, open, close string) string {
	b := []byte(s)
	from := 0
	for {
		i := strings.Index(s[from:], open)
		if i < 0 {
			break
		}
		i += from
		j := strings.Index(s[i+len(open):], close)
		if j < 0 {
			break
		}
		j += i + len(open) + len(close)
		if !strings.ContainsAny(s[i:j], "\r\n") {
			n := utf8.RuneCountInString(s[i:j])
			return blankBetween(s[:i]+strings.Repeat(" ", n)+s[j:], open, close)
		}
		from = j
	}
	return string(b)
}

// asciiRunes replaces multi-byte runes by 'e': those inside the literals
// delimited by one of quotes, or all of them if quotes is empty.
func asciiRunes(s string, quotes string) string {
	inLiterals := quotes != ""
	var b strings.Builder
	quote := rune(0)
	esc := false
	for _, r := range s {
		multi := r >= utf8.RuneSelf && r != utf8.RuneError && r != '\ufeff'
		switch {
		case esc:
			esc = false
		case quote != 0 && r == '\\' && quote != '`':
			esc = true
		case quote != 0 && (r == quote || r == '\n' && quote != '`'):
			quote = 0
		case quote == 0 && (r == '"' || r == '\'' || r == '`'):
			quote = r
		}
		if multi && (!inLiterals || quote != 0 && strings.ContainsRune(quotes, quote)) {
			b.WriteByte('e')
		} else {
			b.WriteRune(r)
		}
	}
	return b.String()
}

func delta(d int) string {
	if d > 3 || d < -3 {
		return "far"
	}
	return fmt.Sprintf("%+d", d)
}

var reQuoted = regexp.MustCompile("\"(?:[^\"\\\\]|\\\\.)*\"|`[^`]*`")

// msgClass reduces an error message to its constant head.
func msgClass(m, src string) string {
	if i := strings.Index(m, " ("); i > 0 {
		m = m[:i]
	}
	m = gomutants.Normalise(m, src)
	if i := strings.Index(m, ": "); i > 0 {
		m = m[:i]
	}
	words := strings.Fields(m)
	if len(words) > 4 {
		words = words[:4]
	}
	for i, w := range words {
		if !reLower.MatchString(w) {
			words[i] = "X"
		}
	}
	return strings.Join(words, " ")
}

var reLower = regexp.MustCompile(`^[a-z]+$`)

// verdict is the position oracle on one error: "" if consistent, else what is wrong.
func verdict(rec *recFS, be *scriggo.BuildError) (problem, why string) {
	pos := be.Position()
	path := be.Path()
	rec.mu.Lock()
	wasOpened := rec.opened[path]
	var openedList []string
	for n := range rec.opened {
		openedList = append(openedList, n)
	}
	rec.mu.Unlock()
	sort.Strings(openedList)
	if !wasOpened {
		return "path-not-opened", fmt.Sprintf("the build opened %q", openedList)
	}
	data, ok := rec.files[path]
	if !ok {
		return "path-not-a-file", "the path was opened but is not one of the files"
	}
	content := string(data)
	if pos == (scriggo.Position{}) {
		return "", "" // the zero Position: an error about the package as a whole ("function main is undeclared")
	}
	if pos.Start < 0 || pos.Start > len(content) {
		return "start-out-of-file", fmt.Sprintf("want 0 <= Start <= %d", len(content))
	}
	if pos.End < pos.Start-1 || pos.End > len(content) {
		return "end-out-of-range", fmt.Sprintf("want Start-1 <= End <= %d", len(content))
	}
	ls := strings.LastIndexByte(content[:pos.Start], '\n') + 1
	wantLine := 1 + strings.Count(content[:pos.Start], "\n")
	wantCol := 1 + utf8.RuneCountInString(content[ls:pos.Start])
	if pos.Line == wantLine && pos.Column == wantCol {
		return "", ""
	}
	why = fmt.Sprintf("Start=%d is at line %d column %d", pos.Start, wantLine, wantCol)
	if pos.Line != wantLine {
		return "line-off " + delta(pos.Line-wantLine), why
	}
	return "column-off " + delta(pos.Column-wantCol), why
}

// checkError applies the oracle to one build error. rebuild builds the same
// file set with the content of one file replaced.
func checkError(kind string, rec *recFS, err error, rebuild func(path, content string) (*recFS, error)) kit.Outcome {
	show := func() string {
		names := make([]string, 0, len(rec.files))
		for n := range rec.files {
			names = append(names, n)
		}
		sort.Strings(names)
		var b strings.Builder
		for _, n := range names {
			fmt.Fprintf(&b, "--- %s (%d bytes)\n%q\n", n, len(rec.files[n]), rec.files[n])
		}
		return b.String()
	}
	if err == nil {
		return kit.Outcome{OK: true, Class: "built"}
	}
	var be *scriggo.BuildError
	if !errors.As(err, &be) {
		if errors.Is(err, fs.ErrNotExist) {
			return kit.Outcome{OK: true, Class: "fs.ErrNotExist"}
		}
		return kit.Outcome{OK: true, Class: "other-error (C04's concern)"}
	}
	pos := be.Position()
	problem, why := verdict(rec, be)
	if problem == "" {
		o := kit.Outcome{OK: true, Nontrivial: true, Class: "BuildError:" + kind, Ops: 1}
		if pos == (scriggo.Position{}) {
			o.Class = "BuildError without position (0:0)"
		}
		return o
	}
	bad := func(key, more string) kit.Outcome {
		return kit.Outcome{Key: key, Class: "fail", Nontrivial: true,
			Detail: fmt.Sprintf("[%s]\n%serror: %v\nPath=%q Line=%d Column=%d Start=%d End=%d Message=%q\n%s\n%s", kind, show(), err, be.Path(), pos.Line, pos.Column, pos.Start, pos.End, be.Message(), why, more)}
	}
	if !strings.HasPrefix(problem, "line-off") && !strings.HasPrefix(problem, "column-off") {
		return bad(problem, "")
	}
	// Does the inconsistency depend on what the file contains? Neutralise all
	// the feature classes at once and build again; if that makes the position
	// consistent, find the single class responsible.
	content := string(rec.files[be.Path()])
	consistentWith := func(plain string) (bool, string) {
		rec2, err2 := rebuild(be.Path(), plain)
		var be2 *scriggo.BuildError
		if err2 == nil || !errors.As(err2, &be2) {
			return false, ""
		}
		if msgClass(be2.Message(), plain) != msgClass(be.Message(), content) {
			return false, "" // a different error: says nothing about this one
		}
		p2, _ := verdict(rec2, be2)
		return p2 == "", fmt.Sprintf("%q -> %d:%d Start=%d", plain, be2.Position().Line, be2.Position().Column, be2.Position().Start)
	}
	isGo := strings.HasSuffix(be.Path(), ".go")
	all := content
	for _, nt := range neutralisers {
		if !(isGo && nt.tpl) {
			all = nt.fn(all)
		}
	}
	if all != content {
		if ok, _ := consistentWith(all); ok {
			for _, nt := range neutralisers {
				plain := nt.fn(content)
				if plain == content || isGo && nt.tpl {
					continue
				}
				if ok, how := consistentWith(plain); ok {
					return bad(problem+" after "+nt.name, "the position is consistent once "+nt.name+" is neutralised: "+how)
				}
			}
			return bad(problem+" after a combination of multi-line tokens / multi-byte runes / tab / CR / BOM", "the position is consistent once all of them are neutralised")
		}
	}
	// independent of the preceding content: Line:Column and Start denote two different points
	if q, ok := offsetOf(content, pos.Line, pos.Column); ok && q > pos.Start && q <= pos.End+1 {
		return bad("line:column of an inner token of the node (operator, bracket, dot), Start..End of the whole node", "")
	}
	side := "before Start"
	if q, ok := offsetOf(content, pos.Line, pos.Column); !ok {
		side = "outside the file"
	} else if q > pos.End {
		side = "after End"
	}
	return bad("line:column "+side+" | "+msgClass(be.Message(), content), "")
}

// offsetOf converts a line:column (in runes) to a byte offset.
func offsetOf(content string, line, col int) (int, bool) {
	if line < 1 || col < 1 {
		return 0, false
	}
	off := 0
	for l := 1; l < line; l++ {
		i := strings.IndexByte(content[off:], '\n')
		if i < 0 {
			return 0, false
		}
		off += i + 1
	}
	for c := 1; c < col; c++ {
		if off >= len(content) || content[off] == '\n' {
			return 0, false
		}
		_, n := utf8.DecodeRuneInString(content[off:])
		off += n
	}
	return off, true
}

// notMine turns a panic of Build (C03's and C04's concern) into a counted class.
func notMine(o *kit.Outcome) {
	if e := recover(); e != nil {
		if kit.FirstRepoFrame(string(debug.Stack())) == "" {
			panic(e)
		}
		*o = kit.Outcome{OK: true, Class: "Build panics (C03's concern)"}
	}
}

func buildProgram(kind, src string) (o kit.Outcome) {
	defer notMine(&o)
	build := func(src string) (*recFS, error) {
		rec := newRec(scriggo.Files{"main.go": []byte(src)})
		_, err := scriggo.Build(rec, &scriggo.BuildOptions{AllowGoStmt: true})
		return rec, err
	}
	rec, err := build(src)
	return checkError(kind, rec, err, func(_, content string) (*recFS, error) { return build(content) })
}

func buildTemplate(kind string, files scriggo.Files, name string) (o kit.Outcome) {
	defer notMine(&o)
	build := func(files scriggo.Files) (*recFS, error) {
		rec := newRec(files)
		_, err := scriggo.BuildTemplate(rec, name, nil)
		return rec, err
	}
	rec, err := build(files)
	return checkError(kind, rec, err, func(path, content string) (*recFS, error) {
		fl := scriggo.Files{}
		for k, v := range files {
			fl[k] = v
		}
		fl[path] = []byte(content)
		return build(fl)
	})
}

// ---- (i) C03 mutants ----

type seedPlan struct {
	src     string
	name    string
	mutants []gomutants.Mutant
}

func mutantSpace(name, kind string, transform func(string) string, seeds []gomutants.Seed) kit.Space {
	var plans []seedPlan
	var starts []uint64
	total := uint64(0)
	for _, s := range seeds {
		plans = append(plans, seedPlan{s.Src, s.Name, gomutants.Plan(s.Src)})
		starts = append(starts, total)
		total += uint64(len(plans[len(plans)-1].mutants))
	}
	at := func(i uint64) (string, string, gomutants.Mutant) {
		k := sort.Search(len(starts), func(k int) bool { return starts[k] > i }) - 1
		m := plans[k].mutants[i-starts[k]]
		return plans[k].name, transform(m.Apply(plans[k].src)), m
	}
	return kit.Space{
		Name: name,
		Size: total,
		Eval: func(i uint64) kit.Outcome {
			_, src, _ := at(i)
			return buildProgram(kind, src)
		},
		Describe: func(i uint64) any {
			seed, _, m := at(i)
			return map[string]any{"seed": seed, "op": m.Op, "offset": m.Off, "end": m.End, "text": m.Text}
		},
	}
}

// ---- (ii) segment spaces ----

// template segments: text, comments, valid code, and code with an error
var tplSegments = []string{
	"a", "é", "\t", "\n", "\r\n", " ", "\ufeff",
	"{# c #}", "{#\n#}", "{# é\né #}",
	`{{ "é" }}`, `{{ 'é' }}`, `{{ "a" }}`, "{{ 1 /* c */ }}", "{{ `\n` }}", "{{ 1 /* é\n */ }}", "{% if true %}", "{% end %}", "{% var v = \"é\" %}",
	"{{ x }}", `{{ 1 + "a" }}`, `{{ "é" + 1 }}`, "{{ 1 +\n  x }}", "{% if %}", "{{ 1 +", "{{ \"", "{{ v }}",
}

// statements of a function body
var goSegments = []string{
	"\t", "\n", "\r\n", " ", "// é\n", "/* é */", "/* é\n é */", "\ufeff",
	"_ = \"é\"\n", "_ = 'é'\n", "_ = \"é\"; ", "_ = 'é'; ", "/* c */ ", "_ = `é\n`\n", "é := 1\n", "_ = é\n",
	"_ = y\n", "_ = 1 + \"a\"\n", "_ = \"é\" + 1\n", "_ = 1 +\n\t\ty\n", "var\n", "_ = \"\n", "_ = 'ab'\n", "y()\n", "if {\n",
}

// raw bytes (C04's template alphabet plus a multi-byte rune, CRLF, BOM, tab)
var byteAlphabet = []string{"{", "}", "%", "#", "\"", "'", "`", "\\", "<", ">", "/", "*", "=", "-", ".", "0", "x", "_", "\n", "\r", " ", "a", "\x00", "\xef", "\xff", "é", "\r\n", "\ufeff", "\t"}

// Go tokens inside {{ }}, {% %} and function bodies
var goAlphabet = []string{"(", ")", "[", "]", "{", "}", "\"", "'", "`", "\\", "0", "x", ".", "e", "+", "-", "*", "/", "<", "=", "!", "&", "|", ":", ",", ";", " ", "a", "_", "\n", "\xff", "%", "#", "é", "\r\n", "\t"}

var formats = []string{"html", "css", "js", "json", "md", "txt"}

type variant struct {
	name  string
	alpha []string
	n     int
	build func(s string) kit.Outcome
	files func(s string) any
}

func tplVariant(name, ext, pre, post string, alpha []string, n int) variant {
	mk := func(s string) scriggo.Files { return scriggo.Files{"index." + ext: []byte(pre + s + post)} }
	return variant{name, alpha, n,
		func(s string) kit.Outcome { return buildTemplate(name, mk(s), "index."+ext) },
		func(s string) any { return map[string]string{"index." + ext: pre + s + post} }}
}

func progVariant(name, pre, post string, alpha []string, n int) variant {
	return variant{name, alpha, n,
		func(s string) kit.Outcome { return buildProgram(name, pre+s+post) },
		func(s string) any { return map[string]string{"main.go": pre + s + post} }}
}

// multi-file sets: the enumerated text is the content of the file reached by
// render / import / extends (directly or through a middle file).
func setVariant(name string, fixed map[string]string, target string, alpha []string, n int) variant {
	mk := func(s string) scriggo.Files {
		fl := scriggo.Files{target: []byte(s)}
		for k, v := range fixed {
			fl[k] = []byte(v)
		}
		return fl
	}
	return variant{name, alpha, n,
		func(s string) kit.Outcome { return buildTemplate(name, mk(s), "index.html") },
		func(s string) any {
			m := map[string]string{target: s}
			for k, v := range fixed {
				m[k] = v
			}
			return m
		}}
}

func variants(tier string) []variant {
	seg, raw, rawMain := 3, 2, 3
	if tier == "thorough" {
		seg, raw, rawMain = 4, 3, 4
	}
	vs := []variant{
		tplVariant("template.html.segments", "html", "", "", tplSegments, 4),
		tplVariant("template.txt.segments", "txt", "", "", tplSegments, seg),
		tplVariant("template.md.segments", "md", "", "", tplSegments, seg),
		tplVariant("template.js.segments", "js", "", "", tplSegments, seg),
		tplVariant("template.css.segments", "css", "", "", tplSegments, seg),
		tplVariant("template.json.segments", "json", "", "", tplSegments, seg),
		tplVariant("template.html.script.segments", "html", "<script>", "</script>", tplSegments, seg),
		tplVariant("template.html.attr.segments", "html", "<a href=\"", "\">", tplSegments, seg),
		progVariant("program.body.segments", "package main\n\nfunc main() {\n", "}\n", goSegments, seg),
		progVariant("program.toplevel.segments", "package main\n", "func main() {}\n", goSegments, seg),
		progVariant("program.raw.bytes", "", "", byteAlphabet, rawMain),
		progVariant("program.body.tokens", "package main\nfunc main() { ", " }\n", goAlphabet, raw),
		tplVariant("template.html.show.tokens", "html", "é{{ ", " }}", goAlphabet, raw),
		tplVariant("template.html.stmt.tokens", "html", "{#\n#}{% ", " %}", goAlphabet, raw),
		tplVariant("template.html.block.tokens", "html", "{%% ", " %%}", goAlphabet, raw),
	}
	for _, f := range formats {
		vs = append(vs, tplVariant("template."+f+".bytes", f, "", "", byteAlphabet, rawMain))
	}
	// (iii) multi-file sets
	vs = append(vs,
		setVariant("set.render", map[string]string{"index.html": "é\n{# \n #}{{ render \"p.html\" }}b"}, "p.html", tplSegments, seg),
		setVariant("set.import", map[string]string{"index.html": "{% import \"p.html\" %}é\n{{ M() }}"}, "p.html", append(append([]string{}, tplSegments...), "{% macro M %}", "{% macro M() %}"), seg),
		setVariant("set.extends", map[string]string{"index.html": "{% extends \"p.html\" %}\n{% macro M %}é{% end %}"}, "p.html", append(append([]string{}, tplSegments...), "{{ M() }}"), seg),
		setVariant("set.render-render", map[string]string{"index.html": "é{{ render \"mid.html\" }}", "mid.html": "{#\n#}é{{ render \"p.html\" }}"}, "p.html", tplSegments, seg),
		setVariant("set.extends-import", map[string]string{"index.html": "{% extends \"mid.html\" %}{% import \"p.html\" %}{% macro M %}{{ P() }}{% end %}", "mid.html": "é\n{{ M() }}"}, "p.html", append(append([]string{}, tplSegments...), "{% macro P %}", "{% macro P() %}"), seg),
		setVariant("set.index-error-after-render", map[string]string{"p.html": "é\n\n{# \n #}é"}, "index.html", append(append([]string{}, tplSegments...), "{{ render \"p.html\" }}"), seg),
		setVariant("set.render.bytes", map[string]string{"index.html": "a{{ render \"p.html\" }}b"}, "p.html", byteAlphabet, raw),
	)
	return vs
}

// ---- (iv) errors raised by the emitter in multi-file sets ----
//
// Limit-exceeded errors are raised by the emitter, after parsing and type
// checking, with the path the emitter is working on: they expose a current
// path that is not restored after a reference to another file has been
// processed.

func bigVars(n int, typ string, val func(i int) string, use func(name string) string) string {
	var b strings.Builder
	b.WriteString("{% var ")
	for i := 0; i < n; i++ {
		if i > 0 {
			b.WriteString(", ")
		}
		fmt.Fprintf(&b, "v%d", i)
	}
	b.WriteString(" = ")
	for i := 0; i < n; i++ {
		if i > 0 {
			b.WriteString(", ")
		}
		b.WriteString(val(i))
	}
	b.WriteString(" %}{{ ")
	for i := 0; i < n; i++ {
		if i > 0 {
			b.WriteString(" + ")
		}
		b.WriteString(use(fmt.Sprintf("v%d", i)))
	}
	b.WriteString(" }}")
	_ = typ
	return b.String()
}

// limitBodies exceed a limit of the emitter inside the function that contains them.
var limitBodies = []struct{ name, body string }{
	{"int-registers", bigVars(130, "int", func(i int) string { return fmt.Sprint(i) }, func(n string) string { return n })},
	{"string-registers", bigVars(130, "string", func(i int) string { return fmt.Sprintf("\"s%d\"", i) }, func(n string) string { return n })},
	{"general-registers", bigVars(130, "[]int", func(i int) string { return "[]int{1}" }, func(n string) string { return "len(" + n + ")" })},
	{"string-values", func() string {
		var b strings.Builder
		for i := 0; i < 300; i++ {
			fmt.Fprintf(&b, "{{ \"k%d\" }}", i)
		}
		return b.String()
	}()},
}

// references to another file: text in the referring file, kind of the file referred to
var refKinds = []struct{ name, text, kind string }{
	{"none", "", ""},
	{"import", `{% import "$" %}`, "import"},
	{"import-blank", `{% import _ "$" %}`, "import"},
	{"import-alias", `{% import al "$" %}`, "import"},
	{"import-for", `{% import "$" for P %}`, "import"},
	{"render", `{{ render "$" }}`, "render"},
	{"extends", `{% extends "$" %}`, "extends"}, // last: only as first reference
}

var emitSites = []string{"index-macro", "index-body", "ref-macro", "ref-body"}
var emitFillers = []string{"", "é", "\n", "{#\n#}"}

func emitterSet(i uint64) scriggo.Files {
	m := kit.Mixed(i, uint64(len(emitFillers)), uint64(len(emitFillers)), uint64(len(limitBodies)), uint64(len(emitSites)), uint64(len(refKinds)-1), uint64(len(refKinds)))
	fill, pre, body, site, ref2, ref1 := emitFillers[m[0]], emitFillers[m[1]], limitBodies[m[2]].body, emitSites[m[3]], refKinds[m[4]], refKinds[m[5]]
	extending := ref1.kind == "extends"
	if extending {
		// an extending file holds only declarations: no text, no body
		decl := func(f string) string {
			if f == "é" {
				return "{# é #}"
			}
			return f
		}
		fill, pre = decl(fill), decl(pre)
		if site == "index-body" {
			site = "index-macro"
		}
	}
	referred := func(kind string, name string, withError bool) string {
		big := ""
		switch kind {
		case "import":
			// an imported file can only declare: the error is in its macro P
			if withError {
				return "{# é\n #}\n{% macro P %}" + body + "{% end %}"
			}
			return "{# é\n #}\n{% macro P %}p{% end %}"
		case "render":
			if withError && site == "ref-macro" {
				big = "{% macro P %}" + body + "{% end %}{{ P() }}"
			} else if withError {
				big = body
			}
			return "é\n" + name + big
		case "extends":
			if withError && site == "ref-macro" {
				big = "{% macro P %}" + body + "{% end %}{{ P() }}"
			} else if withError {
				big = body
			}
			return "é\n{{ M() }}" + big
		}
		return ""
	}
	inRef := site == "ref-macro" || site == "ref-body"
	files := scriggo.Files{}
	if ref1.kind != "" {
		files["p.html"] = []byte(referred(ref1.kind, "p", inRef))
	}
	if ref2.kind != "" {
		files["q.html"] = []byte(referred(ref2.kind, "q", false))
	}
	r1, r2 := strings.ReplaceAll(ref1.text, "$", "p.html"), strings.ReplaceAll(ref2.text, "$", "q.html")
	mBody := "x"
	if site == "index-macro" {
		mBody = body
	}
	var idx strings.Builder
	if extending {
		idx.WriteString(r1 + pre)
		if ref2.kind == "render" {
			mBody = r2 + mBody // a render is not a declaration: it goes into the macro
		} else {
			idx.WriteString(r2)
		}
		idx.WriteString(fill + "{% macro M %}" + mBody + "{% end %}")
	} else {
		idx.WriteString(pre + r1 + r2 + fill + "{% macro M %}" + mBody + "{% end %}{{ M() }}")
		if site == "index-body" {
			idx.WriteString(body)
		}
	}
	files["index.html"] = []byte(idx.String())
	return files
}

func emitterSpace() kit.Space {
	nf, nr := uint64(len(emitFillers)), uint64(len(refKinds))
	return kit.Space{
		Name: "3.set.emitter-errors",
		Size: kit.Product(nf, nf, uint64(len(limitBodies)), uint64(len(emitSites)), nr-1, nr),
		Eval: func(i uint64) kit.Outcome {
			files := emitterSet(i)
			o := buildTemplate("set.emitter-errors", files, "index.html")
			if o.OK && strings.HasPrefix(o.Class, "BuildError:") {
				// non-vacuity: how many of the errors come from the emitter
				_, err := scriggo.BuildTemplate(files, "index.html", nil)
				if err != nil && strings.Contains(err.Error(), "exceeded") {
					o.Class = "BuildError:set.emitter-errors(limit exceeded in " + err.(*scriggo.BuildError).Path() + ")"
				} else {
					o.Class = "BuildError:set.emitter-errors(parser or checker)"
				}
			}
			return o
		},
		Describe: func(i uint64) any {
			m := map[string]string{}
			for k, v := range emitterSet(i) {
				m[k] = string(v)
			}
			return m
		},
	}
}

func spaces(tier string) []kit.Space {
	seeds := gomutants.Seeds()
	crlf := func(s string) string { return strings.ReplaceAll(s, "\n", "\r\n") }
	bom := func(s string) string { return "\ufeff" + s }
	ident := func(s string) string { return s }
	crlfSeeds := seeds[:10]
	if tier == "thorough" {
		crlfSeeds = seeds
	}
	sps := []kit.Space{
		mutantSpace("1.mutants", "program.mutant", ident, seeds),
		mutantSpace("1.mutants.crlf", "program.mutant.crlf", crlf, crlfSeeds),
		mutantSpace("1.mutants.bom", "program.mutant.bom", bom, seeds[:6]),
	}
	for _, v := range variants(tier) {
		v := v
		en := kit.NewStringsUpTo(v.alpha, v.n)
		sps = append(sps, kit.Space{
			Name:     "2." + v.name,
			Size:     en.Size(),
			Eval:     func(i uint64) kit.Outcome { return v.build(en.At(i)) },
			Describe: func(i uint64) any { return v.files(en.At(i)) },
		})
	}
	sps = append(sps, emitterSpace())
	sps = append(sps, newlineSpaces(tier)...)
	sps = append(sps, programSetSpace(), expansionSpace())
	return sps
}

func main() {
	kit.Main(&kit.Check{
		ID:       "C21",
		Level:    "model_checking",
		Isolated: true,
		Rule:     "every first-order C03 mutant of the 30 seed programs (as written; with CRLF line endings for 10 seeds (quick) or all (thorough); with a BOM for 6 seeds); every sequence up to the tier's length of template segments (text, tab, LF, CRLF, BOM, multi-byte rune, single and multi-line comments, valid and invalid {{ }} / {% %} code) in each of the 6 formats and inside <script> and an attribute; of Go statements (comments, multi-byte literals, raw strings, erroneous statements) in a function body and at top level; of raw bytes (C04's alphabet + multi-byte rune, CRLF, BOM, tab) as program and as template of each format; of Go tokens inside {{ }}, {% %}, {%% %%} and a function body; and the same segments as the file reached by render / import / extends in 2 and 3 file sets; and file sets whose error is raised by the emitter (a limit exceeded: 130 int, string or general registers, 300 string values) in a macro or in the body of the main file after, or of the file reached by, every pair of references among none / import / import _ / import with alias / import for / render / extends, with text, a multi-byte rune, a newline or a multi-line comment before and after the references; sequences up to the tier's length of constructs that contain a line break without being a line (multi-line tags, attribute values and end tags, script and style strings continued with backslash-newline, template literals, comments, raw blocks, {%% %%} blocks, multi-line {{ }} and {% %}, CR and CRLF, Markdown URLs, links and code blocks) in HTML, <script>, .js, <style>, .css, Markdown, an attribute and JSON, followed by erroneous code on the same or on the next line; programs made of several files (go.mod, main.go, a package) with the error in main or in the package and a BOM in none, one or both, import cycles, missing packages, go.mod variants; and 22 statements that fail where they stand (render / import / extends of a missing, imported, other-format, cyclic or badly named file, extends in a rendered or imported file, label, loop, identifier, macro and end errors) placed in a file reached from the entry by 8 chains of one or two references. For the errors whose message names a token (undefined: X, X redeclared) Start..End must hold exactly that token in the new spaces. A case is non-trivial when the build returns a *scriggo.BuildError (its location is then checked)",
		Assumptions: []string{
			"files are read through a recording fs.FS; Path() must be a name the build opened and is looked up verbatim in the file set",
			"Column counts runes, each invalid UTF-8 byte counting as one rune (utf8.RuneCountInString); Line counts '\\n' bytes",
			"errors that are not *scriggo.BuildError are C04's concern and are only counted",
		},
		Spaces: spaces,
		Budget: map[string]time.Duration{"thorough": 25 * time.Minute},
	})
}
