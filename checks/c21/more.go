package main

import (
	"errors"
	"fmt"
	"regexp"
	"strings"

	"verif/kit"

	"github.com/open2b/scriggo"
)

// tokenOracle strengthens the position oracle for the errors whose message
// names the offending token: Start..End must hold exactly that token.
var reTokenMsg = regexp.MustCompile(`^(?:undefined: ([\pL_][\pL\pN_]*)$|([\pL_][\pL\pN_]*) redeclared in this block)`)

func tokenOracle(o kit.Outcome, files scriggo.Files, err error) kit.Outcome {
	var be *scriggo.BuildError
	if !o.OK || err == nil || !errors.As(err, &be) {
		return o
	}
	m := reTokenMsg.FindStringSubmatch(be.Message())
	if m == nil {
		return o
	}
	name := m[1] + m[2]
	content, pos := string(files[be.Path()]), be.Position()
	if pos.Start < 0 || pos.End+1 > len(content) || pos.End < pos.Start || content[pos.Start:pos.End+1] != name {
		got := "out of the file"
		if pos.Start >= 0 && pos.End+1 <= len(content) && pos.End >= pos.Start-1 {
			got = fmt.Sprintf("%q", content[pos.Start:pos.End+1])
		}
		return kit.Outcome{Key: "Start..End does not hold the token that the message names | " + msgClass(be.Message(), content), Class: "fail", Nontrivial: true,
			Detail: fmt.Sprintf("%serror: %v\nPath=%q Line=%d Column=%d Start=%d End=%d\nStart..End holds %s, the message names %q", showFiles(files), err, be.Path(), pos.Line, pos.Column, pos.Start, pos.End, got, name)}
	}
	return o
}

func showFiles(files scriggo.Files) string {
	var names []string
	for n := range files {
		names = append(names, n)
	}
	sortStrings(names)
	var b strings.Builder
	for _, n := range names {
		fmt.Fprintf(&b, "--- %s (%d bytes)\n%q\n", n, len(files[n]), files[n])
	}
	return b.String()
}

func sortStrings(a []string) {
	for i := 1; i < len(a); i++ {
		for j := i; j > 0 && a[j] < a[j-1]; j-- {
			a[j], a[j-1] = a[j-1], a[j]
		}
	}
}

// buildSet builds a template or (entry == "") a program from several files and
// applies both oracles.
func buildSet(kind string, files scriggo.Files, entry string) (o kit.Outcome) {
	defer notMine(&o)
	build := func(files scriggo.Files) (*recFS, error) {
		rec := newRec(files)
		var err error
		if entry == "" {
			_, err = scriggo.Build(rec, &scriggo.BuildOptions{AllowGoStmt: true})
		} else {
			_, err = scriggo.BuildTemplate(rec, entry, nil)
		}
		return rec, err
	}
	rec, err := build(files)
	o = checkError(kind, rec, err, func(path, content string) (*recFS, error) {
		fl := scriggo.Files{}
		for k, v := range files {
			fl[k] = v
		}
		fl[path] = []byte(content)
		return build(fl)
	})
	return tokenOracle(o, files, err)
}

// ---- (v) constructs that contain a line break without being a line ----

type nlContext struct {
	name, file, pre, post string
	alpha                 []string
}

var nlContexts = []nlContext{
	{"html", "index.html", "", "", []string{
		"\n", "a ", "é", "\r", "\r\n", "<a\nhref=\"x\">", "<a href=\"x\ny\">", "<!-- c\n -->", "<b\n>", "</b\n>",
		"<script>var s = \"a\\\nb\";</script>", "<script>\n</script\n>", "<style>a { content: \"x\\\ny\" }</style\n>", "<style>\n</style>",
		"{% raw %}\n{{ x }}\n{% end raw %}", "{%%\n\tv := 1\n\t_ = v\n%%}", "{{ 1 +\n 2 }}", "{% if true\n %}{% end %}", "{#\n#}", "<pre>\n</pre>", "<textarea>\n</textarea>",
	}},
	{"script", "index.html", "<script>", "</script>", []string{
		"\n", "a ", "\"a\\\nb\"", "'a\\\nb'", "`a\nb`", "/* c\n */", "// c\n", "\"\\\r\nb\"", "{{ 1 +\n 2 }}", "{#\n#}", "\"é\"", "\r",
	}},
	{"js", "index.js", "", "", []string{
		"\n", "a ", "\"a\\\nb\"", "'a\\\nb'", "`a\nb`", "/* c\n */", "// c\n", "\"\\\r\nb\"", "{{ 1 +\n 2 }}", "{#\n#}", "\"é\"", "\r",
	}},
	{"style", "index.html", "<style>", "</style>", []string{
		"\n", "a ", "\"x\\\ny\"", "'x\\\ny'", "/* c\n */", "url(x\\\ny)", "{{ 1 +\n 2 }}", "{#\n#}", "\"é\"", "\r\n",
	}},
	{"css", "index.css", "", "", []string{
		"\n", "a ", "\"x\\\ny\"", "'x\\\ny'", "/* c\n */", "url(x\\\ny)", "{{ 1 +\n 2 }}", "{#\n#}", "\"é\"", "\r\n",
	}},
	{"markdown", "index.md", "", "", []string{
		"\n", "a ", "see https://a.b/c ", "<https://a.b/c> ", "[l](https://a.b/c\n) ", "```\ncode\n```\n", "    code\n", "<a\nhref=\"x\">", "é", "http://é.b/ ", "{#\n#}", "\r\n", "* item\n",
	}},
	{"attribute", "index.html", "<a href=\"", "\">", []string{"\n", "a ", "x\ny", "é", "{{ 1 +\n 2 }}", "{#\n#}", "\r\n", "?a=b&\n"}},
	{"json", "index.json", "", "", []string{"\n", "a ", "\"a\\nb\"", "{{ 1 +\n 2 }}", "{#\n#}", "\"é\"", "\r\n", "[\n]"}},
}

// the erroneous code that follows, on the same or on a later line
var nlErrors = []string{"{{ nope }}", "\n{{ nope }}", "{{ \"é\" }}{{ nope }}", "{% if %}", "\n{% nope := nope %}"}

func newlineSpaces(tier string) []kit.Space {
	n := 2
	if tier == "thorough" {
		n = 3
	}
	var sps []kit.Space
	for _, c := range nlContexts {
		c := c
		en := kit.NewStringsUpTo(c.alpha, n)
		ne := uint64(len(nlErrors))
		files := func(i uint64) scriggo.Files {
			return scriggo.Files{c.file: []byte(c.pre + en.At(i/ne) + nlErrors[i%ne] + c.post)}
		}
		sps = append(sps, kit.Space{
			Name:     "4.newline-constructs." + c.name,
			Size:     en.Size() * ne,
			Eval:     func(i uint64) kit.Outcome { return buildSet("newline-constructs."+c.name, files(i), c.file) },
			Describe: func(i uint64) any { return map[string]string{c.file: string(files(i)[c.file])} },
		})
	}
	return sps
}

// ---- (vi) programs made of several files, with and without a BOM ----

func programSets() [][2]any {
	bom := "\ufeff"
	var out [][2]any
	add := func(name string, files map[string]string) { out = append(out, [2]any{name, files}) }
	mod := "module m\n"
	pkgErrors := []struct{ name, body string }{
		{"undefined identifier", "var V = nope\n"},
		{"undefined after a multi-byte comment", "/* é */ var V = nope\n"},
		{"syntax error", "var\n"},
		{"mismatched types", "var V int = \"s\"\n"},
		{"unused variable", "func F() { v := 1 }\n"},
		{"redeclared", "var V = 1\nvar V = 2\n"},
		{"redeclared at the end of the file", "var V = 1\nvar V = 2"},
		{"undefined on a later line", "// é\n\n\tvar V = nope\n"},
		{"no error", "var V = 1\n"},
	}
	for _, where := range []string{"main", "package"} {
		for _, boms := range []string{"", "main", "package", "both"} {
			for _, e := range pkgErrors {
				mainSrc, pkgSrc := "package main\n\nimport \"m/p\"\n\nfunc main() { _ = p.V }\n", "package p\n\nvar V = 1\n"
				if where == "main" {
					if e.name == "no error" {
						continue
					}
					mainSrc = "package main\n\nimport \"m/p\"\n\nvar _ = p.V\n\n" + strings.ReplaceAll(strings.ReplaceAll(e.body, "V", "W"), "F()", "G()") + "\nfunc main() {}\n"
				} else {
					pkgSrc = "package p\n\n" + e.body
					if !strings.Contains(e.body, "var V") {
						pkgSrc += "var V = 1\n"
					}
				}
				if boms == "main" || boms == "both" {
					mainSrc = bom + mainSrc
				}
				if boms == "package" || boms == "both" {
					pkgSrc = bom + pkgSrc
				}
				add("error in "+where+", BOM in "+boms, map[string]string{"go.mod": mod, "main.go": mainSrc, "p/p.go": pkgSrc})
			}
		}
	}
	// errors about the packages themselves
	a := "package a\n\nimport \"m/b\"\n\nconst A = b.B\n"
	b := "package b\n\nimport \"m/a\"\n\nconst B = a.A\n"
	add("import cycle", map[string]string{"go.mod": mod, "main.go": "package main\n\nimport \"m/a\"\n\nfunc main() { _ = a.A }\n", "a/a.go": a, "b/b.go": b})
	add("import cycle through main's second import", map[string]string{"go.mod": mod, "main.go": "package main\n\nimport \"m/c\"\nimport \"m/a\"\n\nfunc main() { _, _ = a.A, c.C }\n", "a/a.go": a, "b/b.go": b, "c/c.go": "package c\n\nconst C = 1\n"})
	add("missing package", map[string]string{"go.mod": mod, "main.go": "package main\n\nimport \"m/zz\"\n\nfunc main() { _ = zz.A }\n"})
	add("missing first of two imports", map[string]string{"go.mod": mod, "main.go": "package main\n\nimport \"m/zz\"\nimport \"m/c\"\n\nfunc main() { _, _ = zz.A, c.C }\n", "c/c.go": "package c\n\nconst C = 1\n"})
	add("missing second of two imports", map[string]string{"go.mod": mod, "main.go": "package main\n\nimport \"m/c\"\nimport \"m/zz\"\n\nfunc main() { _, _ = zz.A, c.C }\n", "c/c.go": "package c\n\nconst C = 1\n"})
	add("missing package imported by a package", map[string]string{"go.mod": mod, "main.go": "package main\n\nimport \"m/c\"\n\nfunc main() { _ = c.C }\n", "c/c.go": "package c\n\nimport \"m/zz\"\n\nconst C = zz.A\n"})
	add("package clause with another name", map[string]string{"go.mod": mod, "main.go": "package main\n\nimport \"m/c\"\n\nfunc main() { _ = c.C }\n", "c/c.go": "package d\n\nconst C = 1\n"})
	add("same package name from two paths", map[string]string{"go.mod": mod, "main.go": "package main\n\nimport \"m/x/c\"\nimport \"m/y/c\"\n\nfunc main() { _ = c.C }\n", "x/c/c.go": "package c\n\nconst C = 1\n", "y/c/c.go": "package c\n\nconst C = 2\n"})
	add("empty go.mod", map[string]string{"go.mod": "", "main.go": "package main\n\nfunc main() {}\n"})
	add("go.mod without module", map[string]string{"go.mod": "go 1.16\n", "main.go": "package main\n\nfunc main() {}\n"})
	add("go.mod with a BOM", map[string]string{"go.mod": bom + mod, "main.go": "package main\n\nfunc main() {}\n"})
	add("go.mod with a syntax error on line 2", map[string]string{"go.mod": "// é\nmodule\n", "main.go": "package main\n\nfunc main() {}\n"})
	add("two go files in the root", map[string]string{"go.mod": mod, "main.go": "package main\n\nfunc main() {}\n", "other.go": "package main\n"})
	add("empty package file", map[string]string{"go.mod": mod, "main.go": "package main\n\nimport \"m/c\"\n\nfunc main() { _ = c.C }\n", "c/c.go": ""})
	return out
}

func programSetSpace() kit.Space {
	sets := programSets()
	get := func(i uint64) (string, scriggo.Files) {
		fl := scriggo.Files{}
		for k, v := range sets[i][1].(map[string]string) {
			fl[k] = []byte(v)
		}
		return sets[i][0].(string), fl
	}
	return kit.Space{
		Name: "5.program-file-sets",
		Size: uint64(len(sets)),
		Eval: func(i uint64) kit.Outcome {
			_, fl := get(i)
			return buildSet("program-file-sets", fl, "")
		},
		Describe: func(i uint64) any {
			name, fl := get(i)
			m := map[string]string{"case": name}
			for k, v := range fl {
				m[k] = string(v)
			}
			return m
		},
	}
}

// ---- (vii) errors raised while expanding or checking a file that is not the entry ----

// statements that fail where they stand, whatever file holds them
var offending = []struct{ name, text string }{
	{"render of a missing file", `{{ render "missing.html" }}`},
	{"import of a missing file", `{% import "missing.html" %}`},
	{"extends of a missing file", `{% extends "missing.html" %}`},
	{"extends of an existing file", `{% extends "layout2.html" %}`},
	{"render of an imported file", `{{ render "lib.html" }}`},
	{"render of a file of another format", `{{ render "data.js" }}`},
	{"import of a file of another format", `{% import "data.js" %}`},
	{"render of itself", `{{ render "SELF" }}`},
	{"render of the entry file", `{{ render "index.html" }}`},
	{"import of itself", `{% import "SELF" %}`},
	{"render with a rooted path above the root", `{{ render "../x.html" }}`},
	{"render with an invalid path", `{{ render "a//b.html" }}`},
	{"break with a label", `{% break L %}`},
	{"continue outside a loop", `{% continue %}`},
	{"goto an undefined label", `{% goto L %}`},
	{"label not used", `{% L: %}{% if true %}{% end %}`},
	{"undefined identifier", `{{ nope }}`},
	{"itea not used", `{% for v in []int{} %}{% end %}{{ itea }}`},
	{"using with unused itea", `{% var v = 1 using %}x{% end %}`},
	{"macro redeclared", `{% macro Dup %}{% end %}{% macro Dup %}{% end %}`},
	{"unexpected end", `{% end %}`},
	{"show of a function", `{{ len }}`},
}

var expandFillers = []string{"", "é", "\n", "{#\n#}é "}

// how the entry reaches the file with the offending statement
var reachKinds = []string{"render", "import", "extends", "render-render", "extends-render", "import-import", "extends-import", "render-import"}

func expansionSet(i uint64) (string, scriggo.Files) {
	m := kit.Mixed(i, uint64(len(expandFillers)), uint64(len(offending)), uint64(len(reachKinds)))
	fill, off, reach := expandFillers[m[0]], offending[m[1]], reachKinds[m[2]]
	files := scriggo.Files{
		"layout2.html": []byte("{{ M() }}"),
		"lib.html":     []byte("{% macro L %}l{% end %}"),
		"data.js":      []byte("var a = 1;"),
	}
	hops := strings.Split(reach, "-")
	names := []string{"index.html", "mid.html", "leaf.html"}
	target := names[len(hops)]
	// content of a file reached by kind k that holds body (declarations only for imported files)
	holder := func(kind, self, body string) string {
		body = strings.ReplaceAll(body, "SELF", self)
		switch kind {
		case "import":
			return "{% macro P %}" + fill + body + "{% end %}"
		case "extends": // a layout
			return "é\n{{ M() }}" + fill + body
		}
		return fill + body
	}
	ref := func(kind, to string) string {
		switch kind {
		case "import":
			return `{% import "` + to + `" %}{{ P() }}`
		case "extends":
			return `{% extends "` + to + `" %}{% import "lib.html" %}{% macro M %}x{% end %}`
		}
		return `a{{ render "` + to + `" }}b`
	}
	files[target] = []byte(holder(hops[len(hops)-1], target, off.text))
	for h := len(hops) - 1; h >= 0; h-- {
		from, to := names[h], names[h+1]
		body := ref(hops[h], to)
		if h == 0 {
			files[from] = []byte(body)
		} else {
			files[from] = []byte(holder(hops[h-1], from, body))
		}
	}
	return off.name + " in a file reached by " + reach, files
}

func expansionSpace() kit.Space {
	return kit.Space{
		Name: "6.set.errors-in-referenced-files",
		Size: kit.Product(uint64(len(expandFillers)), uint64(len(offending)), uint64(len(reachKinds))),
		Eval: func(i uint64) kit.Outcome {
			_, files := expansionSet(i)
			return buildSet("errors-in-referenced-files", files, "index.html")
		},
		Describe: func(i uint64) any {
			name, files := expansionSet(i)
			m := map[string]string{"case": name}
			for k, v := range files {
				m[k] = string(v)
			}
			return m
		},
	}
}
