// C30 — building is deterministic.
//
// Engine E3 (deviation enumeration over Go map iteration order). This binary
// is built with go1.26.8 and a GOROOT overlay (maporder/gen.sh) that lets the
// harness decide where every map iterator starts and which hash seed new maps
// get. Default environment answer: every iterator starts at offset 0; a
// deviation: iterator number i starts at offset d. For every source: baseline
// build, 8 uniform offsets x 3 seeds, and every single-iterator deviation.
package main

import (
	"fmt"
	"io/fs"
	"os"
	"os/exec"
	"path/filepath"
	"sort"
	"strconv"
	"strings"
	"sync"
	"time"
	_ "unsafe"

	"verif/checks/c14"
	"verif/kit"

	"github.com/open2b/scriggo"
	"github.com/open2b/scriggo/native"
)

//go:linkname mapOrder internal/runtime/maps.VerifMapOrder
func mapOrder(mode, uniform, devIndex, devOffset, seed uint64) uint64

const noDev = ^uint64(0)

type source struct {
	name    string
	files   map[string]string
	entry   string // "" = program
	run     bool
	iters   uint64 // iterators initialised by a baseline build
	base    string // baseline fingerprint
	hasBase bool
	opts    *scriggo.BuildOptions
}

var plainOpts = &scriggo.BuildOptions{AllowGoStmt: true}

func (s *source) options() *scriggo.BuildOptions {
	if s.opts != nil {
		return s.opts
	}
	return plainOpts
}

var hostDecls = func() native.Declarations {
	d := native.Declarations{}
	for i := 0; i < 40; i++ {
		i := i
		d[fmt.Sprintf("F%02d", i)] = func(x int) int { return x + i }
		d[fmt.Sprintf("V%02d", i)] = new(int)
		d[fmt.Sprintf("C%02d", i)] = i * 3
	}
	return d
}()

var opts = &scriggo.BuildOptions{
	AllowGoStmt: true,
	Packages: native.Packages{
		"host":  native.Package{Name: "host", Declarations: hostDecls},
		"host2": native.Package{Name: "host2", Declarations: hostDecls},
	},
	Globals: func() native.Declarations {
		g := native.Declarations{"host": native.Package{Name: "host", Declarations: hostDecls}}
		for i := 0; i < 12; i++ {
			g[fmt.Sprintf("g%02d", i)] = (*int)(nil)
		}
		g["title"] = (*string)(nil)
		return g
	}(),
}

// build builds the source and returns a fingerprint of everything C30 compares.
func build(s *source) (fp string, err error) {
	defer func() {
		if r := recover(); r != nil {
			err = fmt.Errorf("build panicked: %v", r) // C04's business; such a source is not used here
		}
	}()
	fsys := scriggo.Files{}
	for k, v := range s.files {
		fsys[k] = []byte(v)
	}
	var b strings.Builder
	if s.entry == "" {
		p, err := scriggo.Build(fsys, s.options())
		if err != nil {
			return "", err
		}
		asm, _ := p.Disassemble("main")
		b.Write(asm)
		if s.run {
			var out strings.Builder
			err := p.Run(&scriggo.RunOptions{Print: func(v any) { fmt.Fprint(&out, v) }})
			fmt.Fprintf(&b, "\n--- run: %q err=%v\n", out.String(), err)
		}
		return b.String(), nil
	}
	t, err := scriggo.BuildTemplate(fsys, s.entry, s.options())
	if err != nil {
		return "", err
	}
	b.Write(t.Disassemble(-1))
	fmt.Fprintf(&b, "\n--- usedvars: %v\n", t.UsedVars())
	if s.run {
		var out strings.Builder
		err := t.Run(&out, nil, nil)
		fmt.Fprintf(&b, "--- run: %q err=%v\n", out.String(), err)
	}
	return b.String(), nil
}

// controlled builds under a given map order and returns fingerprint and iterator count.
func controlled(s *source, uniform, devIndex, devOffset, seed uint64) (string, uint64, error) {
	mapOrder(1, uniform, devIndex, devOffset, seed)
	fp, err := build(s)
	n := mapOrder(0, 0, 0, 0, 0)
	return fp, n, err
}

func synthetic() []*source {
	var out []*source
	// package-level variables with a dependency chain declared in reverse order
	var b strings.Builder
	b.WriteString("package main\n\nimport (\n\t\"host\"\n\th2 \"host2\"\n)\n\n")
	for i := 11; i >= 0; i-- {
		if i == 11 {
			fmt.Fprintf(&b, "var v%d = f(%d)\n", i, i)
		} else {
			fmt.Fprintf(&b, "var v%d = v%d + f(%d)\n", i, i+1, i)
		}
	}
	b.WriteString("func f(x int) int { println(x); return x }\n")
	b.WriteString("func pair() (int, string) { return 7, \"seven\" }\nfunc triple() (int, int, int) { return 1, 2, 3 }\n")
	b.WriteString("var pa, pb = pair()\nvar t1, t2, t3 = triple()\n")
	b.WriteString("var esc = []string{\"tab\\there\", \"quote\\\"inside\", \"nl\\nline\", \"uni\\u00e9x\", \"hex\\x41\\x42\", \"oct\\101z\", \"back\\\\slash\", \"" + strings.Repeat("long\\\\t\\\\u00e9\\\\x41-", 40) + "\"}\n")
	b.WriteString("type hidden struct{ x, y int; name string }\nvar hv = hidden{1, 2, \"h\"}\n")
	for i := 0; i < 10; i++ {
		fmt.Fprintf(&b, "type T%d struct{ A%d int; B string }\nfunc m%d(t T%d) int { return t.A%d + %d }\n", i, i, i, i, i, i)
	}
	b.WriteString("func main() {\n\ts := 0\n")
	for i := 0; i < 10; i++ {
		fmt.Fprintf(&b, "\ts += m%d(T%d{A%d: host.F%02d(%d), B: \"s%d\"})\n", i, i, i, i, i, i)
	}
	b.WriteString("\tprintln(s, v0, host.C03, h2.C05, host.V01, pa, pb, t1, t2, t3, hv.x+hv.y, hv.name)\n\tfor _, e := range esc {\n\t\tprintln(e)\n\t}\n")
	b.WriteString("\tm := map[string]int{\"a\": 1, \"b\": 2, \"c\": 3, \"d\": 4, \"e\": 5, \"f\": 6, \"g\": 7, \"h\": 8, \"i\": 9, \"j\": 10}\n\tprintln(len(m))\n")
	b.WriteString("\ti := 0\nL1:\n\tif i < 3 { i++; goto L1 }\n\tif i < 5 { i += 2; goto L3 }\n\ti = 100\nL3:\n\tprintln(i)\n")
	b.WriteString("\tk := 2\n\ta, c, d := k, k*2, k*3\n\tf0 := func() int { return a + c + d + i }\n\tf1 := func() int { return f0() + a }\n\tprintln(f0(), f1())\n")
	b.WriteString("\tswitch x := any(s).(type) {\n\tcase int: println(\"int\", x)\n\tcase string: println(\"string\")\n\tcase T1: println(\"T1\")\n\tcase error: println(\"error\")\n\t}\n")
	b.WriteString("\tc1 := make(chan int, 1); c2 := make(chan string, 1)\n\tselect {\n\tcase c1 <- 1:\n\tcase c2 <- \"x\":\n\tdefault:\n\t}\n")
	b.WriteString("}\n")
	out = append(out, &source{name: "synthetic/program-big", files: map[string]string{"main.go": b.String()}, run: true, opts: opts})
	// templates: many macros, imports, extends, globals
	var m strings.Builder
	for i := 0; i < 12; i++ {
		fmt.Fprintf(&m, "{%% macro M%02d(a int) %%}<i>{{ a + g%02d }}</i>{%% end %%}\n", i, i)
	}
	var idx strings.Builder
	idx.WriteString("{% extends \"layout.html\" %}\n{% import \"macros.html\" %}\n{% import m2 \"macros2.html\" %}\n")
	idx.WriteString("{% macro Body %}")
	for i := 0; i < 12; i++ {
		fmt.Fprintf(&idx, "{{ M%02d(%d) }}", i, i)
	}
	idx.WriteString("{{ m2.X(1) }}{{ \"a\\tb\\u00e9\\\"q\\\"\" }}{{ host.F03(2) }}{{ title }}{{ render \"part.html\" }}{% end %}\n{% macro Title %}T{{ g03 }}{% end %}\n")
	out = append(out, &source{name: "synthetic/template-big", entry: "index.html", run: true, opts: opts, files: map[string]string{
		"index.html":   idx.String(),
		"layout.html":  "<html><title>{{ Title() }}</title><body class=\"{{ g01 }}\">{{ Body() }}<script>var x = {{ g02 }};</script></body></html>",
		"macros.html":  m.String(),
		"macros2.html": "{% macro X(a int) %}[{{ a }}{{ g11 }}]{% end %}{% macro Y %}y{% end %}",
		"part.html":    "<p>{{ g05 }} {{ g06 }} {{ g04 }}</p>{% for i := 0; i < 2; i++ %}{{ i }}{% end %}",
	}})
	return out
}

func corpus(maxSize int) []*source {
	var out []*source
	root := "/repo/test/compare/testdata"
	filepath.WalkDir(root, func(p string, d fs.DirEntry, err error) error {
		if err != nil || d.IsDir() || strings.Contains(p, ".dir/") || strings.Contains(p, "github.com-golang-go/") || strings.Contains(p, "/limits/") {
			return nil // gc's own torture tests (giant arrays) and the limit tests make single builds take seconds
		}
		ext := filepath.Ext(p)
		if ext != ".go" && ext != ".html" {
			return nil
		}
		data, err := os.ReadFile(p)
		if err != nil || len(data) == 0 || len(data) > maxSize {
			return nil
		}
		if ext == ".go" && (strings.Contains(string(data), "import") || !strings.Contains(string(data), "package main")) {
			return nil
		}
		rel, _ := filepath.Rel(root, p)
		s := &source{name: "corpus/" + rel}
		if ext == ".go" {
			s.files = map[string]string{"main.go": string(data)}
		} else {
			s.files = map[string]string{"index.html": string(data)}
			s.entry = "index.html"
		}
		out = append(out, s)
		return nil
	})
	sort.Slice(out, func(a, b int) bool { return out[a].name < out[b].name })
	return out
}

func sources(tier string) []*source {
	var all []*source
	all = append(all, synthetic()...)
	for _, p := range c14.Programs("thorough") {
		if p.GcSrc != "" {
			continue // uses the C14 harness' native package
		}
		all = append(all, &source{name: "c14/" + p.Name, files: map[string]string{"main.go": p.Src}})
	}
	max := 1200
	if tier == "thorough" {
		max = 6000
	}
	all = append(all, corpus(max)...)
	// keep the sources that build; measure the baseline
	var ok []*source
	for _, s := range all {
		t0 := time.Now()
		if os.Getenv("C30_PROF") != "" {
			defer func(s *source) { fmt.Fprintln(os.Stderr, "prof", s.name, time.Since(t0)) }(s)
		}
		fp, n, err := controlled(s, 0, noDev, 0, 1)
		if err != nil {
			if strings.HasPrefix(s.name, "synthetic/") || strings.HasPrefix(s.name, "c14/") {
				fmt.Fprintf(os.Stderr, "C30: own source %s does not build: %v\n", s.name, err)
				os.Exit(2)
			}
			continue
		}
		fp2, n2, _ := controlled(s, 0, noDev, 0, 1)
		if fp != fp2 || n != n2 {
			// the same controlled order gave two results: either nondeterminism that does
			// not come from map order, or a lexer-goroutine iterator; keep it, the
			// uniform space will report it
			n = max64(n, n2)
		}
		s.base, s.iters, s.hasBase = fp, n, true
		ok = append(ok, s)
	}
	return ok
}

func max64(a, b uint64) uint64 {
	if a > b {
		return a
	}
	return b
}

func firstDiff(a, b string) string {
	la, lb := strings.Split(a, "\n"), strings.Split(b, "\n")
	for i := 0; i < len(la) && i < len(lb); i++ {
		if la[i] != lb[i] {
			return fmt.Sprintf("line %d:\n  baseline: %s\n  this:     %s", i+1, la[i], lb[i])
		}
	}
	return fmt.Sprintf("length differs: %d vs %d lines", len(la), len(lb))
}

func diffClass(a, b string) string {
	la, lb := strings.Split(a, "\n"), strings.Split(b, "\n")
	for i := 0; i < len(la) && i < len(lb); i++ {
		if la[i] != lb[i] {
			f := strings.Fields(la[i])
			if strings.HasPrefix(la[i], "--- ") && len(f) > 1 {
				return f[1]
			}
			if len(f) > 0 {
				return "asm:" + kit.NormMsg(f[0])
			}
			return "asm"
		}
	}
	return "length"
}

// judge compares a controlled build with the baseline; a difference is
// confirmed on the stock (random) map order before it is reported.
func judge(s *source, fp string, err error, cfg string) kit.Outcome {
	o := kit.Outcome{OK: true, Nontrivial: s.iters > 0, Class: "identical", Ops: int(s.iters) + 1}
	if err != nil {
		return kit.Outcome{Key: "build-outcome-differs|baseline=built this=error", Detail: fmt.Sprintf("source %s config %s: baseline built, this build failed: %v", s.name, cfg, err), Nontrivial: true}
	}
	if fp == s.base {
		return o
	}
	// confirm with the unmodified random order (mode 0)
	mapOrder(0, 0, 0, 0, 0)
	for k := 0; k < 3000; k++ {
		f2, e2 := build(s)
		if e2 != nil || f2 != s.base {
			return kit.Outcome{Key: "nondeterministic-build|" + diffClass(s.base, fp), Nontrivial: true,
				Detail: fmt.Sprintf("source %s\nconfig %s gives a different artefact than the baseline (all iterators at offset 0):\n%s\nconfirmed with the stock random map order after %d free builds\nfiles: %v", s.name, cfg, firstDiff(s.base, fp), k+1, s.files)}
		}
	}
	o.Class = "order_dependence_unconfirmed"
	return o
}

func spaces(tier string) []kit.Space {
	srcs := sources(tier)
	seeds := []uint64{1, 0x9e3779b97f4a7c15, 0xdeadbeefcafe}
	nu := uint64(8 * len(seeds))
	var sps []kit.Space
	sps = append(sps, kit.Space{
		Name: "uniform-offsets-and-seeds",
		Size: uint64(len(srcs)) * nu,
		Eval: func(i uint64) kit.Outcome {
			s := srcs[i/nu]
			c := i % nu
			off, seed := c%8, seeds[c/8]
			fp, _, err := controlled(s, off, noDev, 0, seed)
			return judge(s, fp, err, fmt.Sprintf("all iterators at offset %d, map seed %#x", off, seed))
		},
		Describe: func(i uint64) any {
			c := i % nu
			return map[string]any{"source": srcs[i/nu].name, "offset": c % 8, "seed": seeds[c/8], "iterators": srcs[i/nu].iters}
		},
	})
	// single-iterator deviations, smallest sources first
	byIters := append([]*source{}, srcs...)
	sort.SliceStable(byIters, func(a, b int) bool { return byIters[a].iters < byIters[b].iters })
	limit := len(byIters)
	if tier != "thorough" && limit > 60 {
		limit = 60
	}
	// always include the synthetic sources
	dev := append([]*source{}, byIters[:limit]...)
	for _, s := range srcs {
		if strings.HasPrefix(s.name, "synthetic/") {
			found := false
			for _, d := range dev {
				if d == s {
					found = true
				}
			}
			if !found {
				dev = append(dev, s)
			}
		}
	}
	var starts []uint64
	tot := uint64(0)
	for _, s := range dev {
		starts = append(starts, tot)
		tot += s.iters * 7
	}
	locate := func(i uint64) (*source, uint64, uint64) {
		k := sort.Search(len(starts), func(k int) bool { return starts[k] > i }) - 1
		r := i - starts[k]
		return dev[k], r / 7, r%7 + 1
	}
	sps = append(sps, kit.Space{
		Name: "single-iterator-deviation",
		Size: tot,
		Eval: func(i uint64) kit.Outcome {
			s, it, d := locate(i)
			fp, _, err := controlled(s, 0, it, d, 1)
			return judge(s, fp, err, fmt.Sprintf("iterator #%d starts at offset %d, all others at 0", it, d))
		},
		Describe: func(i uint64) any {
			s, it, d := locate(i)
			return map[string]any{"source": s.name, "iterator": it, "offset": d, "iterators": s.iters}
		},
	})
	// companion space (free-running, decides nothing by its silence): the same
	// source built by 8 goroutines at once, 4 rounds, with the stock map order;
	// every artefact must equal the sequential baseline. Builds share no state
	// by contract, so a difference is a genuine nondeterminism of Build.
	sps = append(sps, kit.Space{
		Name: "concurrent-builds(companion)",
		Size: uint64(len(srcs)),
		Eval: func(i uint64) kit.Outcome {
			s := srcs[i]
			mapOrder(0, 0, 0, 0, 0)
			g, rounds := 8, 4
			if strings.HasPrefix(s.name, "synthetic/") {
				rounds = 60 // the stress sources: many rounds
			}
			type res struct {
				fp  string
				err error
			}
			out := make([]res, g*rounds)
			var wg sync.WaitGroup
			// half of the goroutines build another source at the same time (two
			// builds of the same text would write the same bytes into any shared scratch state)
			partner := srcs[(i+1)%uint64(len(srcs))]
			if !strings.HasPrefix(s.name, "synthetic/") {
				partner = srcs[0]
			}
			for k := 0; k < g; k++ {
				wg.Add(1)
				go func(k int) {
					defer wg.Done()
					for r := 0; r < rounds; r++ {
						if k%2 == 1 {
							build(partner)
							out[k*rounds+r] = res{s.base, nil}
							continue
						}
						fp, err := build(s)
						out[k*rounds+r] = res{fp, err}
					}
				}(k)
			}
			wg.Wait()
			for _, r := range out {
				if r.err != nil || r.fp != s.base {
					d := "build failed: " + fmt.Sprint(r.err)
					cls := "error"
					if r.err == nil {
						d = firstDiff(s.base, r.fp)
						cls = diffClass(s.base, r.fp)
					}
					return kit.Outcome{Key: "concurrent-builds-differ|" + cls, Nontrivial: true,
						Detail: fmt.Sprintf("source %s built by %d goroutines at once gives an artefact different from the sequential build:\n%s\nfiles: %v", s.name, g, d, s.files)}
				}
			}
			return kit.Outcome{OK: true, Nontrivial: true, Class: "identical(concurrent)", Ops: g * rounds}
		},
		Describe: func(i uint64) any { return map[string]any{"source": srcs[i].name, "goroutines": 8, "rounds": "4 (60 for synthetic sources)"} },
	})
	// race companion: the same concurrent builds in a -race build of this very
	// binary (.build/C30race, made by run.sh), free running. The race detector
	// reports every pair of conflicting accesses that are not ordered by
	// happens-before in the execution it sees, so state shared between two
	// builds is found without having to hit the corrupting interleaving.
	sps = append(sps, kit.Space{
		Name: "concurrent-builds-race(companion)",
		Size: 2,
		Eval: func(i uint64) kit.Outcome {
			bin := "/verif/.build/C30race"
			if _, err := os.Stat(bin); err != nil {
				return kit.Outcome{OK: true, Class: "race-binary-missing"}
			}
			cmd := exec.Command(bin, "--race-companion", fmt.Sprint(i))
			cmd.Env = append(os.Environ(), "GORACE=halt_on_error=1 exitcode=66")
			outb, err := cmd.CombinedOutput()
			if err == nil {
				return kit.Outcome{OK: true, Nontrivial: true, Class: "no-race", Ops: 48}
			}
			out := string(outb)
			if ee, ok := err.(*exec.ExitError); ok && ee.ExitCode() == 66 && strings.Contains(out, "DATA RACE") {
				return kit.Outcome{Key: "concurrent-builds-race|" + raceFrame(out), Nontrivial: true,
					Detail: "two concurrent builds (8 goroutines, sources built alternately) touch the same memory without synchronisation:\n" + out}
			}
			if strings.Contains(out, "C30-RACE-COMPANION-DIFF") {
				return kit.Outcome{Key: "concurrent-builds-differ|race-build", Nontrivial: true, Detail: out}
			}
			return kit.Outcome{Key: "harness|race-companion-failed", Detail: fmt.Sprint(err) + "\n" + out}
		},
		Describe: func(i uint64) any {
			return map[string]any{"binary": ".build/C30race --race-companion", "first": i, "goroutines": 8, "rounds": 6}
		},
	})
	// build histories: building (and running) one source must not depend on
	// what the process built before. For every ordered pair (and a few triples)
	// of a pool of small sources that touch process-wide tables on purpose
	// (predeclared constants, unnamed struct types that differ only in tags,
	// same-named defined types, native constants, failing builds), the last
	// source is fingerprinted in a fresh process after the earlier ones and
	// compared with its fingerprint when it is the only build of the process.
	pool := historyPool()
	np := uint64(len(pool))
	var hmu sync.Mutex
	alone := map[uint64]string{}
	runHistory := func(seq []uint64) (string, error) {
		var args []string
		for _, k := range seq {
			args = append(args, fmt.Sprint(k))
		}
		cmd := exec.Command(os.Args[0], "--history", strings.Join(args, ","))
		out, err := cmd.Output()
		if err != nil {
			return "", fmt.Errorf("history process %v: %v", seq, err)
		}
		return string(out), nil
	}
	sps = append(sps, kit.Space{
		Name: "build-histories",
		Size: func() uint64 {
			if tier == "thorough" {
				return np*np + np*np*np
			}
			return np * np // triples only in the thorough tier (one process per case)
		}(),
		Eval: func(i uint64) kit.Outcome {
			var seq []uint64
			if i < np*np {
				seq = []uint64{i / np, i % np}
			} else {
				k := i - np*np
				seq = []uint64{k / np / np, k / np % np, k % np}
			}
			last := seq[len(seq)-1]
			hmu.Lock()
			base, ok := alone[last]
			hmu.Unlock()
			if !ok {
				b, err := runHistory([]uint64{last})
				if err != nil {
					return kit.Outcome{Key: "harness|history-process-failed", Detail: err.Error()}
				}
				hmu.Lock()
				alone[last] = b
				hmu.Unlock()
				base = b
			}
			got, err := runHistory(seq)
			if err != nil {
				return kit.Outcome{Key: "build-history-crashes|last=" + pool[last].name, Nontrivial: true, Detail: err.Error()}
			}
			if got != base {
				var names []string
				for _, k := range seq {
					names = append(names, pool[k].name)
				}
				return kit.Outcome{Key: "build-depends-on-earlier-builds-of-the-process|last=" + pool[last].name, Nontrivial: true,
					Detail: fmt.Sprintf("sources built in one process, in this order: %v\nthe last one gives a different artefact/outcome than when it is the only build of the process:\n%s\nsource of the last one: %v\nsource of the first one: %v", names, firstDiff(base, got), pool[last].files, pool[seq[0]].files)}
			}
			return kit.Outcome{OK: true, Nontrivial: true, Class: "same-as-alone", Ops: len(seq)}
		},
		Describe: func(i uint64) any {
			if i < np*np {
				return map[string]any{"history": []string{pool[i/np].name, pool[i%np].name}}
			}
			k := i - np*np
			return map[string]any{"history": []string{pool[k/np/np].name, pool[k/np%np].name, pool[k%np].name}}
		},
	})
	return sps
}

// historyPool is the pool of sources of the build-histories space.
func historyPool() []*source {
	prog := func(name, body string) *source {
		return &source{name: "history/" + name, files: map[string]string{"main.go": "package main\n\n" + body}, run: true, opts: opts}
	}
	tmpl := func(name, src string) *source {
		return &source{name: "history/" + name, entry: "index.html", files: map[string]string{"index.html": src}, run: true, opts: opts}
	}
	return []*source{
		prog("tags-convert", "func main() {\n\tvar a struct{ X int `k:\"a\"` }\n\tb := struct{ X int `k:\"b\"` }(a)\n\tprintln(b.X)\n}\n"),
		prog("tags-assign", "func main() {\n\tvar a struct{ X int `k:\"a\"` }\n\tvar b struct{ X int `k:\"b\"` } = a\n\tprintln(b.X)\n}\n"),
		prog("defined-bool", "type Flag bool\n\nfunc main() {\n\tvar f Flag = true\n\tvar g Flag = false\n\tprintln(f, g)\n}\n"),
		prog("plain-bool", "func main() {\n\tx := true\n\ty := false\n\tvar i, j interface{} = x, y\n\t_, ok1 := i.(bool)\n\t_, ok2 := j.(bool)\n\tprintln(ok1, ok2)\n}\n"),
		prog("defined-int-and-nil", "type N int\n\nfunc main() {\n\tvar n N = 7\n\tvar p *N = nil\n\tconst c = iota\n\tprintln(n, p == nil, c)\n}\n"),
		prog("plain-int", "func main() {\n\tx := 7\n\tvar i interface{} = x\n\t_, ok := i.(int)\n\tvar e error = nil\n\tprintln(ok, e == nil)\n}\n"),
		prog("same-name-types", "type T int\n\nfunc f() interface{} {\n\ttype T string\n\treturn struct{ F T }{\"s\"}\n}\n\nfunc main() {\n\t_, ok := f().(struct{ F T })\n\tprintln(ok)\n}\n"),
		prog("native-const", "import \"host\"\n\nfunc main() {\n\tvar f float64 = host.C03\n\tprintln(f, host.C03>>1, host.C05+1)\n}\n"),
		prog("big-const", "const k = 1 << 70\n\nfunc main() {\n\tvar f float64 = k\n\tprintln(f, k>>69)\n}\n"),
		prog("undefined", "func main() {\n\tprintln(nope)\n}\n"),
		tmpl("tmpl-bool", "{% type Flag bool %}{% var f Flag = true %}{{ f }}{% x := true %}{{ x }}"),
		tmpl("tmpl-js-types", "<script>var a = {{ 1 }}, b = {{ \"s\" }}, c = {{ []int{1} }}, d = {{ map[string]int{\"k\": 1} }}, e = {{ 2.5 }}, f = {{ []string{\"x\"} }}, g = {{ true }};</script><script type=\"application/ld+json\">{{ map[string][]int{\"k\": {1}} }}</script><style>a{b:{{ 3 }}}</style><a href=\"{{ \"u\" }}\" title=\"{{ 4 }}\">{{ []byte(\"x\") }}</a>"),
		tmpl("tmpl-registers", "{% a, b, c := 42, \"hello world\", 2.5 %}{% var d interface{} = []int{1} %}{{ a }}{{ b }}{{ c }}{{ d }}"),
		tmpl("tmpl-recover", "{% f := func() (int, string) {\n defer func() { recover() }()\n panic(\"x\")\n} %}{% n, s := f() %}quotient={{ n }} status={{ s }}"),
		prog("recover-results", "func f() (int, string) {\n\tdefer func() { recover() }()\n\tpanic(\"x\")\n}\n\nfunc main() {\n\tn, s := f()\n\tprintln(n, s)\n}\n"),
		tmpl("tmpl-plain", "{% x := true %}{% var i interface{} = x %}{% _, ok := i.(bool) %}{{ ok }}{{ title }}{{ g01 }}"),
	}
}

// historyMain is the body of `C30 --history a,b,c`: builds the sources a, b, c
// of the pool in this order and prints the fingerprint of the last one.
func historyMain(arg string) {
	pool := historyPool()
	last := ""
	for _, f := range strings.Split(arg, ",") {
		k, err := strconv.Atoi(f)
		if err != nil || k < 0 || k >= len(pool) {
			fmt.Fprintln(os.Stderr, "bad history", arg)
			os.Exit(2)
		}
		fp, err := build(pool[k])
		if err != nil {
			fp = "BUILD ERROR: " + err.Error()
		}
		last = fp
	}
	fmt.Print(last)
}

// raceFrame is the first frame of the race report that lies in the repository.
func raceFrame(out string) string {
	lines := strings.Split(out, "\n")
	for i, l := range lines {
		l = strings.TrimSpace(l)
		if strings.HasPrefix(l, "github.com/open2b/scriggo") && i+1 < len(lines) && strings.Contains(lines[i+1], "/repo/") {
			if k := strings.Index(l, "("); k > 0 && !strings.Contains(l[:k], ".func") {
				l = l[:k]
			}
			return strings.TrimPrefix(l, "github.com/open2b/scriggo/")
		}
	}
	return "unknown-frame"
}

// raceCompanion is the body of `C30race --race-companion i`.
func raceCompanion(first int) {
	// The concurrent builds come FIRST, in a process that has built nothing yet:
	// state that the compiler builds lazily and keeps for the process (caches,
	// interned types, tables) is then written by several builds at once. The
	// sequential reference builds are made afterwards.
	srcs := append(synthetic(), historyPool()...)
	type res struct {
		k   int
		fp  string
		err error
	}
	var wg sync.WaitGroup
	results := make([][]res, 8)
	for g := 0; g < 8; g++ {
		wg.Add(1)
		go func(g int) {
			defer wg.Done()
			for r := 0; r < 6; r++ {
				k := (first + g/2 + r*3) % len(srcs) // goroutines work in pairs on the same source
				fp, err := build(srcs[k])
				results[g] = append(results[g], res{k, fp, err})
			}
		}(g)
	}
	wg.Wait()
	base := make([]string, len(srcs))
	for k, s := range srcs {
		fp, err := build(s)
		if err != nil {
			fp = "BUILD ERROR: " + err.Error()
		}
		base[k] = fp
	}
	for _, rs := range results {
		for _, r := range rs {
			fp := r.fp
			if r.err != nil {
				fp = "BUILD ERROR: " + r.err.Error()
			}
			if fp != base[r.k] {
				fmt.Fprintf(os.Stderr, "C30-RACE-COMPANION-DIFF source %s:\n%s\n", srcs[r.k].name, firstDiff(base[r.k], fp))
				os.Exit(3)
			}
		}
	}
}

func main() {
	if len(os.Args) == 3 && os.Args[1] == "--history" {
		historyMain(os.Args[2])
		return
	}
	if len(os.Args) == 3 && os.Args[1] == "--race-companion" {
		n, _ := strconv.Atoi(os.Args[2])
		raceCompanion(n)
		return
	}
	kit.Main(&kit.Check{
		ID:       "C30",
		Level:    "model_checking",
		Isolated: true, // the map-order control is process-global: one sequential worker per process
		Rule:     "sources = 2 synthetic stress sources (dependency chains, many types/labels/closures/imports/macros/globals), the 47 C14 programs and every import-free corpus program/template up to the tier's size that builds. For each source the build runs under harness-controlled Go map iteration order (GOROOT overlay of internal/runtime/maps, go1.26.8): baseline = every iterator starts at offset 0; then 8 uniform offsets x 3 map hash seeds; then every single-iterator deviation (iterator i < I, offset 1..7) for the sources with fewest iterators (quick: 60 + synthetic; thorough: all). Disassembly, UsedVars and (synthetic sources) run output must equal the baseline. Non-trivial = the build initialises at least one map iterator. A difference is re-confirmed with the stock random order before it is reported",
		Assumptions: []string{
			"the per-process hash key of the Go runtime is not controlled (it only matters for maps larger than 8 entries)",
			"built with go1.26.8 instead of the repository's go1.25.0 because GOROOT overlays are refused for toolchains under GOMODCACHE",
			"an order-dependence that 3000 free builds cannot reproduce is recorded as order_dependence_unconfirmed, not reported",
		},
		Spaces: spaces,
	})
}
