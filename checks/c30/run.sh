#!/bin/bash
# C30: built with go1.26.8 and the map-order GOROOT overlay
set -u
cd /verif
. bin/env.sh
export GOTOOLCHAIN=local
GO=/opt/veriftools/go1.26.8/bin/go
mkdir -p .build
maporder/gen.sh >/dev/null || { echo "HARNESS-ERROR: overlay generation failed" >&2; exit 2; }
OV=.build/maporder/overlay.json
if [ -n "${VERIF_OVERLAY:-}" ]; then
  # merge the mutation overlay with the map-order overlay
  python3 -c "import json,sys;a=json.load(open('.build/maporder/overlay.json'));b=json.load(open(sys.argv[1]));a['Replace'].update(b['Replace']);json.dump(a,open('.build/maporder/overlay.merged.json','w'))" "$VERIF_OVERLAY" || exit 2
  OV=.build/maporder/overlay.merged.json
  export GOFLAGS=-mod=mod
fi
if ! $GO build -overlay $OV -tags verif -o .build/C30 ./checks/c30 2>.build/C30.buildlog; then
  cat .build/C30.buildlog >&2
  echo "HARNESS-ERROR: build of C30 (go1.26.8 + map-order overlay) failed" >&2
  exit 2
fi
# free-running -race build of the same binary for the race companion space
if ! $GO build -race -overlay $OV -tags verif -o .build/C30race ./checks/c30 2>.build/C30race.buildlog; then
  cat .build/C30race.buildlog >&2
  echo "HARNESS-ERROR: -race build of C30 failed" >&2
  exit 2
fi
args=(); replay=""
while [ $# -gt 0 ]; do
  case "$1" in
    --build-only) exit 0;;
    --replay) replay="$2"; shift 2;;
    *) args+=("$1"); shift;;
  esac
done
if [ -n "$replay" ]; then exec .build/C30 --replay "$replay" "${args[@]}"; fi
exec .build/C30 "${args[@]}"
