#!/bin/bash
# Generates the GOROOT overlay (go1.26.8 only) that reports every channel
# primitive reached through package reflect — Value.Recv/Send/TryRecv/TrySend/
# Close and Len/Cap of a channel — to a hook. The controlled scheduler (sched,
# build tag verifreflect) turns the SECOND and later primitives executed inside
# one VM instruction into scheduling points, so that a window between two
# channel operations of one instruction (check-then-act on a channel) is
# explored like any other interleaving. See DESIGN.md §3.2 "intra-instruction
# points". Output: /verif/.build/chanpoints/overlay.json
set -eu
GOROOT126=/opt/veriftools/go1.26.8
OUT=/verif/.build/chanpoints
mkdir -p $OUT
python3 - "$GOROOT126/src/reflect" "$OUT" <<'PY'
import sys,json
src,out=sys.argv[1],sys.argv[2]
t=open(src+'/value.go').read()
def ins(head,op):
    global t
    assert t.count(head)==1, head
    t=t.replace(head, head+'\n\tif verifChanHook != nil {\n\t\tverifChanHook(%d)\n\t}'%op)
ins('func (v Value) Recv() (x Value, ok bool) {',1)
ins('func (v Value) Send(x Value) {',2)
ins('func (v Value) TryRecv() (x Value, ok bool) {',3)
ins('func (v Value) TrySend(x Value) bool {',4)
ins('func (v Value) Close() {',5)
# Len / Cap of a channel
a='\tcase Chan:\n\t\treturn chanlen(v.pointer())'
assert t.count(a)==1
t=t.replace(a,'\tcase Chan:\n\t\tif verifChanHook != nil {\n\t\t\tverifChanHook(6)\n\t\t}\n\t\treturn chanlen(v.pointer())')
b='\tcase Chan:\n\t\treturn chancap(v.pointer())'
assert t.count(b)==1
t=t.replace(b,'\tcase Chan:\n\t\tif verifChanHook != nil {\n\t\t\tverifChanHook(7)\n\t\t}\n\t\treturn chancap(v.pointer())')
open(out+'/value.go','w').write(t)
open(out+'/verif_chan.go','w').write('''package reflect

import _ "unsafe"

// verifChanHook, when set, is called before every channel primitive reached
// through this package (verification overlay, never part of a normal toolchain).
// op: 1 Recv, 2 Send, 3 TryRecv, 4 TrySend, 5 Close, 6 Len, 7 Cap.
var verifChanHook func(op int)

// VerifSetChanHook installs the hook (nil removes it).
//
//go:linkname VerifSetChanHook
func VerifSetChanHook(f func(op int)) { verifChanHook = f }
''')
json.dump({"Replace":{src+'/value.go':out+'/value.go',src+'/verif_chan.go':out+'/verif_chan.go'}},open(out+'/overlay.json','w'),indent=1)
PY
echo generated $OUT/overlay.json
