package gcref

import (
	"reflect"
	"strconv"
)

// AppendPrint appends to b the bytes that the gc runtime's print builtin
// writes for one argument v (the value a Scriggo PrintFunc hook receives: one
// call per argument, plus " " and "\n" strings for println). ok is false for
// kinds whose gc output is an address (pointers, maps, channels, funcs,
// slices, interfaces): generated programs must not print those.
//
// This mirrors runtime/print.go (printint, printuint, printfloat, printbool,
// printstring); it is validated by every differential case, since gc's own
// output is the reference it is compared with.
func AppendPrint(b []byte, v any) (out []byte, ok bool) {
	r := reflect.ValueOf(v)
	switch r.Kind() {
	case reflect.Bool:
		if r.Bool() {
			return append(b, "true"...), true
		}
		return append(b, "false"...), true
	case reflect.Int, reflect.Int8, reflect.Int16, reflect.Int32, reflect.Int64:
		return strconv.AppendInt(b, r.Int(), 10), true
	case reflect.Uint, reflect.Uint8, reflect.Uint16, reflect.Uint32, reflect.Uint64, reflect.Uintptr:
		return strconv.AppendUint(b, r.Uint(), 10), true
	case reflect.Float32, reflect.Float64:
		return appendFloat(b, r.Float()), true
	case reflect.Complex64, reflect.Complex128:
		c := r.Complex()
		b = append(b, '(')
		b = appendFloat(b, real(c))
		b = appendFloat(b, imag(c))
		b = append(b, 'i', ')')
		return b, true
	case reflect.String:
		return append(b, r.String()...), true
	}
	return append(b, "<unprintable "+r.Kind().String()+">"...), false
}

// AppendFloat appends what print writes for a float64.
func AppendFloat(b []byte, v float64) []byte { return appendFloat(b, v) }

// appendFloat is runtime.printfloat.
func appendFloat(b []byte, v float64) []byte {
	switch {
	case v != v:
		return append(b, "NaN"...)
	case v+v == v && v > 0:
		return append(b, "+Inf"...)
	case v+v == v && v < 0:
		return append(b, "-Inf"...)
	}
	const n = 7 // digits printed
	var buf [n + 7]byte
	buf[0] = '+'
	e := 0 // exp
	if v == 0 {
		if 1/v < 0 {
			buf[0] = '-'
		}
	} else {
		if v < 0 {
			v = -v
			buf[0] = '-'
		}
		// normalize
		for v >= 10 {
			e++
			v /= 10
		}
		for v < 1 {
			e--
			v *= 10
		}
		// round
		h := 5.0
		for i := 0; i < n; i++ {
			h /= 10
		}
		v += h
		if v >= 10 {
			e++
			v /= 10
		}
	}
	// format +d.dddd+edd
	for i := 0; i < n; i++ {
		s := int(v)
		buf[i+2] = byte(s + '0')
		v -= float64(s)
		v *= 10
	}
	buf[1] = buf[2]
	buf[2] = '.'
	buf[n+2] = 'e'
	buf[n+3] = '+'
	if e < 0 {
		e = -e
		buf[n+3] = '-'
	}
	buf[n+4] = byte(e/100) + '0'
	buf[n+5] = byte(e/10)%10 + '0'
	buf[n+6] = byte(e%10) + '0'
	return append(b, buf[:]...)
}
