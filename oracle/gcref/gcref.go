// Package gcref is the "gc" reference oracle of DESIGN.md §5: the behaviour of
// a self-contained Go program (package main, no imports, output only through
// the print/println builtins) when it is compiled and run by the Go toolchain.
//
// Results are cached on disk under <VERIF_ROOT>/.cache/gc/<sha256>/result.json
// keyed by the hash of the source (and of the go.mod text that selects the
// toolchain). The cache is never committed and always recomputable.
package gcref

import (
	"bytes"
	"context"
	"crypto/sha256"
	"encoding/hex"
	"encoding/json"
	"errors"
	"fmt"
	"os"
	"os/exec"
	"path/filepath"
	"strings"
	"sync"
	"time"
)

// goMod selects the toolchain: go1.25.0 (the version /repo's go.mod asks for).
const goMod = "module t\n\ngo 1.25.0\n"

// Result is what gc did with a program.
type Result struct {
	BuildOK  bool   `json:"build_ok"`
	BuildErr string `json:"build_err,omitempty"` // compiler diagnostics when !BuildOK
	Stderr   []byte `json:"stderr"`              // print/println write to fd 2
	Stdout   []byte `json:"stdout"`
	ExitCode int    `json:"exit_code"`
	TimedOut bool   `json:"timed_out,omitempty"`
}

func root() string {
	if r := os.Getenv("VERIF_ROOT"); r != "" {
		return r
	}
	return "/verif"
}

// Hash returns the cache key of a source.
func Hash(src []byte) string {
	h := sha256.New()
	h.Write([]byte(goMod))
	h.Write([]byte{0})
	h.Write(src)
	return hex.EncodeToString(h.Sum(nil))
}

var (
	mu       sync.Mutex
	inflight = map[string]*sync.Mutex{}
)

func lockFor(h string) *sync.Mutex {
	mu.Lock()
	defer mu.Unlock()
	m := inflight[h]
	if m == nil {
		m = &sync.Mutex{}
		inflight[h] = m
	}
	return m
}

// Cached reports whether the result for src is already in the cache.
func Cached(src []byte) bool {
	_, err := os.Stat(filepath.Join(root(), ".cache", "gc", Hash(src), "result.json"))
	return err == nil
}

// Run returns gc's behaviour on src, from the cache when possible. An error is
// returned only when the oracle itself is unavailable (no toolchain, no disk).
func Run(src []byte) (*Result, error) {
	h := Hash(src)
	l := lockFor(h)
	l.Lock()
	defer l.Unlock()
	dir := filepath.Join(root(), ".cache", "gc", h)
	resPath := filepath.Join(dir, "result.json")
	if b, err := os.ReadFile(resPath); err == nil {
		var r Result
		if json.Unmarshal(b, &r) == nil {
			return &r, nil
		}
	}
	// Work in a private scratch directory, then publish result.json atomically
	// (several worker processes may compute the same key at the same time).
	if err := os.MkdirAll(dir, 0o755); err != nil {
		return nil, err
	}
	work, err := os.MkdirTemp(dir, "work-")
	if err != nil {
		return nil, err
	}
	defer os.RemoveAll(work)
	if err := os.WriteFile(filepath.Join(work, "go.mod"), []byte(goMod), 0o644); err != nil {
		return nil, err
	}
	if err := os.WriteFile(filepath.Join(work, "main.go"), src, 0o644); err != nil {
		return nil, err
	}
	r := &Result{}
	env := goEnv()
	{
		ctx, cancel := context.WithTimeout(context.Background(), 30*time.Minute)
		cmd := exec.CommandContext(ctx, goBin(), "build", "-gcflags=-e", "-o", "prog", "main.go")
		cmd.Dir = work
		cmd.Env = env
		out, err := cmd.CombinedOutput()
		timedOut := ctx.Err() != nil
		cancel()
		if err != nil {
			var ee *exec.ExitError
			if !errors.As(err, &ee) || timedOut {
				return nil, fmt.Errorf("gcref: go build could not run: %v\n%s", err, out)
			}
			s := string(out)
			// a toolchain/environment failure is not a verdict on the program
			if !strings.Contains(s, "main.go:") {
				return nil, fmt.Errorf("gcref: go build failed for a reason other than the program: %s", s)
			}
			r.BuildErr = s
		} else {
			r.BuildOK = true
		}
	}
	if r.BuildOK {
		ctx, cancel := context.WithTimeout(context.Background(), 2*time.Minute)
		cmd := exec.CommandContext(ctx, filepath.Join(work, "prog"))
		cmd.Dir = work
		cmd.Env = []string{"GOTRACEBACK=single", "GOMAXPROCS=2"}
		var so, se bytes.Buffer
		cmd.Stdout, cmd.Stderr = &so, &se
		err := cmd.Run()
		if ctx.Err() != nil {
			r.TimedOut = true
		}
		cancel()
		r.Stdout, r.Stderr = so.Bytes(), se.Bytes()
		if err != nil {
			var ee *exec.ExitError
			if errors.As(err, &ee) {
				r.ExitCode = ee.ExitCode()
			} else {
				return nil, fmt.Errorf("gcref: cannot run the compiled program: %v", err)
			}
		}
	}
	b, _ := json.Marshal(r)
	tmp := filepath.Join(work, "result.json")
	if err := os.WriteFile(tmp, b, 0o644); err != nil {
		return nil, err
	}
	if err := os.Rename(tmp, resPath); err != nil {
		return nil, err
	}
	// keep small sources next to the result for debugging
	if len(src) <= 1<<18 {
		os.WriteFile(filepath.Join(dir, "main.go"), src, 0o644)
	}
	return r, nil
}

func goBin() string {
	if p, err := exec.LookPath("go"); err == nil {
		return p
	}
	return "/usr/local/go/bin/go"
}

// goEnv is the offline environment of bin/env.sh, whatever the caller's is.
func goEnv() []string {
	keep := []string{"HOME", "PATH", "TMPDIR", "GOCACHE", "GOMODCACHE", "GOPATH", "GOROOT"}
	var env []string
	for _, k := range keep {
		if v, ok := os.LookupEnv(k); ok {
			env = append(env, k+"="+v)
		}
	}
	env = append(env,
		"GOFLAGS=-mod=mod", "GOPROXY=off", "GOPRIVATE=*", "GOTOOLCHAIN=auto",
		"GONOSUMDB=*", "GONOSUMCHECK=1", "CGO_ENABLED=0", "GOWORK=off")
	return env
}

// PanicHeader extracts from the stderr of a crashed gc program the text from
// "panic: " up to (not including) the goroutine trace, i.e. the lines a user
// sees as the panic message, plus " [recovered]" lines of a panic chain.
func PanicHeader(stderr []byte) string {
	s := string(stderr)
	i := strings.Index(s, "panic: ")
	if i < 0 {
		i = strings.Index(s, "fatal error: ")
		if i < 0 {
			return ""
		}
	}
	s = s[i:]
	if j := strings.Index(s, "\ngoroutine "); j >= 0 {
		s = s[:j]
	}
	return strings.TrimRight(s, "\n")
}
