// Package asteq holds reflection helpers over scriggo's ast used by checks C27
// and C28: a deterministic deep dump (with or without positions and
// parenthesis counts), a first-difference finder, the enumeration of the
// ast.Node values reachable from a node, and a mutator that changes every
// settable field reachable from a value.
package asteq

import (
	"fmt"
	"reflect"
	"sort"
	"strings"

	"github.com/open2b/scriggo/ast"
)

var (
	positionPtrType = reflect.TypeOf((*ast.Position)(nil))
	nodeType        = reflect.TypeOf((*ast.Node)(nil)).Elem()
	treePtrType     = reflect.TypeOf((*ast.Tree)(nil))
	reflectTypeType = reflect.TypeOf((*reflect.Type)(nil)).Elem()
	reflectValType  = reflect.TypeOf(reflect.Value{})
)

// Options selects what a dump contains.
type Options struct {
	Positions   bool // include *ast.Position values
	Parenthesis bool // include the parenthesis count of expressions
	// ExpandedTrees follows the Tree field of Extends, Import and Render nodes.
	ExpandedTrees bool
	// SkipAnnotations leaves out what the type checker adds to a tree: Upvars,
	// IR fields and reflect types.
	SkipAnnotations bool
}

// IsAnnotation reports whether a dump line lies in a type checker annotation.
func IsAnnotation(l Line) bool {
	return strings.Contains(l.Path, ".Upvars") || strings.Contains(l.Path, ".IR.") || strings.HasSuffix(l.Path, ".Reflect") || strings.Contains(l.Path, ".Reflect.")
}

// IsZero reports whether a dump line holds a zero value (nil, 0, empty).
func IsZero(l Line) bool {
	return strings.HasPrefix(l.Val, "nil") || l.Val == "0" || l.Val == "false" || l.Val == `""`
}

// Line is one leaf of a dump.
type Line struct {
	Path  string // e.g. Nodes[0].Expressions[0].Expr1.Name
	Owner string // innermost enclosing struct type and field, e.g. BinaryOperator.Expr1
	Val   string
}

func (l Line) String() string { return l.Path + " = " + l.Val }

type dumper struct {
	opt   Options
	lines []Line
	seen  map[uintptr]bool
}

// Dump returns the deterministic deep dump of v.
func Dump(v any, opt Options) []Line {
	d := &dumper{opt: opt, seen: map[uintptr]bool{}}
	d.walk(reflect.ValueOf(v), "", "")
	return d.lines
}

// Text joins a dump.
func Text(ls []Line) string {
	var b strings.Builder
	for _, l := range ls {
		b.WriteString(l.Path)
		b.WriteString(" = ")
		b.WriteString(l.Val)
		b.WriteByte('\n')
	}
	return b.String()
}

// Diff returns the first line where a and b differ ("" lines when one is shorter).
func Diff(a, b []Line) (la, lb Line, differ bool) {
	for i := 0; i < len(a) || i < len(b); i++ {
		var x, y Line
		if i < len(a) {
			x = a[i]
		}
		if i < len(b) {
			y = b[i]
		}
		if x.Path != y.Path || x.Val != y.Val {
			return x, y, true
		}
	}
	return Line{}, Line{}, false
}

func (d *dumper) emit(path, owner, val string) {
	d.lines = append(d.lines, Line{path, owner, val})
}

func typeName(t reflect.Type) string {
	for t.Kind() == reflect.Ptr {
		t = t.Elem()
	}
	return t.Name()
}

func (d *dumper) walk(v reflect.Value, path, owner string) {
	if !v.IsValid() {
		d.emit(path, owner, "nil")
		return
	}
	t := v.Type()
	if t == reflectValType {
		d.emit(path, owner, "reflect.Value")
		return
	}
	if t.Implements(reflectTypeType) && t.Kind() == reflect.Interface {
		if v.IsNil() {
			d.emit(path, owner, "nil")
		} else {
			d.emit(path, owner, "reflect.Type "+fmt.Sprint(v.Elem().Type()))
		}
		return
	}
	switch v.Kind() {
	case reflect.Interface:
		if v.IsNil() {
			d.emit(path, owner, "nil")
			return
		}
		d.walk(v.Elem(), path, owner)
	case reflect.Ptr:
		if t == positionPtrType && !d.opt.Positions {
			return
		}
		if v.IsNil() {
			d.emit(path, owner, "nil "+t.String())
			return
		}
		if t.Elem().Kind() == reflect.Struct && t.Elem().Name() == "expression" {
			if d.opt.Parenthesis {
				d.emit(path+".parenthesis", owner, fmt.Sprint(v.Elem().Field(0).Int()))
			}
			return
		}
		if t == reflect.TypeOf((*reflect.Value)(nil)) {
			d.emit(path, owner, "*reflect.Value")
			return
		}
		p := v.Pointer()
		if d.seen[p] && t != positionPtrType {
			d.emit(path, owner, "<cycle "+t.String()+">")
			return
		}
		d.seen[p] = true
		d.emit(path, owner, "&"+t.Elem().String())
		d.walk(v.Elem(), path, owner)
		delete(d.seen, p)
	case reflect.Struct:
		if t.Name() == "expression" {
			if d.opt.Parenthesis {
				d.emit(path+".parenthesis", owner, fmt.Sprint(v.Field(0).Int()))
			}
			return
		}
		for i := 0; i < t.NumField(); i++ {
			f := t.Field(i)
			if d.opt.SkipAnnotations && (f.Name == "Upvars" || f.Name == "IR" || f.Name == "Reflect") {
				continue
			}
			if f.Type == treePtrType && !d.opt.ExpandedTrees {
				if v.Field(i).IsNil() {
					d.emit(path+"."+f.Name, t.Name()+"."+f.Name, "nil *ast.Tree")
				} else {
					d.emit(path+"."+f.Name, t.Name()+"."+f.Name, "<expanded tree>")
				}
				continue
			}
			d.walk(v.Field(i), path+"."+f.Name, t.Name()+"."+f.Name)
		}
	case reflect.Slice:
		if t.Elem().Kind() == reflect.Uint8 {
			d.emit(path, owner, fmt.Sprintf("bytes %q", v.Bytes()))
			return
		}
		d.emit(path+".len", owner, fmt.Sprint(v.Len()))
		for i := 0; i < v.Len(); i++ {
			d.walk(v.Index(i), fmt.Sprintf("%s[%d]", path, i), owner)
		}
	case reflect.Array:
		for i := 0; i < v.Len(); i++ {
			d.walk(v.Index(i), fmt.Sprintf("%s[%d]", path, i), owner)
		}
	case reflect.Map:
		keys := v.MapKeys()
		sort.Slice(keys, func(a, b int) bool { return fmt.Sprint(keys[a]) < fmt.Sprint(keys[b]) })
		d.emit(path+".len", owner, fmt.Sprint(v.Len()))
		for _, k := range keys {
			d.walk(v.MapIndex(k), fmt.Sprintf("%s[%v]", path, k), owner)
		}
	case reflect.String:
		d.emit(path, owner, fmt.Sprintf("%q", v.String()))
	case reflect.Bool:
		d.emit(path, owner, fmt.Sprint(v.Bool()))
	case reflect.Int, reflect.Int8, reflect.Int16, reflect.Int32, reflect.Int64:
		d.emit(path, owner, fmt.Sprint(v.Int()))
	case reflect.Uint, reflect.Uint8, reflect.Uint16, reflect.Uint32, reflect.Uint64, reflect.Uintptr:
		d.emit(path, owner, fmt.Sprint(v.Uint()))
	case reflect.Float32, reflect.Float64:
		d.emit(path, owner, fmt.Sprint(v.Float()))
	default:
		d.emit(path, owner, "<"+v.Kind().String()+">")
	}
}

// NodeRef is a node reachable from a root, with where it hangs.
type NodeRef struct {
	Node     ast.Node
	Parent   ast.Node // nil for the root
	Owner    string   // "<ParentType>.<field path from the parent node>"
	Path     string
	TypedNil bool // a nil pointer stored in a field (not a node of the tree)
}

// Reachable lists, in depth-first pre-order, the ast.Node values reachable
// from root through exported fields. *ast.Position values (which happen to
// implement ast.Node) are not nodes. Expanded trees are followed only if asked.
// IR fields (the type checker's internal representation) are not followed.
func Reachable(root ast.Node, expandedTrees bool) []NodeRef {
	var out []NodeRef
	var walk func(v reflect.Value, parent ast.Node, owner, path string)
	walk = func(v reflect.Value, parent ast.Node, owner, path string) {
		if !v.IsValid() {
			return
		}
		t := v.Type()
		switch v.Kind() {
		case reflect.Interface:
			if v.IsNil() {
				return
			}
			walk(v.Elem(), parent, owner, path)
		case reflect.Ptr:
			if t == positionPtrType || t == reflect.TypeOf((*reflect.Value)(nil)) {
				return
			}
			if t.Elem().Kind() == reflect.Struct && t.Elem().Name() == "expression" {
				return
			}
			if v.IsNil() {
				return
			}
			if t.Implements(nodeType) && v.CanInterface() {
				n := v.Interface().(ast.Node)
				out = append(out, NodeRef{Node: n, Parent: parent, Owner: owner, Path: path})
				parent = n
				owner = typeName(t)
			}
			walk(v.Elem(), parent, owner, path)
		case reflect.Struct:
			if t == reflectValType || t.Name() == "expression" {
				return
			}
			for i := 0; i < t.NumField(); i++ {
				f := t.Field(i)
				if !f.IsExported() || f.Name == "IR" || f.Name == "Upvars" {
					continue
				}
				if f.Type == treePtrType && !expandedTrees {
					continue
				}
				walk(v.Field(i), parent, owner+"."+f.Name, path+"."+f.Name)
			}
		case reflect.Slice, reflect.Array:
			for i := 0; i < v.Len(); i++ {
				walk(v.Index(i), parent, owner, fmt.Sprintf("%s[%d]", path, i))
			}
		}
	}
	rv := reflect.ValueOf(root)
	out = append(out, NodeRef{Node: root, Owner: "(root)", Path: ""})
	walk(rv.Elem(), root, typeName(rv.Type()), "")
	return out
}

// TypedNilFields lists the pointer-typed node fields of n (direct fields only)
// that hold a nil pointer, e.g. Break.Label.
func TypedNilFields(n ast.Node) []string {
	var out []string
	v := reflect.ValueOf(n)
	if v.Kind() != reflect.Ptr || v.IsNil() {
		return nil
	}
	v = v.Elem()
	t := v.Type()
	for i := 0; i < t.NumField(); i++ {
		f := t.Field(i)
		if !f.IsExported() || f.Type == positionPtrType || f.Type == treePtrType {
			continue
		}
		if f.Type.Kind() == reflect.Ptr && f.Type.Implements(nodeType) && v.Field(i).IsNil() {
			out = append(out, f.Name)
		}
	}
	return out
}

// IsNilNode reports whether n is a nil interface or holds a nil pointer.
func IsNilNode(n ast.Node) bool {
	if n == nil {
		return true
	}
	v := reflect.ValueOf(n)
	return v.Kind() == reflect.Ptr && v.IsNil()
}

// Kind returns the node's type name without package, e.g. "BinaryOperator".
func Kind(n any) string {
	if n == nil {
		return "nil"
	}
	return typeName(reflect.TypeOf(n))
}

// Identities collects the addresses of every struct reachable through a
// pointer and of every non-empty slice backing array.
func Identities(v any, expandedTrees bool) map[uintptr]string {
	ids := map[uintptr]string{}
	var walk func(v reflect.Value, path string)
	walk = func(v reflect.Value, path string) {
		if !v.IsValid() {
			return
		}
		t := v.Type()
		switch v.Kind() {
		case reflect.Interface:
			if !v.IsNil() {
				walk(v.Elem(), path)
			}
		case reflect.Ptr:
			if v.IsNil() || t == reflect.TypeOf((*reflect.Value)(nil)) {
				return
			}
			if t == treePtrType && !expandedTrees && path != "" {
				return
			}
			if _, ok := ids[v.Pointer()]; ok {
				return
			}
			ids[v.Pointer()] = path + " (" + t.String() + ")"
			walk(v.Elem(), path)
		case reflect.Struct:
			if t == reflectValType {
				return
			}
			for i := 0; i < t.NumField(); i++ {
				walk(v.Field(i), path+"."+t.Field(i).Name)
			}
		case reflect.Slice:
			if v.Len() > 0 {
				ids[v.Pointer()] = path + " (backing array of " + t.String() + ")"
			}
			if t.Elem().Kind() == reflect.Uint8 {
				return
			}
			for i := 0; i < v.Len(); i++ {
				walk(v.Index(i), fmt.Sprintf("%s[%d]", path, i))
			}
		}
	}
	walk(reflect.ValueOf(v), "")
	return ids
}

// MutateAll changes every settable value reachable from v: numbers, strings
// and booleans get a different value, bytes are overwritten, and after their
// elements were visited the elements of slices are zeroed. It returns the
// number of places changed.
func MutateAll(v any, expandedTrees bool) int {
	n := 0
	seen := map[uintptr]bool{}
	var walk func(v reflect.Value, top bool)
	walk = func(v reflect.Value, top bool) {
		if !v.IsValid() {
			return
		}
		t := v.Type()
		switch v.Kind() {
		case reflect.Interface:
			if !v.IsNil() {
				walk(v.Elem(), false)
			}
		case reflect.Ptr:
			if v.IsNil() || t == reflect.TypeOf((*reflect.Value)(nil)) {
				return
			}
			if t == treePtrType && !expandedTrees && !top {
				return
			}
			if seen[v.Pointer()] {
				return
			}
			seen[v.Pointer()] = true
			if t.Elem().Kind() == reflect.Struct && t.Elem().Name() == "expression" {
				return // handled through SetParenthesis below
			}
			if e, ok := exprOf(v); ok {
				e.SetParenthesis(e.Parenthesis() + 7)
				n++
			}
			walk(v.Elem(), false)
		case reflect.Struct:
			if t == reflectValType || t.Name() == "expression" {
				return
			}
			for i := 0; i < t.NumField(); i++ {
				if !t.Field(i).IsExported() {
					continue
				}
				walk(v.Field(i), false)
			}
		case reflect.Slice:
			if t.Elem().Kind() == reflect.Uint8 {
				for i := 0; i < v.Len(); i++ {
					if v.Index(i).CanSet() {
						v.Index(i).SetUint(uint64('#'))
						n++
					}
				}
				return
			}
			for i := 0; i < v.Len(); i++ {
				walk(v.Index(i), false)
			}
			for i := 0; i < v.Len(); i++ {
				if v.Index(i).CanSet() {
					v.Index(i).Set(reflect.Zero(t.Elem()))
					n++
				}
			}
		case reflect.Map:
			if v.IsNil() {
				return
			}
			for _, k := range v.MapKeys() {
				v.SetMapIndex(k, reflect.Value{})
				n++
			}
		case reflect.String:
			if v.CanSet() {
				v.SetString(v.String() + "#mutated")
				n++
			}
		case reflect.Bool:
			if v.CanSet() {
				v.SetBool(!v.Bool())
				n++
			}
		case reflect.Int, reflect.Int8, reflect.Int16, reflect.Int32, reflect.Int64:
			if v.CanSet() {
				v.SetInt(v.Int() + 101)
				n++
			}
		}
	}
	walk(reflect.ValueOf(v), true)
	return n
}

func exprOf(v reflect.Value) (ast.Expression, bool) {
	if !v.CanInterface() {
		return nil, false
	}
	e, ok := v.Interface().(ast.Expression)
	if !ok {
		return nil, false
	}
	// nodes whose *expression is nil (built by hand) cannot be set
	defer func() { recover() }()
	_ = e.Parenthesis()
	return e, true
}
