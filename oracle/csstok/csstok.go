// Package csstok is a reference tokenizer for CSS following CSS Syntax Module
// Level 3 §4 (https://www.w3.org/TR/css-syntax-3/#tokenization). It never
// fails: malformed input yields bad-string / bad-url / delim tokens exactly
// as the specification prescribes. Comments are returned as tokens (the
// specification drops them) because a shown value may sit inside one.
package csstok

import (
	"strings"
	"unicode/utf8"
)

// Token types (names of CSS Syntax L3).
const (
	Comment     = "comment"
	CommentOpen = "comment-unterminated"
	Whitespace  = "whitespace"
	String      = "string"
	BadString   = "bad-string"
	Hash        = "hash"
	Delim       = "delim"
	Number      = "number"
	Percentage  = "percentage"
	Dimension   = "dimension"
	Ident       = "ident"
	Function    = "function"
	URL         = "url"
	BadURL      = "bad-url"
	AtKeyword   = "at-keyword"
	CDO         = "CDO"
	CDC         = "CDC"
	Colon       = "colon"
	Semicolon   = "semicolon"
	Comma       = "comma"
	LBracket    = "["
	RBracket    = "]"
	LParen      = "("
	RParen      = ")"
	LBrace      = "{"
	RBrace      = "}"
)

// Token is one CSS token with its source text.
type Token struct {
	Type string
	Text string
}

type tokenizer struct {
	src  string
	pos  int
	toks []Token
}

// Tokenize tokenises src. The input is preprocessed as in §3.3 (CR, FF and
// CRLF become LF; NUL becomes U+FFFD).
func Tokenize(src string) []Token {
	if strings.ContainsAny(src, "\r\f\x00") {
		src = strings.ReplaceAll(src, "\r\n", "\n")
		src = strings.NewReplacer("\r", "\n", "\f", "\n", "\x00", "�").Replace(src)
	}
	t := &tokenizer{src: src}
	for t.pos < len(t.src) {
		t.next()
	}
	return t.toks
}

func (t *tokenizer) emit(typ string, start int) {
	t.toks = append(t.toks, Token{typ, t.src[start:t.pos]})
}

func (t *tokenizer) peek(n int) rune {
	p := t.pos
	for ; n > 0 && p < len(t.src); n-- {
		_, s := utf8.DecodeRuneInString(t.src[p:])
		p += s
	}
	if p >= len(t.src) {
		return -1
	}
	r, _ := utf8.DecodeRuneInString(t.src[p:])
	return r
}

func isWS(r rune) bool    { return r == '\n' || r == '\t' || r == ' ' }
func isDigit(r rune) bool { return '0' <= r && r <= '9' }
func isHex(r rune) bool   { return isDigit(r) || 'a' <= r && r <= 'f' || 'A' <= r && r <= 'F' }
func isNameStart(r rune) bool {
	return 'a' <= r && r <= 'z' || 'A' <= r && r <= 'Z' || r == '_' || r >= 0x80
}
func isName(r rune) bool { return isNameStart(r) || isDigit(r) || r == '-' }
func isNonPrintable(r rune) bool {
	return 0 <= r && r <= 8 || r == 0xB || 0xE <= r && r <= 0x1F || r == 0x7F
}

// validEscape: §4.3.8 on two code points.
func validEscape(a, b rune) bool { return a == '\\' && b != '\n' && b != -1 }

// startsIdent: §4.3.9 on three code points.
func startsIdent(a, b, c rune) bool {
	switch {
	case a == '-':
		return isNameStart(b) || b == '-' || validEscape(b, c)
	case isNameStart(a):
		return true
	case a == '\\':
		return validEscape(a, b)
	}
	return false
}

// startsNumber: §4.3.10.
func startsNumber(a, b, c rune) bool {
	switch {
	case a == '+' || a == '-':
		return isDigit(b) || b == '.' && isDigit(c)
	case a == '.':
		return isDigit(b)
	}
	return isDigit(a)
}

func (t *tokenizer) next() {
	start := t.pos
	r, size := utf8.DecodeRuneInString(t.src[t.pos:])
	switch {
	case r == '/' && t.peek(1) == '*':
		i := strings.Index(t.src[t.pos+2:], "*/")
		if i < 0 {
			t.pos = len(t.src)
			t.emit(CommentOpen, start)
			return
		}
		t.pos += i + 4
		t.emit(Comment, start)
	case isWS(r):
		for t.pos < len(t.src) && isWS(rune(t.src[t.pos])) {
			t.pos++
		}
		t.emit(Whitespace, start)
	case r == '"' || r == '\'':
		t.pos++
		t.consumeString(r, start)
	case r == '#':
		t.pos++
		if isName(t.peek(0)) || validEscape(t.peek(0), t.peek(1)) {
			t.consumeName()
			t.emit(Hash, start)
		} else {
			t.emit(Delim, start)
		}
	case r == '(':
		t.pos++
		t.emit(LParen, start)
	case r == ')':
		t.pos++
		t.emit(RParen, start)
	case r == '+' || r == '.':
		if startsNumber(r, t.peek(1), t.peek(2)) {
			t.consumeNumeric(start)
		} else {
			t.pos++
			t.emit(Delim, start)
		}
	case r == ',':
		t.pos++
		t.emit(Comma, start)
	case r == '-':
		switch {
		case startsNumber(r, t.peek(1), t.peek(2)):
			t.consumeNumeric(start)
		case t.peek(1) == '-' && t.peek(2) == '>':
			t.pos += 3
			t.emit(CDC, start)
		case startsIdent(r, t.peek(1), t.peek(2)):
			t.consumeIdentLike(start)
		default:
			t.pos++
			t.emit(Delim, start)
		}
	case r == ':':
		t.pos++
		t.emit(Colon, start)
	case r == ';':
		t.pos++
		t.emit(Semicolon, start)
	case r == '<':
		if strings.HasPrefix(t.src[t.pos:], "<!--") {
			t.pos += 4
			t.emit(CDO, start)
		} else {
			t.pos++
			t.emit(Delim, start)
		}
	case r == '@':
		t.pos++
		if startsIdent(t.peek(0), t.peek(1), t.peek(2)) {
			t.consumeName()
			t.emit(AtKeyword, start)
		} else {
			t.emit(Delim, start)
		}
	case r == '[':
		t.pos++
		t.emit(LBracket, start)
	case r == '\\':
		if validEscape(r, t.peek(1)) {
			t.consumeIdentLike(start)
		} else {
			t.pos++
			t.emit(Delim, start)
		}
	case r == ']':
		t.pos++
		t.emit(RBracket, start)
	case r == '{':
		t.pos++
		t.emit(LBrace, start)
	case r == '}':
		t.pos++
		t.emit(RBrace, start)
	case isDigit(r):
		t.consumeNumeric(start)
	case isNameStart(r):
		t.consumeIdentLike(start)
	default:
		t.pos += size
		t.emit(Delim, start)
	}
}

// consumeString: §4.3.5; the opening quote has been consumed.
func (t *tokenizer) consumeString(quote rune, start int) {
	for t.pos < len(t.src) {
		r, size := utf8.DecodeRuneInString(t.src[t.pos:])
		switch {
		case r == quote:
			t.pos += size
			t.emit(String, start)
			return
		case r == '\n':
			// do not consume the newline
			t.emit(BadString, start)
			return
		case r == '\\':
			t.pos++
			if t.pos >= len(t.src) {
				break // EOF after backslash: do nothing
			}
			if t.src[t.pos] == '\n' {
				t.pos++
			} else {
				t.pos--
				t.consumeEscape()
			}
		default:
			t.pos += size
		}
	}
	t.emit(String, start) // EOF: parse error, return the string
}

// consumeEscape: §4.3.7; pos is at the backslash, which is known to start a
// valid escape (or is followed by EOF).
func (t *tokenizer) consumeEscape() {
	t.pos++
	if t.pos >= len(t.src) {
		return
	}
	r, size := utf8.DecodeRuneInString(t.src[t.pos:])
	if isHex(r) {
		n := 0
		for n < 6 && t.pos < len(t.src) && isHex(rune(t.src[t.pos])) {
			t.pos++
			n++
		}
		if t.pos < len(t.src) && isWS(rune(t.src[t.pos])) {
			t.pos++
		}
		return
	}
	t.pos += size
}

// consumeName: §4.3.11.
func (t *tokenizer) consumeName() {
	for t.pos < len(t.src) {
		r, size := utf8.DecodeRuneInString(t.src[t.pos:])
		switch {
		case isName(r):
			t.pos += size
		case validEscape(r, t.peek(1)):
			t.consumeEscape()
		default:
			return
		}
	}
}

// consumeNumeric: §4.3.3.
func (t *tokenizer) consumeNumeric(start int) {
	t.consumeNumber()
	switch {
	case startsIdent(t.peek(0), t.peek(1), t.peek(2)):
		t.consumeName()
		t.emit(Dimension, start)
	case t.peek(0) == '%':
		t.pos++
		t.emit(Percentage, start)
	default:
		t.emit(Number, start)
	}
}

// consumeNumber: §4.3.12.
func (t *tokenizer) consumeNumber() {
	if c := t.peek(0); c == '+' || c == '-' {
		t.pos++
	}
	for isDigit(t.peek(0)) {
		t.pos++
	}
	if t.peek(0) == '.' && isDigit(t.peek(1)) {
		t.pos += 2
		for isDigit(t.peek(0)) {
			t.pos++
		}
	}
	if c := t.peek(0); c == 'e' || c == 'E' {
		if d := t.peek(1); isDigit(d) {
			t.pos += 2
		} else if (d == '+' || d == '-') && isDigit(t.peek(2)) {
			t.pos += 3
		} else {
			return
		}
		for isDigit(t.peek(0)) {
			t.pos++
		}
	}
}

// consumeIdentLike: §4.3.4.
func (t *tokenizer) consumeIdentLike(start int) {
	t.consumeName()
	name := t.src[start:t.pos]
	if strings.EqualFold(name, "url") && t.peek(0) == '(' {
		t.pos++
		// skip white space while the next two are white space
		p := t.pos
		for p < len(t.src) && isWS(rune(t.src[p])) {
			p++
		}
		if p < len(t.src) && (t.src[p] == '"' || t.src[p] == '\'') {
			// function token; keep at most the white space the spec leaves
			if p > t.pos {
				t.pos = p - 1
			}
			t.emit(Function, start)
			return
		}
		t.consumeURL(start)
		return
	}
	if t.peek(0) == '(' {
		t.pos++
		t.emit(Function, start)
		return
	}
	t.emit(Ident, start)
}

// consumeURL: §4.3.6; "url(" has been consumed.
func (t *tokenizer) consumeURL(start int) {
	for t.pos < len(t.src) && isWS(rune(t.src[t.pos])) {
		t.pos++
	}
	for t.pos < len(t.src) {
		r, size := utf8.DecodeRuneInString(t.src[t.pos:])
		switch {
		case r == ')':
			t.pos++
			t.emit(URL, start)
			return
		case isWS(r):
			for t.pos < len(t.src) && isWS(rune(t.src[t.pos])) {
				t.pos++
			}
			if t.pos >= len(t.src) {
				t.emit(URL, start)
				return
			}
			if t.src[t.pos] == ')' {
				t.pos++
				t.emit(URL, start)
				return
			}
			t.badURL(start)
			return
		case r == '"' || r == '\'' || r == '(' || isNonPrintable(r):
			t.badURL(start)
			return
		case r == '\\':
			if validEscape(r, t.peek(1)) {
				t.consumeEscape()
			} else {
				t.badURL(start)
				return
			}
		default:
			t.pos += size
		}
	}
	t.emit(URL, start) // EOF: parse error
}

// badURL: §4.3.14 consume the remnants of a bad url.
func (t *tokenizer) badURL(start int) {
	for t.pos < len(t.src) {
		r, size := utf8.DecodeRuneInString(t.src[t.pos:])
		if r == ')' {
			t.pos++
			break
		}
		if validEscape(r, t.peek(1)) {
			t.consumeEscape()
			continue
		}
		t.pos += size
	}
	t.emit(BadURL, start)
}
