package csstok

import (
	"strings"
	"testing"
)

func render(ts []Token) string {
	var p []string
	for _, t := range ts {
		p = append(p, t.Type+"("+t.Text+")")
	}
	return strings.Join(p, " ")
}

func TestTokenize(t *testing.T) {
	tests := []struct{ src, want string }{
		{`a{color:red}`, `ident(a) {({) ident(color) colon(:) ident(red) }(})`},
		{`a { b: "x\"y" }`, `ident(a) whitespace( ) {({) whitespace( ) ident(b) colon(:) whitespace( ) string("x\"y") whitespace( ) }(})`},
		{"\"a\nb\"", "bad-string(\"a) whitespace(\n) ident(b) string(\")"},
		{"\"a\\\nb\"", "string(\"a\\\nb\")"},
		{`"\22 x"`, `string("\22 x")`},
		{`'a"b'`, `string('a"b')`},
		{`/* " */x`, `comment(/* " */) ident(x)`},
		{`/* x`, `comment-unterminated(/* x)`},
		{`url(a b)`, `bad-url(url(a b))`},
		{`url( a )x`, `url(url( a )) ident(x)`},
		{`url("a")`, `function(url() string("a") )())`},
		{`url( 'a')`, `function(url() whitespace( ) string('a') )())`},
		{`url(a"b)c`, `bad-url(url(a"b)) ident(c)`},
		{`url(a\)b)`, `url(url(a\)b))`},
		{`URL(x`, `url(URL(x)`},
		{`rgb(1,2%,3px)`, `function(rgb() number(1) comma(,) percentage(2%) comma(,) dimension(3px) )())`},
		{`#fff #1 # x`, `hash(#fff) whitespace( ) hash(#1) whitespace( ) delim(#) whitespace( ) ident(x)`},
		{`@media -x --y -1 +.5 - .`, `at-keyword(@media) whitespace( ) ident(-x) whitespace( ) ident(--y) whitespace( ) number(-1) whitespace( ) number(+.5) whitespace( ) delim(-) whitespace( ) delim(.)`},
		{`<!-- a --> <`, `CDO(<!--) whitespace( ) ident(a) whitespace( ) CDC(-->) whitespace( ) delim(<)`},
		{`a\3c b \`, `ident(a\3c b) whitespace( ) delim(\)`},
		{"a\\\nb", "ident(a) delim(\\) whitespace(\n) ident(b)"},
		{`1e3 1e 1.5.2`, `number(1e3) whitespace( ) dimension(1e) whitespace( ) number(1.5) number(.2)`},
		{`"abc`, `string("abc)`},
		{`a[b="c"]`, `ident(a) [([) ident(b) delim(=) string("c") ](])`},
		{"a\r\nb\fc", "ident(a) whitespace(\n) ident(b) whitespace(\n) ident(c)"},
	}
	for _, tc := range tests {
		if got := render(Tokenize(tc.src)); got != tc.want {
			t.Errorf("Tokenize(%q)\n got %s\nwant %s", tc.src, got, tc.want)
		}
	}
}

func TestCoversInput(t *testing.T) {
	atoms := []string{`"`, `'`, `\`, `/`, `*`, "\n", `x`, `url(`, `)`, `{`, `:`, `;`, ` `, `-`, `1`, `#`, `@`, `<!--`, `-->`, `.`, `%`, `e`}
	var rec func(s string, d int)
	rec = func(s string, d int) {
		var b strings.Builder
		for _, tk := range Tokenize(s) {
			if tk.Text == "" {
				t.Fatalf("Tokenize(%q): empty token %s", s, tk.Type)
			}
			b.WriteString(tk.Text)
		}
		if b.String() != s {
			t.Fatalf("Tokenize(%q) covers %q", s, b.String())
		}
		if d == 0 {
			return
		}
		for _, a := range atoms {
			rec(s+a, d-1)
		}
	}
	rec("", 4)
}
