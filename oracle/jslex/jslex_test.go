package jslex

import (
	"strings"
	"testing"
)

func render(ts []Token) string {
	var p []string
	for _, t := range ts {
		p = append(p, t.Type+"("+t.Text+")")
	}
	return strings.Join(p, " ")
}

func TestLex(t *testing.T) {
	tests := []struct{ src, want string }{
		{`var a = "x\"y";`, `keyword(var) ident(a) punct(=) string("x\"y") punct(;)`},
		{`a = 'it''s'`, `ident(a) punct(=) string('it') string('s')`},
		{"x = \"a\nb\"", "ident(x) punct(=) string-unterminated(\"a) nl() ident(b) string-unterminated(\")"},
		{"\"a\\\nb\"", "string(\"a\\\nb\")"},
		{`a / b / c`, `ident(a) punct(/) ident(b) punct(/) ident(c)`},
		{`a = /b"c/g.test(x)`, `ident(a) punct(=) regex(/b"c/g) punct(.) ident(test) punct(() ident(x) punct())`},
		{`(/[/]"/)`, `punct(() regex(/[/]"/) punct())`},
		{`f(x) /2/ 3`, `ident(f) punct(() ident(x) punct()) punct(/) number(2) punct(/) number(3)`},
		{`return /x/`, `keyword(return) regex(/x/)`},
		{`1 /x/ 2`, `number(1) punct(/) ident(x) punct(/) number(2)`},
		{"/ab\nc", "regex-unterminated(/ab) nl() ident(c)"},
		{"a // c \"\nb", "ident(a) linecomment(// c \") nl() ident(b)"},
		{"a /* \" */ b", "ident(a) blockcomment(/* \" */) ident(b)"},
		{"a /* x", "ident(a) blockcomment-unterminated(/* x)"},
		{"a /*\n*/ --> x\nb", "ident(a) blockcomment(/*\n*/) nl() htmlcomment(--> x) nl() ident(b)"},
		{"a --> b", "ident(a) punct(--) punct(>) ident(b)"},
		{"x <!-- y\nz", "ident(x) htmlcomment(<!-- y) nl() ident(z)"},
		{"`a${b}c${`d`}e`", "template-head(`a${) ident(b) template-middle(}c${) template(`d`) template-tail(}e`)"},
		{"`a\"'\n//`", "template(`a\"'\n//`)"},
		{"`a${{x:1}}`;", "template-head(`a${) punct({) ident(x) punct(:) number(1) punct(}) template-tail(}`) punct(;)"},
		{"`a${\"}\"}`", "template-head(`a${) string(\"}\") template-tail(}`)"},
		{"`abc", "template-unterminated(`abc)"},
		{"`a\\`b`", "template(`a\\`b`)"},
		{`0x1F .5 1e+3 10n 1_000`, `number(0x1F) number(.5) number(1e+3) number(10n) number(1_000)`},
		{`a?.b ?? c?.1:2`, `ident(a) punct(?.) ident(b) punct(??) ident(c) punct(?) number(.1) punct(:) number(2)`},
		{`a >>>= b === c`, `ident(a) punct(>>>=) ident(b) punct(===) ident(c)`},
		{`x = {a:1} / 2`, `ident(x) punct(=) punct({) ident(a) punct(:) number(1) punct(}) punct(/) number(2)`},
		{`ab $c _d #p`, `ident(ab) ident($c) ident(_d) private-ident(#p)`},
		{"a b", "ident(a) nl() ident(b)"},
		{"\"a b\"", "string(\"a b\")"},
		{`"zz"`, `string("zz")`},
		{`"<\/script>"`, `string("<\/script>")`},
	}
	for _, tc := range tests {
		if got := render(Lex(tc.src)); got != tc.want {
			t.Errorf("Lex(%q)\n got %s\nwant %s", tc.src, got, tc.want)
		}
	}
}

// TestCoversInput checks that the concatenation of the token texts equals the
// input with white space removed (nothing is dropped or duplicated).
func TestCoversInput(t *testing.T) {
	atoms := []string{`"`, `'`, "`", `\`, `/`, `*`, "\n", `x`, `=`, `${`, `}`, `(`, `)`, ` `, `<!--`, `-->`, `1`, `.`}
	strip := strings.NewReplacer(" ", "", "\n", "")
	var rec func(s string, d int)
	rec = func(s string, d int) {
		var b strings.Builder
		for _, tk := range Lex(s) {
			b.WriteString(tk.Text)
		}
		if strip.Replace(b.String()) != strip.Replace(s) {
			t.Fatalf("Lex(%q) covers %q", s, b.String())
		}
		if d == 0 {
			return
		}
		for _, a := range atoms {
			rec(s+a, d-1)
		}
	}
	rec("", 4)
}
