// Package jslex is a small, error-tolerant reference lexer for JavaScript
// (ECMAScript 2023 lexical grammar, Script goal, including the Annex B
// HTML-like comments). It never fails: malformed input produces tokens whose
// type ends in "-unterminated" or the type Invalid.
//
// It is used as an independent oracle: two renderings of the same template
// must produce the same token-type sequence.
package jslex

import (
	"strings"
	"unicode"
	"unicode/utf8"
)

// Token types.
const (
	LineTerminator    = "nl"          // one or more line terminators between two tokens
	LineComment       = "linecomment" // // ... up to the end of the line
	HTMLComment       = "htmlcomment" // <!-- ... or --> ... at the start of a line (Annex B.1.1)
	BlockComment      = "blockcomment"
	BlockCommentOpen  = "blockcomment-unterminated"
	String            = "string"
	StringOpen        = "string-unterminated"
	Template          = "template"      // `...` without substitutions
	TemplateHead      = "template-head" // `...${
	TemplateMiddle    = "template-middle"
	TemplateTail      = "template-tail"
	TemplateOpen      = "template-unterminated"
	Regex             = "regex"
	RegexOpen         = "regex-unterminated"
	Number            = "number"
	Ident             = "ident"
	Keyword           = "keyword"
	Punct             = "punct"
	Invalid           = "invalid"
	PrivateIdentifier = "private-ident"
)

// Token is one JavaScript input element (white space is dropped).
type Token struct {
	Type string
	Text string // source text of the token
}

var keywords = map[string]bool{}

// keywords after which a '/' starts a regular expression.
var regexKeywords = map[string]bool{}

func init() {
	for _, k := range strings.Fields(`await break case catch class const continue debugger default delete do
		else enum export extends false finally for function if import in instanceof new null return super
		switch this throw true try typeof var void while with yield let static`) {
		keywords[k] = true
	}
	for _, k := range strings.Fields(`await case delete do else in instanceof new return throw typeof void yield`) {
		regexKeywords[k] = true
	}
}

var puncts = []string{
	">>>=", "...", "===", "!==", "**=", "<<=", ">>=", ">>>", "&&=", "||=", "??=",
	"=>", "==", "!=", "<=", ">=", "&&", "||", "??", "?.", "++", "--", "+=", "-=", "*=", "/=", "%=",
	"&=", "|=", "^=", "<<", ">>", "**",
	"{", "}", "(", ")", "[", "]", ";", ",", "<", ">", "+", "-", "*", "/", "%", "&", "|", "^", "!", "~", "?", ":", "=", ".", "@",
}

func isLineTerminator(r rune) bool {
	return r == '\n' || r == '\r' || r == 0x2028 || r == 0x2029
}

func isWhiteSpace(r rune) bool {
	switch r {
	case '\t', '\v', '\f', ' ', 0xA0, 0xFEFF:
		return true
	}
	return r > 0x7f && unicode.Is(unicode.Zs, r)
}

func isIDStart(r rune) bool {
	return r == '$' || r == '_' || 'a' <= r && r <= 'z' || 'A' <= r && r <= 'Z' ||
		r > 0x7f && (unicode.IsLetter(r) || unicode.Is(unicode.Nl, r) || unicode.Is(unicode.Other_ID_Start, r))
}

func isIDPart(r rune) bool {
	return isIDStart(r) || '0' <= r && r <= '9' || r == 0x200C || r == 0x200D ||
		r > 0x7f && (unicode.Is(unicode.Mn, r) || unicode.Is(unicode.Mc, r) || unicode.Is(unicode.Nd, r) ||
			unicode.Is(unicode.Pc, r) || unicode.Is(unicode.Other_ID_Continue, r))
}

type lexer struct {
	src  string
	pos  int
	toks []Token
	// braces is the stack of open '{': true when the brace was opened by a
	// template substitution "${".
	braces []bool
	// lineStart reports whether only white space and comments precede pos on
	// the current line (for the "-->" comment).
	lineStart bool
	// pendingNL is set when a line terminator has been seen since the last token.
	pendingNL bool
}

// Lex tokenises src.
func Lex(src string) []Token {
	l := &lexer{src: src, lineStart: true}
	l.run()
	return l.toks
}

func (l *lexer) emit(typ string, start int) {
	if l.pendingNL {
		if len(l.toks) > 0 {
			l.toks = append(l.toks, Token{LineTerminator, ""})
		}
		l.pendingNL = false
	}
	l.toks = append(l.toks, Token{typ, l.src[start:l.pos]})
	switch typ {
	case LineComment, HTMLComment, BlockComment, BlockCommentOpen:
		// comments do not change lineStart
	default:
		l.lineStart = false
	}
}

// regexAllowed reports whether a '/' at the current position starts a regular
// expression literal, judging by the previous significant token.
func (l *lexer) regexAllowed() bool {
	for i := len(l.toks) - 1; i >= 0; i-- {
		t := l.toks[i]
		switch t.Type {
		case LineTerminator, LineComment, HTMLComment, BlockComment, BlockCommentOpen:
			continue
		case Ident, PrivateIdentifier, Number, String, StringOpen, Template, TemplateTail, TemplateOpen, Regex, RegexOpen:
			return false
		case Keyword:
			return regexKeywords[t.Text]
		case Punct:
			switch t.Text {
			case ")", "]", "}", "++", "--":
				return false
			}
			return true
		case TemplateHead, TemplateMiddle:
			return true
		default:
			return true
		}
	}
	return true
}

func (l *lexer) run() {
	for l.pos < len(l.src) {
		r, size := utf8.DecodeRuneInString(l.src[l.pos:])
		start := l.pos
		switch {
		case isLineTerminator(r):
			l.pos += size
			l.pendingNL = true
			l.lineStart = true
		case isWhiteSpace(r):
			l.pos += size
		case r == '/' && strings.HasPrefix(l.src[l.pos:], "//"):
			l.skipLine()
			l.emit(LineComment, start)
		case r == '/' && strings.HasPrefix(l.src[l.pos:], "/*"):
			l.blockComment()
		case r == '<' && strings.HasPrefix(l.src[l.pos:], "<!--"):
			l.skipLine()
			l.emit(HTMLComment, start)
		case r == '-' && l.lineStart && strings.HasPrefix(l.src[l.pos:], "-->"):
			l.skipLine()
			l.emit(HTMLComment, start)
		case r == '"' || r == '\'':
			l.stringLit(byte(r))
		case r == '`':
			l.pos++
			l.templateChars(start, true)
		case r == '/':
			if l.regexAllowed() {
				l.regex()
			} else {
				l.punct()
			}
		case '0' <= r && r <= '9', r == '.' && l.pos+1 < len(l.src) && '0' <= l.src[l.pos+1] && l.src[l.pos+1] <= '9':
			l.number()
		case isIDStart(r) || r == '\\':
			l.ident(Ident)
		case r == '#':
			l.pos++
			if l.pos < len(l.src) {
				if r2, _ := utf8.DecodeRuneInString(l.src[l.pos:]); isIDStart(r2) || r2 == '\\' {
					l.identFrom(start, PrivateIdentifier)
					continue
				}
			}
			l.emit(Invalid, start)
		case r == '{':
			l.pos++
			l.braces = append(l.braces, false)
			l.emit(Punct, start)
		case r == '}':
			l.pos++
			if n := len(l.braces); n > 0 {
				tpl := l.braces[n-1]
				l.braces = l.braces[:n-1]
				if tpl {
					l.templateChars(start, false)
					continue
				}
			}
			l.emit(Punct, start)
		default:
			if !l.punct() {
				l.pos += size
				l.emit(Invalid, start)
			}
		}
	}
}

func (l *lexer) skipLine() {
	for l.pos < len(l.src) {
		r, size := utf8.DecodeRuneInString(l.src[l.pos:])
		if isLineTerminator(r) {
			return
		}
		l.pos += size
	}
}

func (l *lexer) blockComment() {
	start := l.pos
	i := strings.Index(l.src[l.pos+2:], "*/")
	if i < 0 {
		l.pos = len(l.src)
		l.emit(BlockCommentOpen, start)
		return
	}
	l.pos += 2 + i + 2
	// a block comment containing a line terminator acts as a line terminator
	multiline := strings.ContainsAny(l.src[start:l.pos], "\n\r\u2028\u2029")
	l.emit(BlockComment, start)
	if multiline {
		l.pendingNL = true
		l.lineStart = true
	}
}

func (l *lexer) stringLit(quote byte) {
	start := l.pos
	l.pos++
	for l.pos < len(l.src) {
		r, size := utf8.DecodeRuneInString(l.src[l.pos:])
		switch {
		case r == rune(quote):
			l.pos++
			l.emit(String, start)
			return
		case r == '\\':
			l.pos++
			if l.pos < len(l.src) {
				r2, s2 := utf8.DecodeRuneInString(l.src[l.pos:])
				l.pos += s2
				if r2 == '\r' && l.pos < len(l.src) && l.src[l.pos] == '\n' {
					l.pos++
				}
			}
		case r == '\n' || r == '\r':
			// U+2028 and U+2029 are allowed in string literals since ES2019
			l.emit(StringOpen, start)
			return
		default:
			l.pos += size
		}
	}
	l.emit(StringOpen, start)
}

// templateChars scans template characters after a '`' (head true) or after
// the '}' that closes a substitution.
func (l *lexer) templateChars(start int, head bool) {
	for l.pos < len(l.src) {
		c := l.src[l.pos]
		switch {
		case c == '`':
			l.pos++
			if head {
				l.emit(Template, start)
			} else {
				l.emit(TemplateTail, start)
			}
			return
		case c == '\\':
			l.pos++
			if l.pos < len(l.src) {
				_, s2 := utf8.DecodeRuneInString(l.src[l.pos:])
				l.pos += s2
			}
		case c == '$' && l.pos+1 < len(l.src) && l.src[l.pos+1] == '{':
			l.pos += 2
			l.braces = append(l.braces, true)
			if head {
				l.emit(TemplateHead, start)
			} else {
				l.emit(TemplateMiddle, start)
			}
			return
		default:
			l.pos++
		}
	}
	l.emit(TemplateOpen, start)
}

func (l *lexer) regex() {
	start := l.pos
	l.pos++
	inClass := false
	for l.pos < len(l.src) {
		r, size := utf8.DecodeRuneInString(l.src[l.pos:])
		switch {
		case isLineTerminator(r):
			l.emit(RegexOpen, start)
			return
		case r == '\\':
			l.pos++
			if l.pos < len(l.src) {
				r2, s2 := utf8.DecodeRuneInString(l.src[l.pos:])
				if isLineTerminator(r2) {
					l.emit(RegexOpen, start)
					return
				}
				l.pos += s2
			}
		case r == '[':
			inClass = true
			l.pos++
		case r == ']':
			inClass = false
			l.pos++
		case r == '/' && !inClass:
			l.pos++
			for l.pos < len(l.src) {
				r2, s2 := utf8.DecodeRuneInString(l.src[l.pos:])
				if !isIDPart(r2) {
					break
				}
				l.pos += s2
			}
			l.emit(Regex, start)
			return
		default:
			l.pos += size
		}
	}
	l.emit(RegexOpen, start)
}

func (l *lexer) number() {
	start := l.pos
	hex := false
	if l.src[l.pos] == '0' && l.pos+1 < len(l.src) {
		switch l.src[l.pos+1] {
		case 'x', 'X':
			hex = true
			l.pos += 2
		case 'o', 'O', 'b', 'B':
			l.pos += 2
		}
	}
	for l.pos < len(l.src) {
		c := l.src[l.pos]
		switch {
		case '0' <= c && c <= '9' || c == '_' || c == '.':
			l.pos++
		case !hex && (c == 'e' || c == 'E'):
			l.pos++
			if l.pos < len(l.src) && (l.src[l.pos] == '+' || l.src[l.pos] == '-') {
				l.pos++
			}
		case 'a' <= c && c <= 'z' || 'A' <= c && c <= 'Z':
			l.pos++
		default:
			l.emit(Number, start)
			return
		}
	}
	l.emit(Number, start)
}

func (l *lexer) ident(typ string) { l.identFrom(l.pos, typ) }

func (l *lexer) identFrom(start int, typ string) {
	for l.pos < len(l.src) {
		r, size := utf8.DecodeRuneInString(l.src[l.pos:])
		if r == '\\' {
			// \uXXXX or \u{X...}
			rest := l.src[l.pos:]
			if strings.HasPrefix(rest, "\\u{") {
				if i := strings.IndexByte(rest, '}'); i > 0 {
					l.pos += i + 1
					continue
				}
			} else if strings.HasPrefix(rest, "\\u") && len(rest) >= 6 {
				l.pos += 6
				continue
			}
			if l.pos == start {
				l.pos++
				l.emit(Invalid, start)
				return
			}
			break
		}
		if !isIDPart(r) {
			break
		}
		l.pos += size
	}
	if typ == Ident && keywords[l.src[start:l.pos]] {
		typ = Keyword
	}
	l.emit(typ, start)
}

func (l *lexer) punct() bool {
	rest := l.src[l.pos:]
	for _, p := range puncts {
		if strings.HasPrefix(rest, p) {
			if p == "?." && len(rest) > 2 && '0' <= rest[2] && rest[2] <= '9' {
				continue
			}
			start := l.pos
			l.pos += len(p)
			l.emit(Punct, start)
			return true
		}
	}
	return false
}
