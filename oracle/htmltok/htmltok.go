// Package htmltok wraps the x/net/html tokenizer (WHATWG tokenisation) as a reference oracle.
package htmltok

import (
	"strings"

	"golang.org/x/net/html"
)

// Tok is one token of an HTML document.
type Tok struct {
	Type  html.TokenType
	Data  string // tag name, or text/comment content (text is entity-decoded)
	Attrs []html.Attribute
}

// Tokenize tokenises src; raw-text elements are handled as the tokenizer does.
func Tokenize(src string) []Tok {
	z := html.NewTokenizer(strings.NewReader(src))
	var out []Tok
	for {
		tt := z.Next()
		if tt == html.ErrorToken {
			return out
		}
		t := z.Token()
		out = append(out, Tok{Type: tt, Data: t.Data, Attrs: t.Attr})
	}
}
