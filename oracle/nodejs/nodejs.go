// Package nodejs is a reference oracle for JavaScript source text: it keeps a
// pool of long-lived /usr/bin/node subprocesses that speak a line protocol and
// evaluate a source text as exactly ONE JavaScript expression.
//
// Request  line: "<mode> <hex of source 1>,<hex of source 2>,…\n", mode = "str" | "val".
// Response line: one result per source, tab separated: "ok <payload>" or
// "err <phase> <message>" where phase is "parse" (the text is not exactly one
// expression) or "eval" (it threw).
//
// The source bytes are decoded as UTF-8 with replacement (what a browser does
// with a UTF-8 resource), so an invalid byte becomes U+FFFD.
package nodejs

import (
	"bufio"
	"encoding/hex"
	"encoding/json"
	"fmt"
	"os/exec"
	"strconv"
	"strings"
	"sync"
	"unicode/utf8"
)

const script = `'use strict';
const rl = require('readline').createInterface({input: process.stdin, terminal: false, crlfDelay: Infinity});
const f64 = new Float64Array(1), u64 = new BigUint64Array(f64.buffer);
function units(s) {
  let h = '';
  for (let i = 0; i < s.length; i++) h += s.charCodeAt(i).toString(16).padStart(4, '0');
  return h;
}
function canon(v, depth) {
  if (depth > 64) return {"$": "too-deep"};
  if (v === undefined) return {"$": "undefined"};
  if (v === null) return null;
  switch (typeof v) {
  case 'boolean': return v;
  case 'number': f64[0] = v; return {"$f": u64[0].toString(16).padStart(16, '0')};
  case 'string': return {"$s": units(v)};
  case 'bigint': return {"$": "bigint"};
  case 'function': return {"$": "function"};
  case 'symbol': return {"$": "symbol"};
  }
  if (Array.isArray(v)) {
    const a = [];
    for (let i = 0; i < v.length; i++) a.push((i in v) ? canon(v[i], depth + 1) : {"$": "hole"});
    return {"$a": a};
  }
  if (Object.prototype.toString.call(v) === '[object Date]') return {"$d": isNaN(v.getTime()) ? "invalid" : v.toISOString()};
  const o = {"$o": Object.keys(v).map(k => [units(k), canon(v[k], depth + 1)])};
  const proto = Object.getPrototypeOf(v);
  if (proto !== Object.prototype) o["$proto"] = proto === null ? "null" : "other";
  return o;
}
function phase(e, ph) { e.verifPhase = ph; return e; }
function evalOne(src) {
  let g;
  try {
    // exactly one AssignmentExpression: the array wrap turns a top-level comma
    // into a second element, the parenthesised wrap rejects spread/elision.
    g = new Function('return [' + src + '\n]');
    new Function('return (' + src + '\n)');
  } catch (e) { throw phase(e, 'parse'); }
  let a;
  try { a = g(); } catch (e) { throw phase(e instanceof Error ? e : new Error(String(e)), 'eval'); }
  if (a.length !== 1 || !(0 in a)) throw phase(new SyntaxError('not exactly one expression (array wrap has ' + a.length + ' elements)'), 'parse');
  return a[0];
}
function one(mode, hex) {
  const src = Buffer.from(hex, 'hex').toString('utf8');
  try {
    const v = evalOne(src);
    if (mode === 'str') {
      if (typeof v !== 'string') throw phase(new TypeError('value is a ' + typeof v + ', not a string'), 'eval');
      return 'ok ' + units(v);
    }
    return 'ok ' + JSON.stringify(canon(v, 0));
  } catch (e) {
    return 'err ' + (e.verifPhase || 'eval') + ' ' + (e.name + ': ' + e.message).replace(/[\r\n\t]+/g, ' ');
  }
}
rl.on('line', (line) => {
  const sp = line.indexOf(' ');
  const mode = line.slice(0, sp);
  process.stdout.write(line.slice(sp + 1).split(',').map(h => one(mode, h)).join('\t') + '\n');
});
`

type proc struct {
	cmd *exec.Cmd
	in  *bufio.Writer
	out *bufio.Reader
}

var (
	mu   sync.Mutex
	idle []*proc
)

func get() *proc {
	mu.Lock()
	if n := len(idle); n > 0 {
		p := idle[n-1]
		idle = idle[:n-1]
		mu.Unlock()
		return p
	}
	mu.Unlock()
	cmd := exec.Command("/usr/bin/node", "-e", script)
	stdin, err := cmd.StdinPipe()
	if err != nil {
		panic("nodejs oracle: " + err.Error())
	}
	stdout, err := cmd.StdoutPipe()
	if err != nil {
		panic("nodejs oracle: " + err.Error())
	}
	if err := cmd.Start(); err != nil {
		panic("nodejs oracle: cannot start /usr/bin/node: " + err.Error())
	}
	return &proc{cmd: cmd, in: bufio.NewWriterSize(stdin, 1<<16), out: bufio.NewReaderSize(stdout, 1<<16)}
}

func put(p *proc) {
	mu.Lock()
	idle = append(idle, p)
	mu.Unlock()
}

// Error is the oracle's verdict that the text is not one expression (Phase
// "parse") or that evaluating it threw (Phase "eval").
type Error struct {
	Phase string
	Msg   string
}

func (e *Error) Error() string { return e.Phase + ": " + e.Msg }

// result is one item of a response.
type result struct {
	payload string
	err     *Error
}

func request(mode string, srcs [][]byte) []result {
	if len(srcs) == 0 {
		return nil
	}
	p := get()
	p.in.WriteString(mode)
	p.in.WriteByte(' ')
	for i, src := range srcs {
		if i > 0 {
			p.in.WriteByte(',')
		}
		p.in.WriteString(hex.EncodeToString(src))
	}
	p.in.WriteByte('\n')
	if err := p.in.Flush(); err != nil {
		panic("nodejs oracle: write: " + err.Error())
	}
	line, err := p.out.ReadString('\n')
	if err != nil {
		p.cmd.Process.Kill()
		panic(fmt.Sprintf("nodejs oracle: read: %v", err))
	}
	put(p)
	items := strings.Split(strings.TrimSuffix(line, "\n"), "\t")
	if len(items) != len(srcs) {
		panic(fmt.Sprintf("nodejs oracle: %d results for %d sources", len(items), len(srcs)))
	}
	out := make([]result, len(items))
	for i, it := range items {
		switch {
		case strings.HasPrefix(it, "ok "):
			out[i].payload = it[3:]
		case strings.HasPrefix(it, "err "):
			ph, msg, _ := strings.Cut(it[4:], " ")
			out[i].err = &Error{Phase: ph, Msg: msg}
		default:
			panic(fmt.Sprintf("nodejs oracle: bad response %q", it))
		}
	}
	return out
}

func unitsOf(h string) []uint16 {
	u := make([]uint16, len(h)/4)
	for i := range u {
		n, err := strconv.ParseUint(h[4*i:4*i+4], 16, 16)
		if err != nil {
			panic("nodejs oracle: bad code units " + h)
		}
		u[i] = uint16(n)
	}
	return u
}

// StringResult is the outcome of EvalStrings for one source.
type StringResult struct {
	Units []uint16
	Err   *Error
}

// EvalStrings evaluates each source as exactly one JavaScript expression whose
// value must be a string, in one round trip.
func EvalStrings(srcs [][]byte) []StringResult {
	rs := request("str", srcs)
	out := make([]StringResult, len(rs))
	for i, r := range rs {
		if r.err != nil {
			out[i].Err = r.err
		} else {
			out[i].Units = unitsOf(r.payload)
		}
	}
	return out
}

// EvalString evaluates src as exactly one JavaScript expression whose value
// must be a string, and returns its UTF-16 code units.
func EvalString(src []byte) ([]uint16, *Error) {
	r := EvalStrings([][]byte{src})[0]
	return r.Units, r.Err
}

// Value is the canonical form of a JavaScript value.
//
//	null → nil; boolean → bool; number → Num; string → Str; Array → []Value (as
//	Arr); Date → Date (ISO string or "invalid"); plain object → Obj with its own
//	enumerable string keys in Object.keys order; anything else → Other.
type (
	Num   uint64 // IEEE-754 bits
	Str   []uint16
	Arr   []any
	Date  string
	Other string // "undefined", "function", "hole", …
	Obj   struct {
		Keys  []Str
		Vals  []any
		Proto string // "" for Object.prototype, else "null" | "other"
	}
)

// ValueResult is the outcome of EvalValues for one source.
type ValueResult struct {
	Value any
	Err   *Error
}

// EvalValues evaluates each source as exactly one JavaScript expression and
// returns the canonical forms of the values, in one round trip.
func EvalValues(srcs [][]byte) []ValueResult {
	rs := request("val", srcs)
	out := make([]ValueResult, len(rs))
	for i, r := range rs {
		if r.err != nil {
			out[i].Err = r.err
			continue
		}
		var raw any
		if err := json.Unmarshal([]byte(r.payload), &raw); err != nil {
			panic("nodejs oracle: bad canonical form " + r.payload)
		}
		out[i].Value = decode(raw)
	}
	return out
}

// EvalValue evaluates src as exactly one JavaScript expression and returns
// the canonical form of its value.
func EvalValue(src []byte) (any, *Error) {
	r := EvalValues([][]byte{src})[0]
	return r.Value, r.Err
}

func decode(raw any) any {
	switch v := raw.(type) {
	case nil:
		return nil
	case bool:
		return v
	case map[string]any:
		if x, ok := v["$f"]; ok {
			n, err := strconv.ParseUint(x.(string), 16, 64)
			if err != nil {
				panic("nodejs oracle: bad number bits")
			}
			return Num(n)
		}
		if x, ok := v["$s"]; ok {
			return Str(unitsOf(x.(string)))
		}
		if x, ok := v["$d"]; ok {
			return Date(x.(string))
		}
		if x, ok := v["$"]; ok {
			return Other(x.(string))
		}
		if x, ok := v["$a"]; ok {
			a := Arr{}
			for _, e := range x.([]any) {
				a = append(a, decode(e))
			}
			return a
		}
		if x, ok := v["$o"]; ok {
			o := Obj{}
			for _, kv := range x.([]any) {
				p := kv.([]any)
				o.Keys = append(o.Keys, Str(unitsOf(p[0].(string))))
				o.Vals = append(o.Vals, decode(p[1]))
			}
			if pr, ok := v["$proto"]; ok {
				o.Proto = pr.(string)
			}
			return o
		}
	}
	panic(fmt.Sprintf("nodejs oracle: unexpected canonical form %#v", raw))
}

// DecodeUTF8 is the UTF-8 decoder of the WHATWG Encoding Standard (what a
// browser and node apply to a UTF-8 resource): every maximal invalid subpart
// becomes one U+FFFD.
func DecodeUTF8(s string) []rune {
	var out []rune
	var cp rune
	needed, seen := 0, 0
	lower, upper := byte(0x80), byte(0xBF)
	for i := 0; i < len(s); i++ {
		b := s[i]
		if needed == 0 {
			switch {
			case b <= 0x7F:
				out = append(out, rune(b))
			case 0xC2 <= b && b <= 0xDF:
				needed, cp = 1, rune(b&0x1F)
			case 0xE0 <= b && b <= 0xEF:
				if b == 0xE0 {
					lower = 0xA0
				}
				if b == 0xED {
					upper = 0x9F
				}
				needed, cp = 2, rune(b&0xF)
			case 0xF0 <= b && b <= 0xF4:
				if b == 0xF0 {
					lower = 0x90
				}
				if b == 0xF4 {
					upper = 0x8F
				}
				needed, cp = 3, rune(b&0x7)
			default:
				out = append(out, utf8.RuneError)
			}
			continue
		}
		if b < lower || b > upper {
			cp, needed, seen = 0, 0, 0
			lower, upper = 0x80, 0xBF
			i-- // reprocess the byte
			out = append(out, utf8.RuneError)
			continue
		}
		lower, upper = 0x80, 0xBF
		cp = cp<<6 | rune(b&0x3F)
		seen++
		if seen == needed {
			out = append(out, cp)
			cp, needed, seen = 0, 0, 0
		}
	}
	if needed != 0 {
		out = append(out, utf8.RuneError)
	}
	return out
}
